"""Reference two-body model, written from the textbook definitions.

Independent of beyond's code paths: plain numpy, vector definitions of the
classical elements, safeguarded Newton for Kepler's equation, universal
variable propagation (Stumpff functions) valid for ellipses and hyperbolas in
both time directions.  Only *data* (mu) comes from outside.
"""

import math

import numpy as np

TWO_PI = 2 * math.pi


# ---------------------------------------------------------------------------
# Kepler's equation (reference solvers: bisection-safeguarded Newton)


def solve_kepler_elliptic(M, e):
    """E with E - e sin E = M, for any real M (result carries the same number of turns as M)."""
    k = math.floor(M / TWO_PI + 0.5)
    m = M - k * TWO_PI  # in [-pi, pi)
    lo, hi = -math.pi, math.pi
    E = m if e < 0.8 else math.copysign(math.pi, m) if m != 0 else 0.0
    for _ in range(200):
        f = E - e * math.sin(E) - m
        if f > 0:
            hi = E
        else:
            lo = E
        fp = 1 - e * math.cos(E)
        En = E - f / fp
        if not (lo <= En <= hi):
            En = 0.5 * (lo + hi)
        if abs(En - E) <= 1e-16 * max(1.0, abs(En)):
            E = En
            break
        E = En
    return E + k * TWO_PI


def solve_kepler_hyperbolic(M, e):
    """H with e sinh H - H = M."""
    # bracket
    s = 1.0 if M >= 0 else -1.0
    m = abs(M)
    lo, hi = 0.0, max(1.0, math.asinh((m + 1) / e) + 1.0)
    while e * math.sinh(hi) - hi < m:
        hi *= 2
    H = min(hi, math.asinh(m / e) if m > 0 else 0.0)
    H = max(H, lo)
    for _ in range(300):
        f = e * math.sinh(H) - H - m
        if f > 0:
            hi = H
        else:
            lo = H
        fp = e * math.cosh(H) - 1
        Hn = H - f / fp
        if not (lo <= Hn <= hi):
            Hn = 0.5 * (lo + hi)
        if abs(Hn - H) <= 1e-16 * max(1.0, abs(Hn)):
            H = Hn
            break
        H = Hn
    return s * H


# ---------------------------------------------------------------------------
# classical elements <-> cartesian


def kep_to_cart(a, e, i, Om, w, nu, mu):
    """Perifocal construction. a<0 for hyperbolas."""
    p = a * (1 - e * e)
    r = p / (1 + e * math.cos(nu))
    rp = np.array([r * math.cos(nu), r * math.sin(nu), 0.0])
    k = math.sqrt(mu / p)
    vp = np.array([-k * math.sin(nu), k * (e + math.cos(nu)), 0.0])
    cO, sO, ci, si, cw, sw = math.cos(Om), math.sin(Om), math.cos(i), math.sin(i), math.cos(w), math.sin(w)
    R = np.array(
        [
            [cO * cw - sO * sw * ci, -cO * sw - sO * cw * ci, sO * si],
            [sO * cw + cO * sw * ci, -sO * sw + cO * cw * ci, -cO * si],
            [sw * si, cw * si, ci],
        ]
    )
    return np.concatenate([R @ rp, R @ vp])


def mean_to_true(M, e):
    if e < 1:
        E = solve_kepler_elliptic(M, e)
        nu = 2 * math.atan2(math.sqrt(1 + e) * math.sin(E / 2), math.sqrt(1 - e) * math.cos(E / 2))
        return nu, E
    H = solve_kepler_hyperbolic(M, e)
    nu = 2 * math.atan(math.sqrt((e + 1) / (e - 1)) * math.tanh(H / 2))
    return nu, H


def true_to_mean(nu, e):
    if e < 1:
        E = 2 * math.atan2(math.sqrt(1 - e) * math.sin(nu / 2), math.sqrt(1 + e) * math.cos(nu / 2))
        return E - e * math.sin(E), E
    H = 2 * math.atanh(math.sqrt((e - 1) / (e + 1)) * math.tan(nu / 2))
    return e * math.sinh(H) - H, H


def cart_to_kep(rv, mu):
    """Vector definitions. Returns dict with a,e,i,Om,w,nu,E_or_H,M,n,p,h (angles in [0,2pi) except anomalies of
    hyperbolas, which are signed)."""
    r = np.asarray(rv[:3], dtype=float)
    v = np.asarray(rv[3:], dtype=float)
    rn = np.linalg.norm(r)
    h = np.cross(r, v)
    hn = np.linalg.norm(h)
    nvec = np.array([-h[1], h[0], 0.0])
    nn = np.linalg.norm(nvec)
    evec = np.cross(v, h) / mu - r / rn
    e = np.linalg.norm(evec)
    energy = v @ v / 2 - mu / rn
    a = -mu / (2 * energy)
    i = math.atan2(math.hypot(h[0], h[1]), h[2])
    Om = math.atan2(h[0], -h[1]) % TWO_PI
    # argument of latitude, then perigee from the e-vector in the orbital plane
    nhat = nvec / nn
    what = h / hn
    mhat = np.cross(what, nhat)
    w = math.atan2(evec @ mhat, evec @ nhat) % TWO_PI
    u = math.atan2(r @ mhat, r @ nhat) % TWO_PI
    nu = (u - w) % TWO_PI
    if e < 1:
        M, E = true_to_mean(nu, e)
        M %= TWO_PI
        E %= TWO_PI
    else:
        nus = (nu + math.pi) % TWO_PI - math.pi
        M, E = true_to_mean(nus, e)
        nu = nus
    n = math.sqrt(mu / abs(a) ** 3)
    return dict(a=a, e=e, i=i, Om=Om, w=w, nu=nu, E=E, M=M, n=n, p=hn * hn / mu, h=h, u=u, energy=energy, evec=evec)


# ---------------------------------------------------------------------------
# universal-variable propagation


def _stumpff(z):
    if z < -2.5e5:
        # cosh/sinh would overflow; such z only occur at the far end of the bracket of propagate_uv, where the
        # (monotone) time equation is astronomically above its target: any huge value drives the bisection back
        z = -2.5e5
    if z > 1e-6:
        s = math.sqrt(z)
        return (1 - math.cos(s)) / z, (s - math.sin(s)) / (s * z)
    if z < -1e-6:
        s = math.sqrt(-z)
        return (1 - math.cosh(s)) / z, (math.sinh(s) - s) / (s * (-z))
    # series
    c2 = 1 / 2 - z / 24 + z * z / 720 - z**3 / 40320
    c3 = 1 / 6 - z / 120 + z * z / 5040 - z**3 / 362880
    return c2, c3


def propagate_uv(rv, dt, mu):
    """Two-body propagation of a cartesian state by dt seconds (any sign), universal variables,
    bracketed Newton on the universal anomaly."""
    r0 = np.asarray(rv[:3], dtype=float)
    v0 = np.asarray(rv[3:], dtype=float)
    if dt == 0:
        return np.concatenate([r0, v0])
    r0n = np.linalg.norm(r0)
    sq = math.sqrt(mu)
    rdv = r0 @ v0
    alpha = 2 / r0n - (v0 @ v0) / mu  # 1/a

    def F(chi):
        z = alpha * chi * chi
        if z < -2000:  # beyond the bracket of interest; monotone anyway
            z = -2000
            c2, c3 = _stumpff(z)
        else:
            c2, c3 = _stumpff(z)
        t = (rdv / sq) * chi * chi * c2 + (1 - alpha * r0n) * chi**3 * c3 + r0n * chi
        return t

    target = sq * dt
    # F is strictly increasing in chi (dF/dchi = r > 0): bracket then safeguarded Newton
    s = 1.0 if dt > 0 else -1.0
    step = sq * abs(dt) * abs(alpha) if alpha > 0 else max(1.0, math.sqrt(r0n))
    step = max(step, 1.0)
    lo, hi = 0.0, s * step
    it = 0
    while (F(hi) - target) * s < 0:
        lo = hi
        hi *= 2
        it += 1
        if it > 200:
            raise RuntimeError("no bracket")
    if s < 0:
        lo, hi = hi, lo
    chi = 0.5 * (lo + hi)
    for _ in range(300):
        z = alpha * chi * chi
        c2, c3 = _stumpff(z)
        f = (rdv / sq) * chi * chi * c2 + (1 - alpha * r0n) * chi**3 * c3 + r0n * chi - target
        if f > 0:
            hi = chi
        else:
            lo = chi
        fp = chi * chi * c2 + (rdv / sq) * chi * (1 - z * c3) + r0n * (1 - z * c2)
        cn = chi - f / fp if fp != 0 else 0.5 * (lo + hi)
        if not (lo <= cn <= hi):
            cn = 0.5 * (lo + hi)
        if abs(cn - chi) <= 1e-15 * max(1.0, abs(cn)):
            chi = cn
            break
        chi = cn
    z = alpha * chi * chi
    c2, c3 = _stumpff(z)
    f = 1 - chi * chi / r0n * c2
    g = dt - chi**3 / sq * c3
    r = f * r0 + g * v0
    rn = np.linalg.norm(r)
    gd = 1 - chi * chi / rn * c2
    fd = sq / (rn * r0n) * chi * (z * c3 - 1)
    v = fd * r0 + gd * v0
    return np.concatenate([r, v])


def propagate_kepler_elements(rv, dt, mu):
    """Second, independent formulation: elements -> advance M -> cartesian (used by the self test)."""
    k = cart_to_kep(rv, mu)
    M = k["M"] + k["n"] * dt
    nu, _ = mean_to_true(M, k["e"])
    return kep_to_cart(k["a"], k["e"], k["i"], k["Om"], k["w"], nu, mu)


def period(a, mu):
    return TWO_PI * math.sqrt(a**3 / mu)


# ---------------------------------------------------------------------------


def selftest():
    mu = 3.986004418e14
    worst = 0.0
    for e in (1e-4, 0.1, 0.5, 0.95, 1.01, 1.5, 3.7, 10.0):
        for M in (-3.0, -0.5, 0.3, 2.0, 3.3, 7.5) if e < 1 else (-20.0, -0.5, 0.5, 4.0, 200.0):
            rp = 7.0e6
            a = rp / (1 - e)
            nu, _ = mean_to_true(M, e)
            rv = kep_to_cart(a, e, 0.9, 1.0, 0.7, nu, mu)
            k = cart_to_kep(rv, mu)
            assert abs(k["a"] / a - 1) < 1e-9 * (1 + 1 / abs(1 - e)), (e, M, k["a"], a)
            assert abs(k["e"] - e) < 1e-10 * (1 + e)
            assert abs(k["i"] - 0.9) < 1e-12 and abs(k["Om"] - 1.0) < 1e-12
            dM = (k["M"] - M) if e > 1 else ((k["M"] - M + math.pi) % TWO_PI - math.pi)
            assert abs(dM) < 1e-8 * (1 + abs(M)), (e, M, dM)
            for dt in (-86400.0, -10.0, 1.0, 1000.0, 86400.0):
                x1 = propagate_uv(rv, dt, mu)
                x2 = propagate_kepler_elements(rv, dt, mu)
                err = np.linalg.norm(x1[:3] - x2[:3]) / np.linalg.norm(x1[:3])
                worst = max(worst, err)
                assert err < 1e-8, (e, M, dt, err)
                # conservation
                k1 = cart_to_kep(x1, mu)
                assert abs(k1["energy"] / k["energy"] - 1) < 1e-9
                assert np.linalg.norm(k1["h"] - k["h"]) / np.linalg.norm(k["h"]) < 1e-10
                # inverse
                x0 = propagate_uv(x1, -dt, mu)
                assert np.linalg.norm(x0[:3] - rv[:3]) / np.linalg.norm(rv[:3]) < 1e-8
    return worst


if __name__ == "__main__":
    print("twobody selftest worst rel err", selftest())
