"""Reference two-line-element codec, written from the format's column table.

Independent of beyond/io/tle.py: no code or helper of the library is used.  The
table below is the NORAD / CelesTrak definition of the format (1-based,
inclusive columns):

    line 1                                         line 2
    01     line number "1"                         01     line number "2"
    03-07  satellite catalogue number              03-07  satellite catalogue number
    08     classification                          09-16  inclination [deg]            NNN.NNNN
    10-11  int. designator: launch year            18-25  right ascension of node [deg] NNN.NNNN
    12-14  int. designator: launch number          27-33  eccentricity, leading "0." implied
    15-17  int. designator: piece                  35-42  argument of perigee [deg]    NNN.NNNN
    19-20  epoch year (two digits)                 44-51  mean anomaly [deg]           NNN.NNNN
    21-32  epoch day of year + fraction            53-63  mean motion [rev/day]        NN.NNNNNNNN
    34-43  ndot/2 [rev/day^2]     S.NNNNNNNN       64-68  revolution number at epoch
    45-52  nddot/6 [rev/day^3]    SNNNNN-N         69     checksum
    54-61  B* [1/earth radii]     SNNNNN-N
    63     ephemeris type
    65-68  element set number
    69     checksum

    "SNNNNN-N": sign (blank, + or -), five mantissa digits with an implied leading
    decimal point, exponent sign, one exponent digit:  " 12345-5" = 0.12345e-5.
    Two-digit years: 57-99 -> 1957-1999, 00-56 -> 2000-2056.
    Checksum: sum of all digits of columns 1-68, each "-" counting 1, everything else 0, mod 10.

All decoded numbers are exact `fractions.Fraction`s of the printed decimals.
"""

from datetime import datetime, timedelta
from decimal import ROUND_HALF_EVEN, Decimal
from fractions import Fraction

# (name, first column, last column) -- 1-based inclusive
L1 = [
    ("line", 1, 1),
    ("satnum", 3, 7),
    ("classification", 8, 8),
    ("desig", 10, 17),
    ("epoch", 19, 32),
    ("ndot", 34, 43),
    ("nddot", 45, 52),
    ("bstar", 54, 61),
    ("ephtype", 63, 63),
    ("elnum", 65, 68),
]
L2 = [
    ("line", 1, 1),
    ("satnum", 3, 7),
    ("i", 9, 16),
    ("raan", 18, 25),
    ("e", 27, 33),
    ("argp", 35, 42),
    ("M", 44, 51),
    ("n", 53, 63),
    ("revnum", 64, 68),
]
COLS1 = {n: (a, b) for n, a, b in L1}
COLS2 = {n: (a, b) for n, a, b in L2}


def checksum(line):
    """Checksum of columns 1-68 of `line`."""
    s = 0
    for ch in line[:68]:
        if "0" <= ch <= "9":
            s += ord(ch) - 48
        elif ch == "-":
            s += 1
    return s % 10


def _place(buf, text, a, b, right=True):
    w = b - a + 1
    if len(text) > w:
        raise ValueError(f"field {text!r} wider than columns {a}-{b}")
    text = text.rjust(w) if right else text.ljust(w)
    buf[a - 1 : b] = list(text)


def encode(f):
    """Field *texts* -> (line1, line2) with checksums.

    f: dict with keys satnum, desig, epoch (14 chars 'YYDDD.DDDDDDDD'), ndot (10), nddot (8), bstar (8),
    elnum, i, raan, e (7), argp, M, n, revnum; optional classification ('U'), ephtype ('0').
    Texts narrower than their columns are right-justified (designator: left-justified).
    """
    b1 = [" "] * 68
    b2 = [" "] * 68
    _place(b1, "1", 1, 1)
    _place(b1, f["satnum"], *COLS1["satnum"])
    _place(b1, f.get("classification", "U"), *COLS1["classification"])
    _place(b1, f["desig"], *COLS1["desig"], right=False)
    _place(b1, f["epoch"], *COLS1["epoch"])
    _place(b1, f["ndot"], *COLS1["ndot"])
    _place(b1, f["nddot"], *COLS1["nddot"])
    _place(b1, f["bstar"], *COLS1["bstar"])
    _place(b1, f.get("ephtype", "0"), *COLS1["ephtype"])
    _place(b1, f["elnum"], *COLS1["elnum"])
    _place(b2, "2", 1, 1)
    _place(b2, f["satnum"], *COLS2["satnum"])
    for k in ("i", "raan", "e", "argp", "M", "n", "revnum"):
        _place(b2, f[k], *COLS2[k])
    l1 = "".join(b1)
    l2 = "".join(b2)
    return l1 + str(checksum(l1)), l2 + str(checksum(l2))


def _col(line, a, b):
    return line[a - 1 : b]


def dec_exp_field(text):
    """'SNNNNN-N' -> Fraction."""
    t = text.strip()
    sign = 1
    if t[0] in "+-":
        sign = -1 if t[0] == "-" else 1
        t = t[1:]
    mant, es, ex = t[:-2], t[-2], t[-1]
    if es not in "+-" or not mant.isdigit() or not ex.isdigit():
        raise ValueError(f"bad implied-decimal field {text!r}")
    v = Fraction(int(mant), 10 ** len(mant))
    e = int(ex) if es == "+" else -int(ex)
    return sign * v * Fraction(10) ** e


def full_year(yy):
    return 1900 + yy if yy >= 57 else 2000 + yy


def decode(line1, line2):
    """Both lines (69 chars each) -> dict of exact values.  Angles in degrees, n in rev/day,
    ndot = first derivative of n [rev/day^2] (the printed value times 2), nddot likewise (times 6)."""
    if len(line1) != 69 or len(line2) != 69:
        raise ValueError("length")
    if line1[0] != "1" or line2[0] != "2":
        raise ValueError("line number")
    if str(checksum(line1)) != line1[68] or str(checksum(line2)) != line2[68]:
        raise ValueError("checksum")
    c1 = lambda k: _col(line1, *COLS1[k])
    c2 = lambda k: _col(line2, *COLS2[k])
    d = {}
    d["satnum"] = int(c1("satnum"))
    d["satnum2"] = int(c2("satnum"))
    d["classification"] = c1("classification")
    desig = c1("desig")
    if desig.strip():
        d["cospar"] = "%04d-%s" % (full_year(int(desig[:2])), desig[2:].strip())
    else:
        d["cospar"] = ""
    ep = c1("epoch")
    yy = int(ep[:2])
    doy = Fraction(ep[2:].strip())
    d["epoch_year"] = full_year(yy)
    d["epoch_doy"] = doy
    d["ndot"] = Fraction(c1("ndot").strip().replace("+", "")) * 2
    d["nddot"] = dec_exp_field(c1("nddot")) * 6
    d["bstar"] = dec_exp_field(c1("bstar"))
    d["ephtype"] = int(c1("ephtype"))
    d["elnum"] = int(c1("elnum"))
    d["i"] = Fraction(c2("i").strip())
    d["raan"] = Fraction(c2("raan").strip())
    d["e"] = Fraction(int(c2("e")), 10 ** 7)
    d["argp"] = Fraction(c2("argp").strip())
    d["M"] = Fraction(c2("M").strip())
    d["n"] = Fraction(c2("n").strip())
    d["revnum"] = int(c2("revnum"))
    return d


def epoch_us(dec):
    """Epoch of a decoded TLE as integer microseconds since 1950-01-01T00:00 (wall clock of the TLE, UTC).
    Exact: 1e-8 day = 864 us."""
    days = (datetime(dec["epoch_year"], 1, 1) - datetime(1950, 1, 1)).days
    us = (dec["epoch_doy"] - 1) * 86400 * 10 ** 6
    return days * 86400 * 10 ** 6 + us  # Fraction (integral when the fraction has <= 8 decimals)


def datetime_us(dt):
    """naive datetime -> integer microseconds since 1950-01-01T00:00."""
    td = dt - datetime(1950, 1, 1)
    return (td.days * 86400 + td.seconds) * 10 ** 6 + td.microseconds


# ---------------------------------------------------------------------------
# formatting numbers into field texts (canonical spelling: what a writer that rounds
# half-even to the printed precision produces)


def _q(x, places):
    """x (float / Fraction / Decimal / str) rounded half-even to `places` decimals -> Decimal."""
    if isinstance(x, Fraction):
        x = Decimal(x.numerator) / Decimal(x.denominator)
    elif isinstance(x, float):
        x = Decimal(x)  # exact binary value
    else:
        x = Decimal(x)
    return x.quantize(Decimal(1).scaleb(-places), rounding=ROUND_HALF_EVEN)


def fmt_angle(deg):
    return "%8s" % format(_q(deg, 4), "f")


def fmt_ecc(e):
    q = _q(e, 7)
    if not (0 <= q < 1):
        raise ValueError("eccentricity not printable")
    return format(q, "f")[2:]


def fmt_n(n):
    return "%11s" % format(_q(n, 8), "f")


def fmt_ndot(half_ndot):
    q = _q(half_ndot, 8)
    if not (-1 < q < 1):
        raise ValueError("ndot/2 not printable")
    s = format(abs(q), "f")[1:]  # '.NNNNNNNN'
    neg = q < 0 or (q == 0 and str(q).startswith("-"))
    return ("-" if neg and q != 0 else " ") + s


def fmt_exp(x):
    """Canonical 'SNNNNN-N' text (sign blank for >= 0, normalised mantissa in [0.1, 1), zero = ' 00000-0')."""
    if isinstance(x, Fraction):
        d = Decimal(x.numerator) / Decimal(x.denominator)
    elif isinstance(x, float):
        d = Decimal(x)
    else:
        d = Decimal(x)
    if d == 0:
        return " 00000-0"
    sign = "-" if d < 0 else " "
    d = abs(d)
    ex = d.adjusted() + 1  # d = 0.m * 10**ex
    m = (d.scaleb(-ex)).quantize(Decimal("0.00001"), rounding=ROUND_HALF_EVEN)
    if m >= 1:
        m = m / 10
        ex += 1
        m = m.quantize(Decimal("0.00001"))
    if not (-9 <= ex <= 9):
        raise ValueError("exponent not printable")
    return "%s%s%s%d" % (sign, format(m, "f")[2:], "+" if ex >= 0 else "-", abs(ex))


def fmt_epoch(dt):
    """naive datetime (on the 1e-8 day grid or not) -> 'YYDDD.DDDDDDDD'."""
    doy = (datetime(dt.year, dt.month, dt.day) - datetime(dt.year, 1, 1)).days + 1
    us = ((dt.hour * 60 + dt.minute) * 60 + dt.second) * 10 ** 6 + dt.microsecond
    frac = Fraction(us, 86400 * 10 ** 6)
    q = _q(Fraction(doy) + frac, 8)
    return "%02d%s" % (dt.year % 100, format(q, "f").rjust(12, "0"))


def epoch_datetime(dec):
    """Decoded epoch -> naive datetime (exact to the microsecond on the 1e-8 day grid)."""
    us = epoch_us(dec)
    if us.denominator != 1:
        raise ValueError("epoch not on the microsecond grid")
    return datetime(1950, 1, 1) + timedelta(microseconds=int(us))


# ---------------------------------------------------------------------------


def selftest():
    # 1. the documented example lines of the format (ISS, CelesTrak documentation)
    l1 = "1 25544U 98067A   08264.51782528 -.00002182  00000-0 -11606-4 0  2927"
    l2 = "2 25544  51.6416 247.4627 0006703 130.5360 325.0288 15.72125391563537"
    assert checksum(l1) == 7 and checksum(l2) == 7
    d = decode(l1, l2)
    assert d["satnum"] == 25544 and d["cospar"] == "1998-067A" and d["elnum"] == 292 and d["revnum"] == 56353
    assert d["bstar"] == Fraction(-11606, 10 ** 9) and d["ndot"] == Fraction(-4364, 10 ** 8)
    assert d["epoch_year"] == 2008 and d["epoch_doy"] == Fraction("264.51782528")
    assert d["e"] == Fraction(6703, 10 ** 7) and d["n"] == Fraction("15.72125391")
    # 2. encode is the inverse of the column cutter
    f = dict(satnum="25544", desig="98067A", epoch="08264.51782528", ndot="-.00002182", nddot=" 00000-0",
             bstar="-11606-4", elnum="292", i="51.6416", raan="247.4627", e="0006703", argp="130.5360",
             M="325.0288", n="15.72125391", revnum="56353")
    assert encode(f) == (l1, l2), encode(f)
    # 3. a second published element set (Vallado's verification file, satellite 00005)
    v1 = "1 00005U 58002B   00179.78495062  .00000023  00000-0  28098-4 0  4753"
    v2 = "2 00005  34.2682 348.7242 1859667 331.7664  19.3264 10.82419157413667"
    assert checksum(v1) == 3 and checksum(v2) == 7
    # 4. formatters invert the decoders on the printing grid
    for t in (" 00000-0", " 12345-5", "-12345-5", " 99999-1", " 10000+0", " 12345+1", " 10000-9", "-11606-4"):
        assert fmt_exp(dec_exp_field(t)) == t, (t, fmt_exp(dec_exp_field(t)))
        assert fmt_exp(float(dec_exp_field(t))) == t
    assert fmt_exp(0.000099999996) == " 10000-3"
    for t in (" .00001524", "-.00001524", " .99999999", "-.00000001", " .00000000"):
        assert fmt_ndot(Fraction(t.strip())) == t, (t, fmt_ndot(Fraction(t.strip())))
    assert fmt_angle(51.6421) == " 51.6421" and fmt_angle(0) == "  0.0000" and fmt_angle(359.9999) == "359.9999"
    assert fmt_ecc(0.0003381) == "0003381" and fmt_ecc(0) == "0000000" and fmt_ecc(0.9999999) == "9999999"
    assert fmt_n(15.54198229) == "15.54198229" and fmt_n(0.5) == " 0.50000000"
    # 5. epoch arithmetic: grid exactness, year windows, leap day
    for ep, iso in (("57001.00000000", datetime(1957, 1, 1)), ("99365.99999999", datetime(1999, 12, 31, 23, 59, 59, 999136)),
                    ("00001.00000000", datetime(2000, 1, 1)), ("56366.50000000", datetime(2056, 12, 31, 12)),
                    ("16124.55610684", datetime(2016, 5, 3, 13, 20, 47, 630976))):
        dd = dict(epoch_year=full_year(int(ep[:2])), epoch_doy=Fraction(ep[2:]))
        assert epoch_datetime(dd) == iso, (ep, epoch_datetime(dd))
        assert fmt_epoch(iso) == ep, (ep, fmt_epoch(iso))
        assert epoch_us(dd) == datetime_us(iso)
    try:
        decode(l1[:68] + "8", l2)
    except ValueError:
        pass
    else:
        raise AssertionError("bad checksum accepted")


if __name__ == "__main__":
    selftest()
    print("ok")
