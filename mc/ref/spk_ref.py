"""Reference for C18: direct chaining of the segments of a JPL SPK kernel.

Data: the Chebyshev coefficient records of the repository's
tests/data/jpl/de403_2000-2020.bsp, read through jplephem's DAF/SPK file
parser.  Everything after the parsing is done here from the definitions:
own evaluation of the type-2 Chebyshev records (three-term recurrence for
T_k and T_k'), own walk from a body up to the solar-system barycentre,
own unit handling (km, km/s -> m, m/s).  jplephem's evaluator is only used
by the self test as the second formulation.

Also: IAU-1976 precession matrix (Lieske 1979 angles zeta, theta, z) to
express a J2000 vector in the mean equator and equinox of date, needed to
compare the library's Sun series (given in MOD) with the kernel.
"""

import math
import os

import numpy as np

KERNEL = "/repo/tests/data/jpl/de403_2000-2020.bsp"
J2000_JD = 2451545.0
S_PER_DAY = 86400.0

_K = {}


def kernel(path=None):
    path = path or KERNEL
    if path not in _K:
        from jplephem.spk import SPK

        spk = SPK.open(path)
        segs = {}
        for s in spk.segments:
            if s.data_type != 2:
                raise RuntimeError("only SPK type 2 handled by the reference")
            init, intlen, coeff = s.load_array()
            segs[(s.center, s.target)] = dict(
                init=float(init), intlen=float(intlen), coeff=np.array(coeff, dtype=float), start=s.start_jd, end=s.end_jd, raw=s
            )
        _K[path] = segs
    return _K[path]


def bodies(path=None):
    ids = set()
    for c, t in kernel(path):
        ids.add(c)
        ids.add(t)
    return sorted(ids)


def eval_segment(seg, jd):
    """Position (km) and velocity (km/s) of target wrt center from the raw Chebyshev record at TDB Julian date jd."""
    intlen = seg["intlen"]  # days
    t = jd - seg["init"]  # days since the first record
    coeff = seg["coeff"]  # [component, record, degree], degree 0 first (jplephem's public load_array layout)
    nrec = coeff.shape[1]
    idx = int(math.floor(t / intlen))
    if idx == nrec and abs(t - nrec * intlen) < 1e-8:
        idx = nrec - 1  # the last instant of the kernel belongs to the last record
    if not (0 <= idx < nrec):
        raise ValueError("date outside the kernel")
    x = 2.0 * (t - idx * intlen) / intlen - 1.0
    c = coeff[:, idx, :]
    n = c.shape[1]
    # T_0 = 1, T_1 = x, T_k = 2 x T_{k-1} - T_{k-2};  T_k' = 2 T_{k-1} + 2 x T_{k-1}' - T_{k-2}'
    T = [1.0, x]
    dT = [0.0, 1.0]
    for k in range(2, n):
        T.append(2 * x * T[k - 1] - T[k - 2])
        dT.append(2 * T[k - 1] + 2 * x * dT[k - 1] - dT[k - 2])
    T = np.array(T[:n])
    dT = np.array(dT[:n])
    pos = c @ T
    vel = (c @ dT) * (2.0 / (intlen * S_PER_DAY))
    return pos, vel


def chain_to_ssb(body, path=None):
    """List of (center, target) segments leading from `body` up to the barycentre 0."""
    segs = kernel(path)
    out = []
    cur = body
    guard = 0
    while cur != 0:
        nxt = [k for k in segs if k[1] == cur]
        if len(nxt) != 1:
            raise KeyError(f"no unique segment with target {cur}")
        out.append(nxt[0])
        cur = nxt[0][0]
        guard += 1
        if guard > 10:
            raise RuntimeError("cycle in kernel")
    return out


def state_ssb(body, jd, path=None):
    """(state [m, m/s] of body wrt the solar-system barycentre, sum of |terms| for round-off bounds)."""
    segs = kernel(path)
    s = np.zeros(6)
    mag = np.zeros(2)
    for key in chain_to_ssb(body, path):
        p, v = eval_segment(segs[key], jd)
        s[:3] += p * 1e3
        s[3:] += v * 1e3
        mag += [np.linalg.norm(p) * 1e3, np.linalg.norm(v) * 1e3]
    return s, mag


def relative(target, center, jd, path=None):
    """State of `target` relative to `center` (m, m/s), ICRF/J2000 axes; and the magnitude of the summed terms.
    Common ancestors are cancelled exactly (the segments shared by both chains are not evaluated)."""
    segs = kernel(path)
    ca = chain_to_ssb(target, path)
    cb = chain_to_ssb(center, path)
    common = set(ca) & set(cb)
    s = np.zeros(6)
    mag = np.zeros(2)
    for key in ca:
        if key in common:
            continue
        p, v = eval_segment(segs[key], jd)
        s[:3] += p * 1e3
        s[3:] += v * 1e3
        mag += [np.linalg.norm(p) * 1e3, np.linalg.norm(v) * 1e3]
    for key in cb:
        if key in common:
            continue
        p, v = eval_segment(segs[key], jd)
        s[:3] -= p * 1e3
        s[3:] -= v * 1e3
        mag += [np.linalg.norm(p) * 1e3, np.linalg.norm(v) * 1e3]
    return s, mag


def span(path=None):
    segs = kernel(path)
    return max(s["start"] for s in segs.values()), min(s["end"] for s in segs.values())


# ---------------------------------------------------------------------------
# precession IAU 1976


def _rot(axis, a):
    c, s = math.cos(a), math.sin(a)
    if axis == 3:
        return np.array([[c, s, 0], [-s, c, 0], [0, 0, 1]])
    if axis == 2:
        return np.array([[c, 0, -s], [0, 1, 0], [s, 0, c]])
    return np.array([[1, 0, 0], [0, c, s], [0, -s, c]])


def precession_j2000_to_mod(T):
    """Matrix P with r_MOD = P r_J2000, T in Julian centuries of TT from J2000 (Lieske et al. 1977)."""
    asec = math.pi / 180 / 3600
    zeta = (2306.2181 * T + 0.30188 * T**2 + 0.017998 * T**3) * asec
    theta = (2004.3109 * T - 0.42665 * T**2 - 0.041833 * T**3) * asec
    z = (2306.2181 * T + 1.09468 * T**2 + 0.018203 * T**3) * asec
    return _rot(3, -z) @ _rot(2, theta) @ _rot(3, -zeta)


def angle(u, v):
    u = np.asarray(u, dtype=float)
    v = np.asarray(v, dtype=float)
    return math.atan2(np.linalg.norm(np.cross(u, v)), u @ v)


# ---------------------------------------------------------------------------


def selftest():
    segs = kernel()
    assert len(segs) == 15 and len(bodies()) == 16
    lo, hi = span()
    worst = 0.0
    for key, seg in segs.items():
        for jd in (lo, lo + 0.123, 2455000.75, 2458849.5000001, hi - 1e-6, hi):
            p, v = eval_segment(seg, jd)
            # second formulation: jplephem's own evaluator (km, km/day)
            p2, v2 = seg["raw"].compute_and_differentiate(jd)
            e = max(np.max(np.abs(p - p2)) / max(np.linalg.norm(p2), 1.0), np.max(np.abs(v - v2 / S_PER_DAY)) / max(np.linalg.norm(v2 / S_PER_DAY), 1e-6))
            worst = max(worst, e)
            assert e < 1e-12, (key, jd, e)
        # velocity is the derivative of position (5-point stencil, h = 0.01 d)
        jd = 2456000.3
        h = 0.01
        f = lambda x: eval_segment(seg, x)[0]
        d = (-f(jd + 2 * h) + 8 * f(jd + h) - 8 * f(jd - h) + f(jd - 2 * h)) / (12 * h * S_PER_DAY)
        v = eval_segment(seg, jd)[1]
        assert np.max(np.abs(d - v)) / max(np.linalg.norm(v), 1e-6) < 1e-7, (key, np.max(np.abs(d - v)))
    # Earth-Moon barycentre: Earth and Moon are opposite with the mass ratio 81.30
    for jd in (2452000.5, 2457000.5):
        e, _ = eval_segment(segs[(3, 399)], jd)
        m, _ = eval_segment(segs[(3, 301)], jd)
        ratio = np.linalg.norm(m) / np.linalg.norm(e)
        assert abs(ratio - 81.30) < 0.01 and angle(e, -m) < 1e-9, ratio
        d = np.linalg.norm(m - e)
        assert 356000 < d < 407000
        s, _ = relative(10, 399, jd)
        assert 0.983 < np.linalg.norm(s[:3]) / 149597870700.0 < 1.017
        # relative() is antisymmetric and consistent with the barycentric states
        a, _ = relative(499, 301, jd)
        b, _ = relative(301, 499, jd)
        sa, _ = state_ssb(499, jd)
        sb, _ = state_ssb(301, jd)
        assert np.max(np.abs(a + b)[:3]) < 1e-3 and np.max(np.abs(a + b)[3:]) < 1e-9
        assert np.max(np.abs(a - (sa - sb))[:3]) < 1e-3 and np.max(np.abs(a - (sa - sb))[3:]) < 1e-9
    # precession: orthonormal, identity at J2000, pole moves by theta
    P = precession_j2000_to_mod(0.2)
    assert np.max(np.abs(P @ P.T - np.eye(3))) < 1e-15
    assert np.max(np.abs(precession_j2000_to_mod(0.0) - np.eye(3))) == 0
    pole = P.T @ np.array([0, 0, 1.0])  # mean pole of date in J2000 axes
    assert abs(angle(pole, [0, 0, 1]) - 2004.3109 * 0.2 * math.pi / 648000) < 1e-7
    # equinox of date moves westward along the ecliptic: general precession ~ 5029"/cy
    eq = P.T @ np.array([1.0, 0, 0])
    assert abs(angle(eq, [1, 0, 0]) - 5029.0966 * 0.2 * math.pi / 648000) < 2e-6
    return worst


if __name__ == "__main__":
    print("spk_ref selftest worst rel diff vs jplephem evaluator", selftest())
