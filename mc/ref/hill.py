"""Reference model for C16: Hill's linearised equations of relative motion.

    x'' = 3 n^2 x + 2 n y' + a_x        (x radial, Q)
    y'' =          - 2 n x' + a_y        (y along-track, S)
    z'' = -  n^2 z          + a_z        (z cross-track, W)

The equations are *integrated*, never solved in closed form: a one-step Taylor
method of order 24 on the nondimensional time tau = n t (state (x,y,z,x',y',z')
with ' = d/dtau, so that every coefficient is O(1)), with sub-steps
|h| <= 1/8 rad.  Truncation error per step is (1/8)^25/25! ~ 1e-48; what is
left is round-off (~1e-16 per step, ~100 steps for two periods).

Maneuvers: an impulse adds its delta-v once at its date (state at the date is
the post-impulse one), a thrust arc adds a constant acceleration on
[start, stop).

Nothing here is shared with beyond.propagators.cw (no closed-form
state-transition matrix).  `selftest()` compares with a classical RK4 +
Richardson extrapolation, checks the two first integrals of the unforced
equations, the inverse pair forward/backward and two textbook particular
solutions.
"""

import math

import numpy as np

ORDER = 24
HMAX = 0.125

# nondimensional dynamics matrix: d/dtau (x,y,z,x',y',z')
_A = np.array(
    [
        [0, 0, 0, 1, 0, 0],
        [0, 0, 0, 0, 1, 0],
        [0, 0, 0, 0, 0, 1],
        [3, 0, 0, 0, 2, 0],
        [0, 0, 0, -2, 0, 0],
        [0, 0, -1, 0, 0, 0],
    ],
    dtype=float,
)


def rhs(s, a, n):
    """Physical right-hand side (used by the self-test RK4 and by finite-difference checks)."""
    x, y, z, vx, vy, vz = s
    return np.array(
        [vx, vy, vz, 3 * n * n * x + 2 * n * vy + a[0], -2 * n * vx + a[1], -n * n * z + a[2]]
    )


def _taylor_step(u, b, h):
    """One Taylor step of u' = A u + b (b constant) of size h (nondimensional), term by term."""
    term = (_A @ u + b) * h  # h * u'
    out = u + term
    for k in range(2, ORDER + 1):
        term = (_A @ term) * (h / k)  # h^k/k! * u^(k), since u^(k) = A u^(k-1) for k >= 2
        out = out + term
    return out


def _step_operator(h):
    """The same Taylor step written as an affine map u -> E u + F b (the equations are linear and autonomous, so the
    map is the same for every sub-step of one segment): E = sum (hA)^k/k!, F = sum h^k A^(k-1)/k!, k <= ORDER."""
    E = np.eye(6)
    F = np.zeros((6, 6))
    term = np.eye(6)  # (hA)^(k-1)/(k-1)! ... multiplied by h/k gives the F term
    for k in range(1, ORDER + 1):
        fk = term * (h / k)  # h^k A^(k-1) / k!
        F = F + fk
        term = _A @ fk  # (hA)^k / k!
        E = E + term
    return E, F


def flow(s, dt, n, accel=None):
    """Integrate Hill's equations over dt seconds (any sign) with constant acceleration `accel` (m/s^2).
    s = (x, y, z, vx, vy, vz) in metres and m/s, QSW axes."""
    s = np.asarray(s, dtype=float)
    if dt == 0:
        return s.copy()
    u = np.concatenate([s[:3], s[3:] / n])
    b = np.zeros(6)
    if accel is not None:
        b[3:] = np.asarray(accel, dtype=float) / (n * n)
    tau = n * dt
    m = max(1, int(math.ceil(abs(tau) / HMAX)))
    h = tau / m
    E, F = _step_operator(h)
    c = F @ b
    for _ in range(m):
        u = E @ u + c
    return np.concatenate([u[:3], u[3:] * n])


def propagate(s0, t, n, impulses=(), burns=()):
    """State at time t (seconds from the epoch of s0).

    impulses: iterable of (ti, dv[3]) with ti >= 0; burns: iterable of (t0, t1, accel[3]) with 0 <= t0 < t1.
    For t < 0 (backward) no maneuver is met.  Overlapping burns add their accelerations.
    The state at t == ti is the post-impulse state."""
    s = np.asarray(s0, dtype=float).copy()
    if t < 0 or (not impulses and not burns):
        return flow(s, t, n)
    # breakpoints in [0, t]
    bps = {0.0, float(t)}
    for ti, _ in impulses:
        if 0 <= ti <= t:
            bps.add(float(ti))
    for t0, t1, _ in burns:
        for x in (t0, t1):
            if 0 <= x <= t:
                bps.add(float(x))
    bps = sorted(bps)
    cur = 0.0

    def kick(s, at):
        for ti, dv in impulses:
            if ti == at:
                s = s.copy()
                s[3:] += np.asarray(dv, dtype=float)
        return s

    s = kick(s, 0.0)
    for nxt in bps[1:]:
        acc = np.zeros(3)
        for t0, t1, a in burns:
            if t0 <= cur and nxt <= t1:  # segment inside [t0, t1)
                acc = acc + np.asarray(a, dtype=float)
        s = flow(s, nxt - cur, n, acc)
        s = kick(s, nxt)
        cur = nxt
    return s


# axis permutation QSW -> TNW for a circular target, from the definition of the triads:
# T along the velocity (= S for a circular orbit), W along the angular momentum, N = W x T.
_Q, _S, _W = np.eye(3)
_T = _S
_N = np.cross(_W, _T)
P3 = np.array([_T, _N, _W])  # rows = TNW axes expressed in QSW
P6 = np.zeros((6, 6))
P6[:3, :3] = P3
P6[3:, 3:] = P3


def first_integrals(s, n):
    """(energy-like integral, y' + 2 n x) of the unforced equations."""
    x, y, z, vx, vy, vz = s
    return 0.5 * (vx * vx + vy * vy + vz * vz) - 1.5 * n * n * x * x + 0.5 * n * n * z * z, vy + 2 * n * x


def _rk4(s, dt, n, a, steps):
    h = dt / steps
    for _ in range(steps):
        k1 = rhs(s, a, n)
        k2 = rhs(s + 0.5 * h * k1, a, n)
        k3 = rhs(s + 0.5 * h * k2, a, n)
        k4 = rhs(s + h * k3, a, n)
        s = s + h / 6 * (k1 + 2 * k2 + 2 * k3 + k4)
    return s


def selftest():
    worst = 0.0
    for R in (6778e3, 42164e3):
        n = math.sqrt(3.986004418e14 / R**3)
        P = 2 * math.pi / n
        s0 = np.array([120.0, -300.0, 45.0, 0.3, -0.2, 0.1])
        a = np.array([1e-4, -2e-4, 3e-4])
        scale = np.array([1e4, 1e4, 1e4, 1e4 * n, 1e4 * n, 1e4 * n])
        for dt in (0.37 * P, -0.8 * P, 2 * P):
            for acc in (None, a):
                ref = flow(s0, dt, n, acc)
                L = max(1e3, np.max(np.abs(ref[:3])))
                scale = np.array([L, L, L, L * n, L * n, L * n])
                aa = np.zeros(3) if acc is None else acc
                # independent scheme: RK4 with one Richardson extrapolation (error ~ h^6)
                c = _rk4(s0, dt, n, aa, 2000)
                f = _rk4(s0, dt, n, aa, 4000)
                rich = f + (f - c) / 15
                err = np.max(np.abs(ref - rich) / scale)
                worst = max(worst, err)
                assert err < 1e-9, ("taylor vs rk4", R, dt, err)
                # inverse pair
                back = flow(ref, -dt, n, acc)
                assert np.max(np.abs(back - s0) / scale) < 1e-12, ("inverse", R, dt)
                if acc is None:
                    e0, c0 = first_integrals(s0, n)
                    e1, c1 = first_integrals(ref, n)
                    assert abs(e1 - e0) < 1e-11 * (abs(e0) + (n * L) ** 2), ("energy integral", R, dt)
                    assert abs(c1 - c0) < 1e-12 * (abs(c0) + n * L), ("momentum integral", R, dt)
        scale = np.array([1e4, 1e4, 1e4, 1e4 * n, 1e4 * n, 1e4 * n])
        # textbook particular solutions: V-bar hold, coelliptic drift
        hold = flow([0, 250.0, 0, 0, 0, 0], 0.7 * P, n)
        assert np.max(np.abs(hold - [0, 250.0, 0, 0, 0, 0])) < 1e-9
        x0 = -600.0
        co = flow([x0, 0, 0, 0, -1.5 * n * x0, 0], 0.7 * P, n)
        assert abs(co[0] - x0) < 1e-8 and abs(co[1] - (-1.5 * n * x0 * 0.7 * P)) < 1e-7 and abs(co[3]) < 1e-11
        # maneuver bookkeeping: impulse == restart with kicked state; burn == flow with accel between the edges
        imp = propagate(s0, 900.0, n, impulses=[(300.0, [0.1, 0, 0])])
        mid = flow(s0, 300.0, n)
        mid[3] += 0.1
        assert np.max(np.abs(imp - flow(mid, 600.0, n)) / scale) < 1e-13
        br = propagate(s0, 900.0, n, burns=[(100.0, 400.0, a)])
        assert np.max(np.abs(br - flow(flow(flow(s0, 100.0, n), 300.0, n, a), 500.0, n)) / scale) < 1e-13
        assert np.allclose(propagate(s0, 300.0, n, impulses=[(300.0, [0.1, 0, 0])])[3], mid[3])
    # the affine step operator is the term-by-term Taylor step
    u = np.array([1.0, -2.0, 0.5, 0.3, 0.7, -0.4])
    b = np.array([0, 0, 0, 0.2, -0.1, 0.3])
    E, F = _step_operator(0.11)
    assert np.max(np.abs(E @ u + F @ b - _taylor_step(u, b, 0.11))) < 1e-15
    # permutation: T = S, N = -Q, W = W
    assert np.array_equal(P3, np.array([[0, 1, 0], [-1, 0, 0], [0, 0, 1]]))
    return worst


if __name__ == "__main__":
    print("hill selftest worst scaled err", selftest())
