"""Reference conical shadow model (umbra / penumbra of a spherical body lit by a spherical Sun).

Written from first principles, two independent formulations:

 (A) *apparent discs*: seen from the point P the Sun is a disc of angular radius
     rho_s = asin(Rs/|S-P|), the body a disc of angular radius rho_b = asin(Rb/|P|),
     their centres are separated by theta.  P is in the umbra (total eclipse) iff
     theta < rho_b - rho_s, outside any shadow iff theta > rho_b + rho_s.

 (B) *tangent cones*: the umbra is the inside of the cone tangent to both spheres whose apex
     lies behind the body at distance Rb*d/(Rs-Rb) (half angle asin((Rs-Rb)/d)); the penumbra
     the inside of the cone with apex between the bodies at Rb*d/(Rs+Rb) (half angle
     asin((Rs+Rb)/d)), on the far side of the body.

Both are exact for spheres and describe the same surfaces; `selftest()` checks that numerically.
Only *data* comes from outside: body-centred positions of the point and of the Sun (same frame)
and the two radii.  Margins are in radians, positive = outside the shadow region.
"""

import math

import numpy as np


def _angle(u, v):
    """Angle between two vectors, accurate for small and near-pi angles (Kahan)."""
    u = np.asarray(u, dtype=float)
    v = np.asarray(v, dtype=float)
    nu = np.linalg.norm(u)
    nv = np.linalg.norm(v)
    a = u * nv
    b = v * nu
    return 2.0 * math.atan2(np.linalg.norm(a - b), np.linalg.norm(a + b))


def margins_discs(p, s, r_sun, r_body):
    """(umbra margin, penumbra margin) by formulation (A)."""
    p = np.asarray(p, dtype=float)
    s = np.asarray(s, dtype=float)
    to_sun = s - p
    rho_s = math.asin(min(1.0, r_sun / np.linalg.norm(to_sun)))
    rho_b = math.asin(min(1.0, r_body / np.linalg.norm(p)))
    theta = _angle(to_sun, -p)
    return theta - (rho_b - rho_s), theta - (rho_b + rho_s)


def margins_cones(p, s, r_sun, r_body):
    """(umbra margin, penumbra margin) by formulation (B): angular distance from the cone surface
    measured at the apex (positive outside the cone, or on the sunny side of the body)."""
    p = np.asarray(p, dtype=float)
    s = np.asarray(s, dtype=float)
    d = np.linalg.norm(s)
    shat = s / d
    # umbra: apex behind the body, cone opens towards the Sun
    a_u = math.asin((r_sun - r_body) / d)
    apex_u = -shat * (r_body * d / (r_sun - r_body))
    m_u = _angle(p - apex_u, shat) - a_u
    # points beyond the apex (antumbra) are outside the umbra: there the angle is > pi/2 anyway
    # penumbra: apex between body and Sun, cone opens away from the Sun
    a_p = math.asin((r_sun + r_body) / d)
    apex_p = shat * (r_body * d / (r_sun + r_body))
    m_p = _angle(p - apex_p, -shat) - a_p
    if p @ shat >= 0.0:
        # sunward half space: inside the (extended) cones there but lit.  (The exact limit is the tangent
        # circle at -/+ Rb sin(a) ~ 30 km from the centre plane, relevant only below ~70 m altitude.)
        return abs(m_u) + 1.0, abs(m_p) + 1.0
    return m_u, m_p


def state(p, s, r_sun, r_body):
    """'umbra', 'penumbra' or 'light' for a point outside the body."""
    mu, mp = margins_discs(p, s, r_sun, r_body)
    if mu < 0:
        return "umbra"
    if mp < 0:
        return "penumbra"
    return "light"


def half_angles(d, r_sun, r_body):
    """(umbra, penumbra) cone half angles for a Sun at distance d."""
    return math.asin((r_sun - r_body) / d), math.asin((r_sun + r_body) / d)


def crossings(pos, sun, r_sun, r_body, t0, t1, which, scan=20.0, tol=1e-7):
    """All zero crossings of the umbra (which=0) / penumbra (which=1) margin for t in [t0, t1].

    pos(t), sun(t): callables returning body-centred positions.  The margin is sampled every
    `scan` seconds, each sign change refined by bisection to `tol` seconds.
    Returns [(t, 'entry' | 'exit')]."""
    out = []
    n = max(1, int(math.ceil((t1 - t0) / scan)))
    ts = [t0 + (t1 - t0) * i / n for i in range(n + 1)]
    f = lambda t: margins_discs(pos(t), sun(t), r_sun, r_body)[which]
    prev_t, prev_f = ts[0], f(ts[0])
    for t in ts[1:]:
        cur = f(t)
        if (prev_f > 0) != (cur > 0):
            lo, hi, flo = prev_t, t, prev_f
            while hi - lo > tol:
                mid = 0.5 * (lo + hi)
                fm = f(mid)
                if (fm > 0) == (flo > 0):
                    lo, flo = mid, fm
                else:
                    hi = mid
            out.append((0.5 * (lo + hi), "entry" if prev_f > 0 else "exit"))
        prev_t, prev_f = t, cur
    return out


def selftest():
    au = 1.495978707e11
    r_sun, r_body = 6.957e8, 6.378137e6
    rng = [0.13, 0.57, 0.91, 1.37, 2.2, 2.9]
    worst = 0.0
    for k, d in enumerate((0.983 * au, 1.0 * au, 1.017 * au)):
        s = d * np.array([math.cos(0.3 + k), math.sin(0.3 + k) * math.cos(0.4), math.sin(0.3 + k) * math.sin(0.4)])
        shat = s / d
        e1 = np.cross(shat, [0.0, 0.0, 1.0])
        e1 /= np.linalg.norm(e1)
        e2 = np.cross(shat, e1)
        a_u, a_p = half_angles(d, r_sun, r_body)
        # textbook numbers: ~0.264 deg / ~0.269 deg at 1 au
        if k == 1:
            assert abs(math.degrees(a_u) - 0.2641) < 2e-4 and abs(math.degrees(a_p) - 0.2690) < 2e-4
        for L in (6.6e6, 7.0e6, 1.2e7, 4.2164e7, 1.0e8):  # distance behind the body along the axis
            for phi in rng:
                u = math.cos(phi) * e1 + math.sin(phi) * e2
                # closed-form boundary radii at axial distance L (similar triangles of the tangent cones)
                rad_u = (r_body / math.sin(a_u) - L) * math.tan(a_u)
                rad_p = (r_body / math.sin(a_p) + L) * math.tan(a_p)
                for rad, which in ((rad_u, 0), (rad_p, 1)):
                    for f in (margins_discs, margins_cones):
                        inside = f(-shat * L + u * (rad - 0.01), s, r_sun, r_body)[which]
                        outside = f(-shat * L + u * (rad + 0.01), s, r_sun, r_body)[which]
                        assert inside < 0 < outside, (f.__name__, which, L, inside, outside)
                # the two formulations have the same zero set: bisect one, evaluate the other
                for which in (0, 1):
                    lo, hi = 0.0, 3.0e7
                    g = lambda x: margins_discs(-shat * L + u * x, s, r_sun, r_body)[which]
                    assert g(lo) < 0 < g(hi)
                    for _ in range(80):
                        mid = 0.5 * (lo + hi)
                        if g(mid) < 0:
                            lo = mid
                        else:
                            hi = mid
                    x = 0.5 * (lo + hi)
                    h = 1e-3
                    c0 = margins_cones(-shat * L + u * (x - h), s, r_sun, r_body)[which]
                    c1 = margins_cones(-shat * L + u * (x + h), s, r_sun, r_body)[which]
                    assert c0 < 0 < c1, (which, L, x, c0, c1)
                    rad = rad_u if which == 0 else rad_p
                    worst = max(worst, abs(x - rad))
                    assert abs(x - rad) < 1e-3, (which, L, x, rad)
        # sunny side: never in shadow
        for f in (margins_discs, margins_cones):
            mu_, mp_ = f(shat * 7.0e6 + e1 * 1.0e5, s, r_sun, r_body)
            assert mu_ > 0 and mp_ > 0
        assert state(-shat * 7.0e6, s, r_sun, r_body) == "umbra"
        assert state(-shat * 7.0e6 + e1 * 6.40e6, s, r_sun, r_body) == "penumbra"
        assert state(-shat * 7.0e6 + e1 * 7.0e6, s, r_sun, r_body) == "light"
    # crossings() on a circular path through the shadow: symmetric entry/exit about the axis
    d = au
    s0 = np.array([d, 0.0, 0.0])
    r = 7.0e6
    w = 1.0e-3
    pos = lambda t: r * np.array([-math.cos(w * t), math.sin(w * t), 0.0])
    sun = lambda t: s0
    for which in (0, 1):
        c = crossings(pos, sun, r_sun, r_body, -2000.0, 2000.0, which)
        assert [k for _, k in c] == ["entry", "exit"], c
        assert abs(c[0][0] + c[1][0]) < 1e-5, c
    return worst


if __name__ == "__main__":
    print("shadow selftest: worst |disc boundary - cone closed form| [m] =", selftest())
