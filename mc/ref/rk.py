"""Reference explicit Runge-Kutta steppers, written from the published tableaux.

Independent of beyond/propagators/keplernum.py: the coefficients below are typed
from the literature as exact fractions

* Euler (1768);
* the classical Runge-Kutta method of order 4 (Kutta 1901);
* Fehlberg 4(5), NASA TR R-315 (1969), table III  (Hairer-Norsett-Wanner I, table II.5.1);
* Dormand & Prince 5(4), J. Comp. Appl. Math. 6 (1980)  (HNW I, table II.5.2);

and `selftest()` proves them against the *order conditions* (rooted trees up to
order 5, exact rational arithmetic), which is a check no single mistyped
coefficient survives, plus an empirical convergence-order measurement on the
Kepler problem against the exact flow of mc/ref/twobody.py.

Nothing here knows about step-size control: `rk_step` returns the propagated
state and the embedded error estimate, the caller decides.
"""

import math
from fractions import Fraction as Fr

import numpy as np


def _F(rows):
    return [[Fr(x) if not isinstance(x, tuple) else Fr(*x) for x in r] for r in rows]


class Tableau:
    """c | A / b (propagated solution) / b_alt (embedded companion, or None)."""

    def __init__(self, name, c, a, b, order, b_alt=None, order_alt=None):
        self.name = name
        self.s = len(b)
        self.cF = [Fr(*x) if isinstance(x, tuple) else Fr(x) for x in c]
        self.aF = _F(a)
        self.bF = [Fr(*x) if isinstance(x, tuple) else Fr(x) for x in b]
        self.b_altF = None if b_alt is None else [Fr(*x) if isinstance(x, tuple) else Fr(x) for x in b_alt]
        self.order = order
        self.order_alt = order_alt
        self.c = [float(x) for x in self.cF]
        self.a = [[float(x) for x in r] for r in self.aF]
        self.b = [float(x) for x in self.bF]
        self.b_alt = None if self.b_altF is None else [float(x) for x in self.b_altF]
        self.adaptive = b_alt is not None


EULER = Tableau("euler", c=[0], a=[[]], b=[1], order=1)

RK4 = Tableau(
    "rk4",
    c=[0, (1, 2), (1, 2), 1],
    a=[[], [(1, 2)], [0, (1, 2)], [0, 0, 1]],
    b=[(1, 6), (1, 3), (1, 3), (1, 6)],
    order=4,
)

# Fehlberg 4(5): the 5th order weights are propagated ("RKF54": order 5 for the state, 4 for the estimate)
RKF54 = Tableau(
    "rkf54",
    c=[0, (1, 4), (3, 8), (12, 13), 1, (1, 2)],
    a=[
        [],
        [(1, 4)],
        [(3, 32), (9, 32)],
        [(1932, 2197), (-7200, 2197), (7296, 2197)],
        [(439, 216), -8, (3680, 513), (-845, 4104)],
        [(-8, 27), 2, (-3544, 2565), (1859, 4104), (-11, 40)],
    ],
    b=[(16, 135), 0, (6656, 12825), (28561, 56430), (-9, 50), (2, 55)],
    order=5,
    b_alt=[(25, 216), 0, (1408, 2565), (2197, 4104), (-1, 5), 0],
    order_alt=4,
)

# Dormand-Prince 5(4) (7 stages, FSAL): 5th order weights propagated
DOPRI54 = Tableau(
    "dopri54",
    c=[0, (1, 5), (3, 10), (4, 5), (8, 9), 1, 1],
    a=[
        [],
        [(1, 5)],
        [(3, 40), (9, 40)],
        [(44, 45), (-56, 15), (32, 9)],
        [(19372, 6561), (-25360, 2187), (64448, 6561), (-212, 729)],
        [(9017, 3168), (-355, 33), (46732, 5247), (49, 176), (-5103, 18656)],
        [(35, 384), 0, (500, 1113), (125, 192), (-2187, 6784), (11, 84)],
    ],
    b=[(35, 384), 0, (500, 1113), (125, 192), (-2187, 6784), (11, 84), 0],
    order=5,
    b_alt=[(5179, 57600), 0, (7571, 16695), (393, 640), (-92097, 339200), (187, 2100), (1, 40)],
    order_alt=4,
)

TABLEAUX = {"euler": EULER, "rk4": RK4, "rkf54": RKF54, "dopri54": DOPRI54}


# ---------------------------------------------------------------------------
# stepping


def rk_step(tab, f, t, y, h):
    """One explicit RK step of size h (any sign) for y' = f(t, y).

    Returns (y_new, err) where err = h * sum((b - b_alt)_i k_i) is the embedded
    difference between the two solutions (None for non-embedded methods)."""
    ks = []
    for i in range(tab.s):
        yi = y.copy()
        for j, aij in enumerate(tab.a[i]):
            if aij != 0.0:
                yi = yi + (h * aij) * ks[j]
        ks.append(f(t + tab.c[i] * h, yi))
    y_new = y.copy()
    for bi, k in zip(tab.b, ks):
        if bi != 0.0:
            y_new = y_new + (h * bi) * k
    err = None
    if tab.adaptive:
        err = np.zeros_like(y)
        for bi, ba, k in zip(tab.b, tab.b_alt, ks):
            err = err + (h * (bi - ba)) * k
    return y_new, err


def two_body_rhs(mu, extra=None):
    """y = (r, v);  y' = (v, -mu r/|r|^3 [+ extra(t, y)]).  mu = 0 gives free motion."""

    def f(t, y):
        out = np.empty(6)
        out[:3] = y[3:]
        if mu:
            r = y[:3]
            d = math.sqrt(r[0] * r[0] + r[1] * r[1] + r[2] * r[2])
            out[3:] = (-mu / (d * d * d)) * r
        else:
            out[3:] = 0.0
        if extra is not None:
            out[3:] += extra(t, y)
        return out

    return f


def march(tab, f, t0, y0, h, n, post_step=None):
    """n fixed steps of size h from (t0, y0); returns the list of (t_k, y_k), k = 0..n.

    `post_step(t_prev, t_new, y_new)` may return a modified y_new (impulses applied at nodes).
    Node times are computed as t0 + k*h (no accumulation)."""
    out = [(t0, np.array(y0, dtype=float))]
    y = np.array(y0, dtype=float)
    for k in range(n):
        tk = t0 + k * h
        y, _ = rk_step(tab, f, tk, y, h)
        if post_step is not None:
            y = post_step(tk, t0 + (k + 1) * h, y)
        out.append((t0 + (k + 1) * h, y))
    return out


# ---------------------------------------------------------------------------
# order conditions (Butcher), exact arithmetic


def _order_conditions(c, A, b, p):
    """List of (name, lhs, rhs) for all rooted trees of order <= p (p <= 5)."""
    s = len(b)

    def mat(v):  # A v
        return [sum((A[i][j] * v[j] for j in range(len(A[i]))), Fr(0)) for i in range(s)]

    def mul(u, v):
        return [x * y for x, y in zip(u, v)]

    def dot(v):
        return sum((bi * vi for bi, vi in zip(b, v)), Fr(0))

    one = [Fr(1)] * s
    c1 = list(c)
    c2 = mul(c, c)
    c3 = mul(c2, c)
    c4 = mul(c3, c)
    Ac = mat(c1)
    Ac2 = mat(c2)
    Ac3 = mat(c3)
    AAc = mat(Ac)
    AAc2 = mat(Ac2)
    AAAc = mat(AAc)
    conds = [("b.1", dot(one), Fr(1))]
    if p >= 2:
        conds += [("b.c", dot(c1), Fr(1, 2))]
    if p >= 3:
        conds += [("b.c2", dot(c2), Fr(1, 3)), ("b.Ac", dot(Ac), Fr(1, 6))]
    if p >= 4:
        conds += [
            ("b.c3", dot(c3), Fr(1, 4)),
            ("b.c*Ac", dot(mul(c1, Ac)), Fr(1, 8)),
            ("b.Ac2", dot(Ac2), Fr(1, 12)),
            ("b.AAc", dot(AAc), Fr(1, 24)),
        ]
    if p >= 5:
        conds += [
            ("b.c4", dot(c4), Fr(1, 5)),
            ("b.c2*Ac", dot(mul(c2, Ac)), Fr(1, 10)),
            ("b.c*Ac2", dot(mul(c1, Ac2)), Fr(1, 15)),
            ("b.c*AAc", dot(mul(c1, AAc)), Fr(1, 30)),
            ("b.Ac*Ac", dot(mul(Ac, Ac)), Fr(1, 20)),
            ("b.Ac3", dot(Ac3), Fr(1, 20)),
            ("b.A(c*Ac)", dot(mat(mul(c1, Ac))), Fr(1, 40)),
            ("b.AAc2", dot(AAc2), Fr(1, 60)),
            ("b.AAAc", dot(AAAc), Fr(1, 120)),
        ]
    return conds


def check_tableau(tab):
    """Raise AssertionError unless the tableau satisfies row sums and all order conditions of its
    declared orders, and does NOT satisfy the next order (so the declared order is sharp)."""
    for i in range(tab.s):
        assert sum(tab.aF[i], Fr(0)) == tab.cF[i], (tab.name, "row sum", i)
        assert len(tab.aF[i]) <= i, (tab.name, "explicit", i)
    for b, p, nm in ((tab.bF, tab.order, "b"), (tab.b_altF, tab.order_alt, "b_alt")):
        if b is None:
            continue
        for name, lhs, rhs in _order_conditions(tab.cF, tab.aF, b, p):
            assert lhs == rhs, (tab.name, nm, name, lhs, rhs)
        if p < 5:
            nxt = _order_conditions(tab.cF, tab.aF, b, p + 1)
            assert any(l != r for _, l, r in nxt), (tab.name, nm, "order higher than declared")


# ---------------------------------------------------------------------------


def selftest():
    from . import twobody

    for tab in TABLEAUX.values():
        check_tableau(tab)
    # a perturbed coefficient must be caught by the order conditions (the self test tests itself)
    bad = Tableau("bad", c=[0, (1, 2), (1, 2), 1], a=[[], [(1, 2)], [0, (1, 2)], [0, 0, 1]],
                  b=[(1, 6), (1, 3), (1, 3), (1, 6)], order=4)
    bad.aF[3][2] = Fr(9, 10)
    try:
        check_tableau(bad)
    except AssertionError:
        pass
    else:
        raise AssertionError("order conditions did not detect a perturbed coefficient")

    # empirical order on the Kepler problem (e = 0.3) against the exact flow, both time directions
    mu = 3.986004418e14
    y0 = twobody.kep_to_cart(1.0e7, 0.3, 0.9, 1.0, 0.7, 0.4, mu)
    f = two_body_rhs(mu)
    out = {}
    for tab in TABLEAUX.values():
        for sgn in (1.0, -1.0):
            T = 600.0 if tab.order == 1 else 2400.0
            errs = []
            for n in ((20, 40) if tab.order < 5 else (48, 96)):
                h = sgn * T / n
                t, y = march(tab, f, 0.0, y0, h, n)[-1]
                ex = twobody.propagate_uv(y0, sgn * T, mu)
                errs.append(np.linalg.norm(y[:3] - ex[:3]))
            p = math.log2(errs[0] / errs[1])
            out[(tab.name, sgn)] = p
            assert -0.4 < p - tab.order < (0.4 if tab.order < 5 else 0.8), (tab.name, sgn, p, errs)
    # embedded estimate: |err| of one step tracks the true local error of the LOWER order companion
    for tab in (RKF54, DOPRI54):
        h = 60.0
        y1, err = rk_step(tab, f, 0.0, y0, h)
        ex = twobody.propagate_uv(y0, h, mu)
        ylow = y1 - err
        true_low = np.linalg.norm((ylow - ex)[:3])
        est = np.linalg.norm(err[:3])
        assert 0.5 < est / true_low < 2.0, (tab.name, est, true_low)
    # free motion + constant thrust is integrated exactly by every method
    g = two_body_rhs(0.0, extra=lambda t, y: np.array([0.0, 0.0, 2.0]))
    for tab in TABLEAUX.values():
        if tab.order < 2:
            continue
        t, y = march(tab, g, 0.0, np.array([1.0, 2.0, 3.0, 4.0, 5.0, 6.0]), 10.0, 3)[-1]
        assert np.allclose(y, [1 + 120.0, 2 + 150.0, 3 + 180.0 + 900.0, 4.0, 5.0, 6.0 + 60.0], rtol=1e-14), (tab.name, y)
    return out


if __name__ == "__main__":
    for k, v in selftest().items():
        print(k, "measured order %.2f" % v)
