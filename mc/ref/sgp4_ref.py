"""Reference SGP4/SDP4: thin wrapper over `sgp4.api.Satrec`.

On this image `sgp4.api.accelerated` is True: Satrec is Vallado's C++ code (2006
revision with later fixes), compiled.  The library under test drives the pure
Python port (`sgp4.io.twoline2rv` / `sgp4.propagation`) or its own native
model, so the oracle shares no executed code with either.

Conventions: WGS-72, operation mode 'i' (improved), TEME, output converted to
metres and metres/second.  Time is given as minutes since the element-set
epoch (`sgp4_tsince`), which avoids any Julian-date rounding in the oracle: the
caller computes the offset exactly (integer microseconds / 6e7).
"""

import math

from sgp4 import api as _api

KM = 1000.0
ERRORS = {
    0: "ok",
    1: "mean eccentricity out of range",
    2: "mean motion below zero",
    3: "perturbed eccentricity out of range",
    4: "semi-latus rectum below zero",
    5: "(unused)",
    6: "decayed (radius below one earth radius)",
}


def require_accelerated():
    if not _api.accelerated:
        raise RuntimeError("sgp4.api is not the accelerated (C++) build: the oracle would not be independent")


class Ref:
    """One element set initialised in the reference implementation."""

    def __init__(self, line1, line2):
        require_accelerated()
        self.sat = _api.Satrec.twoline2rv(line1, line2, _api.WGS72)
        s = self.sat
        self.init_error = s.error
        self.method = s.method  # 'n' near-Earth, 'd' deep-space (period >= 225 min)
        self.re_km = s.radiusearthkm
        # semi-major axis [earth radii] recovered from the un-Kozai'd mean motion by the reference's initialisation
        self.a_er = s.a
        self.ecco = s.ecco
        self.period_min = 2 * math.pi / s.no_kozai if s.no_kozai > 0 else math.inf
        self.perigee_km = (s.a * (1 - s.ecco) - 1) * s.radiusearthkm
        # Vallado: isimp = 1 when rp = ao(1-ecco) < 220/re + 1 (drag series truncated after C1, no C5/delta-M terms)
        self.isimp = 1 if self.perigee_km < 220.0 else 0
        self._pert = None

    def full_near_earth(self, guard_km=1e-3):
        """True / False / None(undetermined: perigee within guard of the 220 km switch)."""
        if self.method != "n":
            return False
        if abs(self.perigee_km - 220.0) < guard_km:
            return None
        return self.isimp == 0

    def state(self, tsince_min):
        """-> (error code, r [m] tuple, v [m/s] tuple) at `tsince_min` minutes from the epoch."""
        e, r, v = self.sat.sgp4_tsince(tsince_min)
        return e, tuple(x * KM for x in r), tuple(x * KM for x in v)

    def rates(self, tsince_min, h_s=50e-6, steps=10):
        """Lipschitz constants of the reference output with respect to time over the window +-h_s seconds, measured on the
        reference itself: the largest step rate over `steps` equal sub-intervals, (max |dr|/dt [m/s], max |dv|/dt [m/s^2]).
        For a smooth model they equal |v| and |a|.  Where the theory's position is not the integral of its velocity, or is
        not even continuous at this scale (deep-space lunar-solar periodics divided by sin i at i = 180 deg exactly:
        decimetre jumps), they are larger -- and only then."""
        dt_s = 2.0 * h_s / steps
        pts = []
        for k in range(steps + 1):
            e, r, v = self.state(tsince_min + (-h_s + k * dt_s) / 60.0)
            if e:
                return 0.0, 0.0
            pts.append((r, v))
        lr = max(math.dist(pts[k][0], pts[k + 1][0]) for k in range(steps)) / dt_s
        lv = max(math.dist(pts[k][1], pts[k + 1][1]) for k in range(steps)) / dt_s
        return lr, lv

    def conditioning(self, tsince_min, rel=1e-9):
        """Sensitivity of the reference state to relative perturbations of its real-valued inputs:
        kappa_r = sum_k |r(x_k (1+rel)) - r(x)| / rel  [m per unit relative perturbation], same for v, over
        x in {mean motion, eccentricity, B*} (the inputs of the drag / secular series; the inclination is left out because
        a 1e-9 neighbourhood of i = 180 deg lies in the tan(i/2) singularity of the long-period term, which the theory's
        guard removes only at exactly 180 deg).  (Round-off of a different but equally valid evaluation
        order is bounded by a small multiple of 2^-53 x kappa.)"""
        if self._pert is None:
            s = self.sat
            base = dict(bstar=s.bstar, ecco=s.ecco, argpo=s.argpo, inclo=s.inclo, mo=s.mo, no_kozai=s.no_kozai, nodeo=s.nodeo)

            def build(**kw):
                p = dict(base, **kw)
                q = _api.Satrec()
                q.sgp4init(_api.WGS72, "i", s.satnum, (s.jdsatepoch - 2433281.5) + s.jdsatepochF, p["bstar"], 0.0, 0.0,
                           p["ecco"], p["argpo"], p["inclo"], p["mo"], p["no_kozai"], p["nodeo"])
                return q

            # both one-sided perturbations; the smaller response is used, so that a guard of the theory sitting exactly
            # at the input value (e = 1e-4) does not masquerade as sensitivity
            self._pert = [build()] + [(build(**{k: base[k] * (1 + rel)}), build(**{k: base[k] * (1 - rel)}))
                                      for k in ("no_kozai", "ecco", "bstar") if base[k] != 0.0]
        e0, r0, v0 = self._pert[0].sgp4_tsince(tsince_min)
        kr = kv = 0.0
        for qp, qm in self._pert[1:]:
            e1, r1, v1 = qp.sgp4_tsince(tsince_min)
            e2, r2, v2 = qm.sgp4_tsince(tsince_min)
            if e0 or e1 or e2:
                return math.inf, math.inf
            kr += min(math.dist(r0, r1), math.dist(r0, r2)) * KM / rel
            kv += min(math.dist(v0, v1), math.dist(v0, v2)) * KM / rel
        return kr, kv

    def state_jd(self, jd, fr):
        e, r, v = self.sat.sgp4(jd, fr)
        return e, tuple(x * KM for x in r), tuple(x * KM for x in v)


# Vallado's published verification output (tcppver.out of "Revisiting Spacetrack Report #3"), km and km/s
_VER = [
    (
        "1 00005U 58002B   00179.78495062  .00000023  00000-0  28098-4 0  4753",
        "2 00005  34.2682 348.7242 1859667 331.7664  19.3264 10.82419157413667",
        "n",
        [
            (0.0, (7022.46529266, -1400.08296755, 0.03995155), (1.893841015, 6.405893759, 4.534807250)),
            (360.0, (-7154.03120202, -3783.17682504, -3536.19412294), (4.741887409, -4.151817765, -2.093935425)),
            (4320.0, (-9060.47373569, 4658.70952502, 813.68673153), (-2.232832783, -4.110453490, -3.157345433)),
        ],
    ),
    (
        "1 06251U 62025E   06176.82412014  .00008885  00000-0  12808-3 0  3985",
        "2 06251  58.0579  54.0425 0030035 139.1568 221.1854 15.56387291  6774",
        "n",
        [
            (0.0, (3988.31022699, 5498.96657235, 0.90055879), (-3.290032738, 2.357652820, 6.496623475)),
            (960.0, (-4990.91637950, -2303.42547880, 3920.86335598), (-0.993439372, -5.967458360, -4.759110856)),
        ],
    ),
    (
        "1 04632U 70093B   04031.91070959 -.00000084  00000-0  10000-3 0  9955",
        "2 04632  11.4628 273.1101 1450506 207.6000 143.9350  1.20231981 44145",
        "d",
        [
            (0.0, (2334.11450085, -41920.44035349, -0.03867437), (2.826321032, -0.065091664, 0.570936053)),
            (-5184.0, (-29020.02587128, 13819.84419063, -5713.33679183), (-1.768068390, -3.235371192, -0.395206135)),
        ],
    ),
]


def selftest():
    require_accelerated()
    from sgp4.model import Satrec as PySatrec  # pure-Python port: second formulation, only used here

    for l1, l2, method, rows in _VER:
        # checksum column of the verification file is not always consistent: Satrec does not verify it
        ref = Ref(l1, l2)
        assert ref.method == method, (ref.method, method)
        py = PySatrec.twoline2rv(l1, l2, _api.WGS72)
        for ts, r_km, v_kms in rows:
            e, r, v = ref.state(ts)
            assert e == 0
            for a, b in zip(r, r_km):
                assert abs(a - b * KM) < 2e-5, (l1, ts, a, b)  # printed to 1e-8 km
            for a, b in zip(v, v_kms):
                assert abs(a - b * KM) < 2e-6, (l1, ts, a, b)  # printed to 1e-9 km/s
            e2, r2, v2 = py.sgp4_tsince(ts)
            assert e2 == 0
            assert max(abs(a - b * KM) for a, b in zip(r, r2)) < 1e-4, (l1, ts)
        # the jd/fr entry point agrees with tsince up to Julian-date resolution
        s = ref.sat
        e, r, v = ref.state(720.0)
        e3, r3, v3 = ref.state_jd(s.jdsatepoch, s.jdsatepochF + 0.5)
        assert max(abs(a - b) for a, b in zip(r, r3)) < 1.0
    # regime classification: ISS-like is full near-Earth; 150 km perigee is the simplified model; error codes surface
    iss = Ref("1 25544U 98067A   16124.55610684  .00003442  00000-0  58526-4 0  9992",
              "2 25544  51.6421 216.9905 0003381  87.7267  22.6472 15.54198229997986")
    assert iss.full_near_earth() is True and 380 < iss.perigee_km < 420 and 92 < iss.period_min < 93
    low = Ref("1 28872U 05037B   05333.02012661  .25992681  00000-0  24476-3 0  1534",
              "2 28872  96.4736 157.9986 0303955 244.0492 110.6523 16.46015938 10708")
    assert low.full_near_earth() is False and low.method == "n"
    e, r, v = low.state(60.0 * 24 * 30)
    assert e != 0
    assert Ref(*_VER[2][:2]).full_near_earth() is False
    # rates: smooth model -> finite-difference rates equal |v| and mu/r^2-ish; conditioning: re-initialisation from the
    # parsed values reproduces the TLE record exactly, and d r / d ln(n) ~ |v| t for a near-circular orbit
    e, r, v = iss.state(1440.0)
    dr, dv = iss.rates(1440.0)
    assert abs(dr - math.hypot(*v)) < 1e-2 * math.hypot(*v), (dr, math.hypot(*v))
    assert abs(dv - 3.986008e14 / math.hypot(*r) ** 2) < 0.05 * dv, dv
    kr, kv = iss.conditioning(1440.0)
    e0, r0, v0 = iss._pert[0].sgp4_tsince(1440.0)
    assert max(abs(a * KM - b) for a, b in zip(r0, r)) == 0.0
    assert 0.5 < kr / (math.hypot(*v) * 86400.0) < 3.0, kr


if __name__ == "__main__":
    selftest()
    print("ok")
