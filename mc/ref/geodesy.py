"""Reference geodesy: ellipsoid <-> Earth-fixed cartesian, local east-north-up basis,
azimuth / elevation / range (and their rates), horizon-mask interpolation on the circle.

Plain math/numpy from the textbook definitions; the ellipsoid (a, f) is *data*
passed by the caller.  Angles in radians, lengths in metres.

Azimuth is counted from north towards east (clockwise seen from above),
elevation from the local horizontal plane (perpendicular to the ellipsoid
normal) upwards.
"""

import math

import numpy as np

TWO_PI = 2.0 * math.pi


# ---------------------------------------------------------------------------
# ellipsoid


def geodetic_to_ecef(lat, lon, h, a, f):
    """Point at geodetic latitude/longitude and height h above the ellipsoid (a, f).

    Formulation through the reduced (parametric) latitude beta, tan(beta) = (1 - f) tan(lat): the foot point on the
    ellipse is (a cos beta, b sin beta), the height is added along the normal (cos lat, sin lat).
    """
    b = a * (1.0 - f)
    beta = math.atan2((1.0 - f) * math.sin(lat), math.cos(lat))
    p = a * math.cos(beta) + h * math.cos(lat)
    z = b * math.sin(beta) + h * math.sin(lat)
    return np.array([p * math.cos(lon), p * math.sin(lon), z])


def geodetic_to_ecef_N(lat, lon, h, a, f):
    """Second formulation: prime-vertical radius of curvature N = a / sqrt(1 - e^2 sin^2 lat)."""
    e2 = f * (2.0 - f)
    N = a / math.sqrt(1.0 - e2 * math.sin(lat) ** 2)
    return np.array(
        [(N + h) * math.cos(lat) * math.cos(lon), (N + h) * math.cos(lat) * math.sin(lon), (N * (1.0 - e2) + h) * math.sin(lat)]
    )


def ecef_to_geodetic(r, a, f):
    """Inverse (fixed-point iteration on the latitude; converges for |h| << a)."""
    x, y, z = (float(v) for v in r)
    e2 = f * (2.0 - f)
    p = math.hypot(x, y)
    lon = math.atan2(y, x)
    lat = math.atan2(z, p * (1.0 - e2))
    for _ in range(50):
        N = a / math.sqrt(1.0 - e2 * math.sin(lat) ** 2)
        new = math.atan2(z + e2 * N * math.sin(lat), p)
        if abs(new - lat) < 1e-16:
            lat = new
            break
        lat = new
    # well conditioned at every latitude: h = p cos(lat) + z sin(lat) - a sqrt(1 - e^2 sin^2 lat)
    h = p * math.cos(lat) + z * math.sin(lat) - a * math.sqrt(1.0 - e2 * math.sin(lat) ** 2)
    return lat, lon, h


def enu_basis(lat, lon):
    """Unit vectors east, north, up (ellipsoid normal) in Earth-fixed coordinates."""
    sl, cl = math.sin(lat), math.cos(lat)
    so, co = math.sin(lon), math.cos(lon)
    e = np.array([-so, co, 0.0])
    n = np.array([-sl * co, -sl * so, cl])
    u = np.array([cl * co, cl * so, sl])
    return e, n, u


def ecef_to_enu(d, lat, lon):
    """Components (E, N, U) of an Earth-fixed vector d (difference or velocity)."""
    e, n, u = enu_basis(lat, lon)
    d = np.asarray(d, dtype=float)
    return np.array([e @ d, n @ d, u @ d])


def enu_to_ecef(v, lat, lon):
    e, n, u = enu_basis(lat, lon)
    return v[0] * e + v[1] * n + v[2] * u


# ---------------------------------------------------------------------------
# pointing


def enu_from_az_el_range(az, el, rng):
    c = rng * math.cos(el)
    return np.array([c * math.sin(az), c * math.cos(az), rng * math.sin(el)])


def az_el_range(enu):
    """(az in [0, 2 pi), el, range) of the vector with components (E, N, U)."""
    E, N, U = (float(v) for v in enu)
    rng = math.sqrt(E * E + N * N + U * U)
    el = math.atan2(U, math.hypot(E, N))
    az = math.atan2(E, N) % TWO_PI
    return az, el, rng


def az_el_range_rates(enu, enu_dot):
    """(az_dot, el_dot, range_rate) from position and velocity components in ENU."""
    E, N, U = (float(v) for v in enu)
    Ed, Nd, Ud = (float(v) for v in enu_dot)
    rng = math.sqrt(E * E + N * N + U * U)
    rr = (E * Ed + N * Nd + U * Ud) / rng
    hh = E * E + N * N
    az_dot = (Ed * N - E * Nd) / hh
    # el = atan2(U, sqrt(hh)):  d/dt
    el_dot = (Ud * hh - U * (E * Ed + N * Nd)) / (rng * rng * math.sqrt(hh))
    return az_dot, el_dot, rr


# ---------------------------------------------------------------------------
# horizon mask


def mask_interp(az_knots, el_knots, az):
    """Piecewise-linear interpolation of a mask given at strictly increasing azimuths, the last one being 2 pi;
    the value at 2 pi also serves at azimuth 0 when the table does not start at 0.  Any real azimuth is accepted."""
    xs = [float(v) for v in az_knots]
    ys = [float(v) for v in el_knots]
    if abs(xs[-1] - TWO_PI) > 1e-12:
        raise ValueError("documented convention: last azimuth is 2 pi")
    if xs[0] > 0.0:
        xs = [0.0] + xs
        ys = [ys[-1]] + ys
    a = az % TWO_PI  # in [0, 2 pi]; may round to exactly 2 pi for tiny negative input
    if a >= xs[-1]:
        return ys[-1]
    # largest knot <= a
    k = 0
    for i, x in enumerate(xs):
        if x <= a:
            k = i
    if xs[k] == a:
        return ys[k]
    x0, x1, y0, y1 = xs[k], xs[k + 1], ys[k], ys[k + 1]
    return y0 + (y1 - y0) * (a - x0) / (x1 - x0)


# ---------------------------------------------------------------------------


def selftest():
    a, f = 6378137.0, 1 / 298.257223563
    b = a * (1 - f)
    for lat_d in (-89.9, -45.0, -0.001, 0.0, 33.3, 60.0, 89.9):
        for lon_d in (-179.9, -80.65, 0.0, 1.44, 120.0, 359.0):
            for h in (-400.0, 0.0, 172.0, 9000.0):
                lat, lon = math.radians(lat_d), math.radians(lon_d)
                p1 = geodetic_to_ecef(lat, lon, h, a, f)
                p2 = geodetic_to_ecef_N(lat, lon, h, a, f)
                assert np.max(np.abs(p1 - p2)) < 5e-9, (lat_d, lon_d, h, p1 - p2)
                la, lo, hh = ecef_to_geodetic(p1, a, f)
                assert abs(la - lat) < 1e-12 and abs(hh - h) < 2e-8, (lat_d, lon_d, h, la - lat, hh - h)
                assert abs(math.remainder(lo - lon, TWO_PI)) < 1e-12
                e, n, u = enu_basis(lat, lon)
                assert np.allclose(np.cross(e, n), u, atol=1e-15) and abs(e @ n) < 1e-16 and abs(n[2]) >= 0
                # the foot point lies on the ellipsoid and `up` is the normalised gradient of x^2/a^2+y^2/a^2+z^2/b^2
                q = geodetic_to_ecef(lat, lon, 0.0, a, f)
                assert abs((q[0] ** 2 + q[1] ** 2) / a**2 + q[2] ** 2 / b**2 - 1.0) < 1e-14
                g = np.array([q[0] / a**2, q[1] / a**2, q[2] / b**2])
                assert np.allclose(g / np.linalg.norm(g), u, atol=1e-14)
                assert np.allclose(p1 - q, h * u, atol=2e-9)
                # north points towards increasing latitude, east towards increasing longitude
                dq = geodetic_to_ecef(lat + 1e-7, lon, 0.0, a, f) - q
                assert (dq @ n) > 0.9 * np.linalg.norm(dq)
                dq = geodetic_to_ecef(lat, lon + 1e-7, 0.0, a, f) - q
                assert (dq @ e) > 0.9 * np.linalg.norm(dq) - 1e-12
    # pointing inverse pair and rates against central differences
    for az in (0.0, 0.7, math.pi / 2, 3.0, 4.0, 6.2):
        for el in (-0.17, 0.01, 0.8, 1.55):
            for rng in (1e3, 8e5, 4e7):
                v = enu_from_az_el_range(az, el, rng)
                a2, e2, r2 = az_el_range(v)
                assert abs(math.remainder(a2 - az, TWO_PI)) < 1e-9 and abs(e2 - el) < 1e-12 and abs(r2 - rng) < 1e-9 * rng
                vd = np.array([300.0, -7000.0, 1200.0])
                rates = az_el_range_rates(v, vd)
                dt = 1e-6 * rng / 8e3
                p, m = az_el_range(v + vd * dt), az_el_range(v - vd * dt)
                num = (math.remainder(p[0] - m[0], TWO_PI) / (2 * dt), (p[1] - m[1]) / (2 * dt), (p[2] - m[2]) / (2 * dt))
                for x, y, scale in zip(rates, num, (1.0, 1.0, 8e3)):
                    assert abs(x - y) < 1e-5 * max(abs(x), scale * 1e-3, 1e-6), (az, el, rng, rates, num)
    # mask
    xs, ys = [1.0, 2.0, 4.0, TWO_PI], [0.1, 0.3, 0.2, 0.05]
    assert mask_interp(xs, ys, 0.0) == 0.05 and mask_interp(xs, ys, TWO_PI) == 0.05 and mask_interp(xs, ys, 1.0) == 0.1
    assert abs(mask_interp(xs, ys, 0.5) - 0.075) < 1e-15 and abs(mask_interp(xs, ys, 3.0) - 0.25) < 1e-15
    assert abs(mask_interp(xs, ys, 0.5 - TWO_PI) - 0.075) < 1e-14 and abs(mask_interp(xs, ys, 3.0 + 2 * TWO_PI) - 0.25) < 1e-13
    xs0, ys0 = [0.0, 3.0, TWO_PI], [0.2, 0.4, 0.2]
    assert mask_interp(xs0, ys0, 0.0) == 0.2 and abs(mask_interp(xs0, ys0, 1.5) - 0.3) < 1e-15
    for q in np.linspace(-7, 14, 211):  # continuity (Lipschitz with the largest slope) and periodicity
        v0, v1 = mask_interp(xs, ys, q), mask_interp(xs, ys, q + 1e-9)
        assert abs(v1 - v0) < 1e-9
        assert abs(mask_interp(xs, ys, q) - mask_interp(xs, ys, q + TWO_PI)) < 1e-13


if __name__ == "__main__":
    selftest()
    print("geodesy selftest ok")
