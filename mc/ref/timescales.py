"""Reference model of the six time scales (UTC, TAI, TT, GPS, UT1, TDB).

Independent of beyond: own calendar algorithm, own fixed-column readers of the IERS
files (written from the IERS format descriptions `readme.finals` and the header-less
`tai-utc.dat` layout), integer arithmetic only for everything tabulated.

Unit of time: 1 tick = 0.1 microsecond (TICKS per second = 10 000 000).  The tenth
of a microsecond is needed because the Bulletin A UT1-UTC column of finals.all is
F10.7 (seven decimals); every other constant (32.184 s, 19 s, whole leap seconds,
microsecond clock readings) is a whole number of microseconds = 10 ticks, so all
sums are exact integers.  An *instant* is the integer number of ticks of TAI elapsed
since MJD 0 (TAI clock); a *clock reading* in scale X is the same kind of integer
for the clock of X.

Definitions implemented (each one line of integer arithmetic):
    TT  = TAI + 32.184 s                      (IAU 1991)
    GPS = TAI - 19 s
    UTC = TAI - (TAI-UTC)(UTC day)            tai-utc.dat, whole seconds since 1972
    UT1 = UTC + (UT1-UTC)(UTC day)            finals.all, Bulletin A column, no interpolation
                                              ("as tabulated by IERS for that day")
    TDB = TT + 0.001657 sin g + 0.000022 sin(L - L_J)
          g = 357.53 deg + 0.98560028 deg d,  L - L_J = 246.11 deg + 0.90251792 deg d,
          d = JD(TT) - 2451545.0              (The Astronomical Almanac, section B, "TDB")

Nothing here is shared with beyond.dates: the data files are the only common input.
"""

import math
import os
import re
from decimal import Decimal

TICKS = 10_000_000  # per second
US = 10  # ticks per microsecond
DAY = 86400 * TICKS
TT_TAI = 32_184_000 * US
TAI_GPS = 19 * TICKS
POLE = "/repo/tests/data/pole"
SCALES = ("UTC", "TAI", "TT", "GPS", "UT1", "TDB")
EXACT = ("UTC", "TAI", "TT", "GPS")

_MONTHS = {m: i + 1 for i, m in enumerate("JAN FEB MAR APR MAY JUN JUL AUG SEP OCT NOV DEC".split())}


# ---------------------------------------------------------------------------
# calendar (Fliegel & Van Flandern 1968 / Richards 2013), proleptic Gregorian


def mjd_from_ymd(y, m, d):
    a = (14 - m) // 12
    yy = y + 4800 - a
    mm = m + 12 * a - 3
    jdn = d + (153 * mm + 2) // 5 + 365 * yy + yy // 4 - yy // 100 + yy // 400 - 32045
    return jdn - 2400001  # the civil day whose noon is JDN has MJD = JDN - 2400001


def ymd_from_mjd(mjd):
    J = mjd + 2400001
    f = J + 1401 + (((4 * J + 274277) // 146097) * 3) // 4 - 38
    e = 4 * f + 3
    g = (e % 1461) // 4
    h = 5 * g + 2
    D = (h % 153) // 5 + 1
    M = (h // 153 + 2) % 12 + 1
    Y = e // 1461 - 4716 + (12 + 2 - M) // 12
    return Y, M, D


def split_clock(clock):
    """clock ticks -> (mjd day, y, m, d, H, M, S, microsecond, leftover ticks below the microsecond)"""
    day, sod = divmod(clock, DAY)
    us, rest = divmod(sod, US)
    sec, us = divmod(us, 1_000_000)
    H, r = divmod(sec, 3600)
    Mi, S = divmod(r, 60)
    y, m, d = ymd_from_mjd(day)
    return day, y, m, d, H, Mi, S, us, rest


# ---------------------------------------------------------------------------
# IERS readers


def _dec_ticks(text):
    v = Decimal(text.strip()) * TICKS
    if v != v.to_integral_value():
        raise ValueError(f"{text!r} is not a whole number of ticks")
    return int(v)


def read_finals(path):
    """finals.all / finals2000A.all (readme.finals):
    col 1-2 I2 year, 3-4 I2 month, 5-6 I2 day, 8-15 F8.2 MJD, 58 A1 flag (I/P) of UT1-UTC,
    59-68 F10.7 Bulletin A UT1-UTC [s].  Returns {mjd: ticks or None (blank field)} in file order."""
    out = {}
    with open(path, encoding="ascii") as fh:
        for line in fh:
            line = line.rstrip("\n")
            if len(line) < 15 or not line[7:15].strip():
                continue
            mjd_txt = line[7:15]
            if not mjd_txt.endswith(".00"):
                raise ValueError(f"fractional MJD in finals row {line[:16]!r}")
            mjd = int(mjd_txt[:-3])
            yy, mo, dd = int(line[0:2]), int(line[2:4]), int(line[4:6])
            year = (1900 if mjd <= 51543 else 2000) + yy
            if mjd_from_ymd(year, mo, dd) != mjd:
                raise ValueError(f"calendar date and MJD disagree in finals row {line[:16]!r}")
            fld = line[58:68]
            out[mjd] = _dec_ticks(fld) if fld.strip() else None
    return out


_TAIUTC = re.compile(
    r"^ (\d{4}) ([A-Z]{3}) ([ \d]\d) =JD (\d{7})\.5  TAI-UTC= +(\d+\.\d+) +S \+ \(MJD - (\d+)\.\) X (\d+\.\d+) *S\s*$"
)


def read_tai_utc(path):
    """tai-utc.dat: ' yyyy MMM dd =JD jjjjjjj.5  TAI-UTC=  ss.s       S + (MJD - mmmmm.) X r.r      S'
    Returns [(mjd of validity start, offset ticks, reference mjd, rate as Decimal s/day)]."""
    out = []
    with open(path, encoding="ascii") as fh:
        for line in fh:
            if not line.strip():
                continue
            m = _TAIUTC.match(line.rstrip("\n"))
            if not m:
                raise ValueError(f"unrecognised tai-utc.dat row {line!r}")
            y, mon, d, jd, off, ref, rate = m.groups()
            mjd = int(jd) - 2400000  # JD xxxxxxx.5 - 2400000.5
            if mjd_from_ymd(int(y), _MONTHS[mon], int(d)) != mjd:
                raise ValueError(f"calendar date and JD disagree in tai-utc.dat row {line!r}")
            out.append((mjd, _dec_ticks(off), int(ref), Decimal(rate)))
    if [r[0] for r in out] != sorted(r[0] for r in out):
        raise ValueError("tai-utc.dat not chronological")
    return out


class Tables:
    def __init__(self, folder=POLE):
        self.folder = folder
        fin = read_finals(os.path.join(folder, "finals.all"))
        days = sorted(fin)
        self.first = days[0]
        # domain = the contiguous run of rows carrying UT1-UTC, from the first row on
        last = None
        prev = None
        for d in days:
            if fin[d] is None or (prev is not None and d != prev + 1):
                break
            last = prev = d
        self.last = last
        self.dut1 = {d: fin[d] for d in range(self.first, self.last + 1)}
        self.rows_total = len(days)
        self.leaps = read_tai_utc(os.path.join(folder, "tai-utc.dat"))

    def tai_utc(self, day):
        cur = None
        for mjd, off, ref, rate in self.leaps:
            if mjd <= day:
                cur = (off, rate)
        if cur is None:
            raise KeyError(day)
        if cur[1] != 0:
            raise KeyError(f"{day}: before 1972 (rubber seconds), outside the model's domain")
        return cur[0]

    def leap_days(self):
        """MJDs (>= 1972-07-01) at whose 0h UTC a new whole-second offset starts."""
        return [mjd for mjd, off, ref, rate in self.leaps if rate == 0 and mjd > 41317]


class Ambiguous(Exception):
    pass


def tdb_minus_tt(tt_clock):
    """seconds (float); Astronomical Almanac two-term expression, argument in TT."""
    d = tt_clock / DAY - 51544.5
    g = math.radians(357.53 + 0.98560028 * d)
    ll = math.radians(246.11 + 0.90251792 * d)
    return 0.001657 * math.sin(g) + 0.000022 * math.sin(ll)


def tdb_minus_tt_alt(tt_clock):
    """Second formulation (Vallado, eq. 3-50 form: 0.001657 sin M + 0.00001385 sin 2M, M in Julian centuries of TT)."""
    T = (tt_clock / DAY - 51544.5) / 36525.0
    M = math.radians(357.5277233 + 35999.05034 * T)
    return 0.001657 * math.sin(M) + 0.00001385 * math.sin(2 * M)


class Model:
    """tables=None: the 'zero corrections' world of a missing EOP database (TAI-UTC = UT1-UTC = 0)."""

    def __init__(self, tables=None):
        self.tb = tables

    # -- tabulated quantities --------------------------------------------------
    def covered(self, day):
        return True if self.tb is None else self.tb.first <= day <= self.tb.last

    def tai_utc(self, utc_day):
        return 0 if self.tb is None else self.tb.tai_utc(utc_day)

    def dut1(self, utc_day):
        return 0 if self.tb is None else self.tb.dut1[utc_day]

    def max_dut1_step(self, utc_day):
        """largest |change of UT1-UTC| between utc_day and its neighbours (ticks), leap jumps removed"""
        if self.tb is None:
            return 0
        out = 0
        for a, b in ((utc_day - 1, utc_day), (utc_day, utc_day + 1)):
            if a in self.tb.dut1 and b in self.tb.dut1:
                raw = self.tb.dut1[b] - self.tb.dut1[a]
                # a leap second is worth +1 s of UT1-UTC; predicted rows issued before a leap second was
                # announced do not contain it (2017-01-01 in the shipped file): take the smaller reading
                out = max(out, min(abs(raw), abs(raw - (self.tb.tai_utc(b) - self.tb.tai_utc(a)))))
        return out

    def near_leap(self, tai, window_s=120):
        if self.tb is None:
            return False
        w = window_s * TICKS
        for mjd in self.tb.leap_days():
            end = mjd * DAY + self.tb.tai_utc(mjd)  # TAI reading at 0h UTC of mjd
            if end - TICKS - w <= tai <= end + w:
                return True
        return False

    # -- instant <-> clock -----------------------------------------------------
    def utc_from_tai(self, tai):
        day = (tai - self.tai_utc(tai // DAY)) // DAY
        utc = tai - self.tai_utc(day)
        if utc // DAY != day:
            raise Ambiguous("inside a leap second")
        return utc

    def clocks(self, tai):
        """clock reading of every scale at one instant (ticks; TDB rounded to the tick)"""
        utc = self.utc_from_tai(tai)
        tt = tai + TT_TAI
        return {
            "TAI": tai,
            "TT": tt,
            "GPS": tai - TAI_GPS,
            "UTC": utc,
            "UT1": utc + self.dut1(utc // DAY),
            "TDB": tt + round(tdb_minus_tt(tt) * TICKS),
        }

    def tai_from_clock(self, scale, clock):
        """list of instants whose clock reading in `scale` is `clock` (one element unless UT1 sits in the
        jump of the tabulated step function at 0h UTC, where there may be none or two)."""
        if scale == "TAI":
            return [clock]
        if scale == "TT":
            return [clock - TT_TAI]
        if scale == "GPS":
            return [clock + TAI_GPS]
        if scale == "UTC":
            return [clock + self.tai_utc(clock // DAY)]
        if scale == "UT1":
            out = []
            D = clock // DAY
            for day in (D - 1, D, D + 1):
                if self.tb is not None and day not in self.tb.dut1:
                    continue
                utc = clock - self.dut1(day)
                if utc // DAY == day:
                    out.append(utc + self.tai_utc(day))
            return out
        if scale == "TDB":
            tt = clock
            for _ in range(4):
                tt = clock - round(tdb_minus_tt(tt) * TICKS)
            return [tt - TT_TAI]
        raise ValueError(scale)


# ---------------------------------------------------------------------------


def selftest():
    import datetime as _dt

    # calendar: inverse pair + agreement with an unrelated implementation (proleptic ordinal of the stdlib)
    o0 = _dt.date(1858, 11, 17).toordinal()
    for mjd in list(range(30000, 70000, 7)) + [51543, 51544, 41317, 41684, 57802]:
        y, m, d = ymd_from_mjd(mjd)
        assert mjd_from_ymd(y, m, d) == mjd, mjd
        assert _dt.date(y, m, d).toordinal() - o0 == mjd, mjd
    assert mjd_from_ymd(2000, 1, 1) == 51544 and mjd_from_ymd(1972, 1, 1) == 41317

    tb = Tables()
    # known anchors of the files (public facts): first row 1973-01-02, 10 s on 1972-01-01, 37 s since 2017-01-01
    assert tb.first == 41684 and tb.last >= 57000, (tb.first, tb.last)
    assert tb.tai_utc(41317) == 10 * TICKS and tb.tai_utc(57754) == 37 * TICKS and tb.tai_utc(57753) == 36 * TICKS
    assert len(tb.leap_days()) == 27, len(tb.leap_days())
    # |UT1-UTC| < 0.9 s by construction of UTC; a leap second is worth +1 s of UT1-UTC
    for d in range(tb.first, tb.last + 1):
        assert abs(tb.dut1[d]) < 9 * TICKS // 10 + TICKS // 100, d
    for mjd in tb.leap_days():
        if tb.first < mjd <= tb.last and mjd < 57754:
            # (the shipped finals.all predates the announcement of the 2017-01-01 leap second: its predicted
            # UT1-UTC runs continuously through that date; every earlier leap second must show as +1 s)
            j = tb.dut1[mjd] - tb.dut1[mjd - 1]
            assert abs(j - TICKS) < 5 * TICKS // 1000, (mjd, j)
    m = Model(tb)
    for d in range(tb.first + 1, tb.last):
        assert m.max_dut1_step(d) < 5 * TICKS // 1000, d  # LOD excess < 5 ms/day
    # the IAU2000 file carries the same Bulletin A UT1-UTC column
    f2 = read_finals(os.path.join(POLE, "finals2000A.all"))
    for d in range(tb.first, tb.last + 1):
        assert f2[d] == tb.dut1[d], d

    # inverse pairs instant <-> clock, all scales, and exactness of the constant offsets
    for day in (41685, 44239, 50000, 51544, 55256, 57753, tb.last - 1):
        for sod in (0, 1 * US, 5 * TICKS, 43200 * TICKS + 1234560, DAY - 300 * TICKS):
            tai = day * DAY + sod
            if m.near_leap(tai):
                continue
            c = m.clocks(tai)
            assert c["TT"] - c["TAI"] == 32184 * TICKS // 1000 and c["TAI"] - c["GPS"] == 19 * TICKS
            assert (c["TAI"] - c["UTC"]) % TICKS == 0
            for s in SCALES:
                back = m.tai_from_clock(s, c[s])
                assert tai in back, (s, tai, back)
            off = tdb_minus_tt(c["TT"])
            assert abs(off) < 1.7e-3
            assert abs(off - tdb_minus_tt_alt(c["TT"])) < 40e-6, (day, off, tdb_minus_tt_alt(c["TT"]))
    # leap window bookkeeping: 2016-12-31 23:59:60 UTC
    end = 57754 * DAY + 37 * TICKS
    assert m.near_leap(end - TICKS // 2) and m.near_leap(end + 119 * TICKS) and not m.near_leap(end + 122 * TICKS)
    assert not m.near_leap(end - 123 * TICKS)
    # zero world
    z = Model(None)
    c = z.clocks(55000 * DAY + 7)
    assert c["UTC"] == c["TAI"] == c["UT1"] and c["TT"] - c["TAI"] == TT_TAI
    return True


if __name__ == "__main__":
    selftest()
    print("timescales selftest ok")
