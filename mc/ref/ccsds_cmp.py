"""Reference comparison model for C13: *semantic* equality of the objects that
beyond exchanges through CCSDS messages (StateVector / Orbit, Ephem, list of
Ephem, MeasureSet or list of MeasureSet).

Two steps, both independent of the code under test (beyond/io/ccsds):

1. ``describe(obj)`` turns a library object into a plain, JSON-able description
   by reading public attributes only (epoch scale/day/second, frame and centre
   names, coordinates, covariance lower triangle, maneuvers, interpolation
   settings, user-defined dict, measurements).  Coordinates given in keplerian
   form are converted to cartesian with the textbook perifocal construction of
   ``mc.ref.twobody`` (not with the library's form conversion).
2. ``compare(exp, obs, margin)`` walks two descriptions and returns the list
   of differences, each with a stable field name and a difference *class*
   (used by the harness to build signatures).

Tolerances are those of the property text ("epoch(s) to the microsecond",
"coordinates to the written precision (1 mm, 1 mm/s)") or one unit of the last
written digit for quantities the text does not quantify (see TOL).
"""

import math
import re
from collections import namedtuple

import numpy as np

from . import twobody

TWO_PI = 2 * math.pi
DEG = math.pi / 180.0
REVDAY = TWO_PI / 86400.0

# name -> (tolerance, unit, origin)
TOL = {
    "epoch": (1e-6, "s", "property text: to the microsecond"),
    "epoch-other-scale": (2e-6, "s", "1 us + 1 us for the two datetime-quantised scale conversions used to compare instants"),
    "position": (1e-3, "m", "property text: 1 mm"),
    "velocity": (1e-3, "m/s", "property text: 1 mm/s"),
    "covariance": (1e-12, "relative, per written element", "written with 13 significant digits (0.12e): rounding <= 5e-13"),
    "man-dv": (1e-3, "m/s", "written with 1e-6 km/s"),
    "man-duration": (1e-3, "s", "written with 0.001 s"),
    "tle-n": (1e-8 * REVDAY, "rad/s", "written with 1e-8 rev/day"),
    "tle-e": (1e-7, "-", "written with 1e-7"),
    "tle-angle": (1e-4 * DEG, "rad", "written with 1e-4 deg"),
    "tle-bstar": (1e-9, "1/ER", "written with 1e-9"),
    "tle-ndot": (2e-8, "rev/day**2 (beyond convention: 2 x written)", "written ndot/2 with 1e-8"),
    "tle-ndotdot": (0.6, "rev/day**3 (beyond convention: 6 x written)", "written ndotdot/6 with 0.1"),
    "range": (1e-3, "m", "written with 1e-6 km"),
    "angle": (0.01 * DEG, "rad (mod 2 pi)", "written with 0.01 deg"),
    "doppler": (1e-6, "as written", "written with 1e-6"),
}

Diff = namedtuple("Diff", "field cls where expected observed")
"""field: stable name of what differs; cls: class of the difference (e.g. 'QSW->RSW', 'value');
where: position inside the object (indices), not part of any signature."""


# ---------------------------------------------------------------------------
# describe


def d_date(date):
    """Epoch: label of the scale, (day, second) in that scale, and the instant in TAI (through the
    library's scale conversion: leap seconds / EOP are data, C03 checks them)."""
    tai = date.change_scale("TAI")
    return {
        "scale": str(date.scale.name),
        "d": int(date.d),
        "s": float(date.s),
        "tai": [int(tai.d), float(tai.s)],
    }


def d_frame(frame):
    """A frame is either a local orbital frame given by name (str) or a Frame object."""
    if frame is None:
        return None
    if isinstance(frame, str):
        return {"name": frame.upper(), "orientation": None, "center": None, "object": False}
    return {
        "name": str(frame.name),
        "orientation": str(frame.orientation.name),
        "center": str(frame.center.name),
        "object": True,
    }


def _opt(sv, key):
    v = sv._data.get(key) if hasattr(sv, "_data") else getattr(sv, key, None)
    return v


def d_cov(cov):
    if cov is None:
        return None
    m = np.array(cov, dtype=float)
    if m.shape != (6, 6):
        raise ValueError("covariance is not 6x6")
    return {"frame": d_frame(cov.frame), "values": [[float(m[i, j]) for j in range(6)] for i in range(6)]}


def d_man(man):
    cname = type(man).__name__
    if hasattr(man, "duration"):
        kind = "continuous"
        epoch = man.start
        duration = float(man.duration.total_seconds())
    else:
        kind = "impulsive"
        epoch = man.date
        duration = 0.0
    frame = man.frame
    if frame is not None and not isinstance(frame, str):
        frame = str(getattr(frame, "name", frame))
    return {
        "kind": kind,
        "class": cname,
        "epoch": d_date(epoch),
        "duration": duration,
        "dv": [float(x) for x in np.array(man._dv, dtype=float)],
        "frame": frame,
        "comment": man.comment,
    }


def d_state(sv):
    form = str(sv.form.name)
    coords = [float(x) for x in np.array(sv, dtype=float)]
    out = {
        "kind": "state",
        "class": type(sv).__name__,
        "form": form,
        "propagator": type(sv._data["propagator"]).__name__ if sv._data.get("propagator") is not None else None,
        "epoch": d_date(sv.date),
        "frame": d_frame(sv.frame),
        "name": _opt(sv, "name"),
        "id": _opt(sv, "cospar_id"),
        "cov": d_cov(sv._data.get("cov")),
        "maneuvers": [d_man(m) for m in (sv.maneuvers or [])],
        "user_defined": dict(sv._data.get("ccsds_user_defined") or {}) or None,
    }
    if form == "cartesian":
        out["cart"] = coords
    elif form == "keplerian":
        a, e, i, Om, w, nu = coords
        rv = twobody.kep_to_cart(a, e, i, Om, w, nu, float(sv.frame.center.body.mu))
        out["cart"] = [float(x) for x in rv]
    elif form == "tle":
        out["cart"] = None
        out["tle"] = {
            "i": coords[0],
            "Omega": coords[1],
            "e": coords[2],
            "omega": coords[3],
            "M": coords[4],
            "n": coords[5],
            "bstar": _num(sv._data.get("bstar")),
            "ndot": _num(sv._data.get("ndot")),
            "ndotdot": _num(sv._data.get("ndotdot")),
            "norad_id": _int(sv._data.get("norad_id")),
            "revolutions": _int(sv._data.get("revolutions")),
            "element_nb": _int(sv._data.get("element_nb")),
            "classification": _classification(sv),
        }
    else:
        raise ValueError(f"form {form!r} not handled by the comparison model")
    return out


def _classification(sv):
    """Classification letter of the element set: carried by the Tle object of orbits made by Tle.orbit(),
    by the `classification_type` keyword of orbits made by the OMM readers (None when neither exists)."""
    tle = sv._data.get("tle")
    if tle is not None and getattr(tle, "classification", None) is not None:
        return str(tle.classification)
    c = sv._data.get("classification_type")
    return None if c is None else str(c)


def _num(x):
    return None if x is None else float(x)


def _int(x):
    return None if x is None else int(x)


def d_ephem(eph):
    method = str(eph.method).lower()
    return {
        "kind": "ephem",
        "name": getattr(eph, "name", None),
        "id": getattr(eph, "cospar_id", None),
        "method": method,
        "order": int(eph.order),
        "points": [d_state(p) for p in eph],
    }


def d_measure(m):
    return {
        "type": type(m).__name__,
        "path": [str(p if isinstance(p, str) else getattr(p, "name", p)) for p in m.path],
        "epoch": d_date(m.date),
        "value": float(m.value),
    }


def describe(obj):
    """Plain description of anything `beyond.io.ccsds.dumps` accepts / `loads` returns."""
    from beyond.orbits import StateVector, Ephem
    from beyond.utils.measures import MeasureSet, Measure

    if isinstance(obj, StateVector):
        return {"kind": "state-message", "container": type(obj).__name__, "state": d_state(obj)}
    if isinstance(obj, Ephem):
        return {"kind": "ephem-message", "container": "Ephem", "ephems": [d_ephem(obj)]}
    if isinstance(obj, MeasureSet):
        return {"kind": "measure-message", "container": "MeasureSet", "sets": [[d_measure(m) for m in obj]]}
    if isinstance(obj, (list, tuple)) and obj and all(isinstance(x, Ephem) for x in obj):
        return {"kind": "ephem-message", "container": "list[%d]" % len(obj), "ephems": [d_ephem(e) for e in obj]}
    if isinstance(obj, (list, tuple)) and obj and all(isinstance(x, MeasureSet) for x in obj):
        return {
            "kind": "measure-message",
            "container": "list[%d]" % len(obj),
            "sets": [[d_measure(m) for m in s] for s in obj],
        }
    if isinstance(obj, (list, tuple)) and obj and all(isinstance(x, Measure) for x in obj):
        return {"kind": "measure-message", "container": type(obj).__name__, "sets": [[d_measure(m) for m in obj]]}
    return {"kind": "unknown", "container": type(obj).__name__, "repr": repr(obj)[:200]}


# ---------------------------------------------------------------------------
# compare


def _noop_margin(name, value, tol):
    return value <= tol


class _Cmp:
    def __init__(self, margin, strict):
        self.diffs = []
        self.margin = margin or _noop_margin
        self.strict = strict

    def add(self, field, cls, where, exp, obs):
        self.diffs.append(Diff(field, cls, where, exp, obs))

    def num(self, field, tolname, where, exp, obs, value=None):
        tol = TOL[tolname][0]
        v = abs(exp - obs) if value is None else value
        if not (v == v) or not self.margin(tolname, v, tol):
            self.add(field, "value", where, exp, obs)

    # -- pieces --------------------------------------------------------------
    def epoch(self, field, where, exp, obs, same_scale=True):
        """same_scale: the scale label must be kept (state / point / measurement epochs).  Otherwise
        (a maneuver epoch given in another scale than the message's TIME_SYSTEM) only the instant counts."""
        if exp["scale"] == obs["scale"]:
            dt = (exp["d"] - obs["d"]) * 86400.0 + (exp["s"] - obs["s"])
            self.num(field, "epoch", where, _fmt_date(exp), _fmt_date(obs), abs(dt))
            return
        if same_scale:
            self.add(field + ".scale", f"{exp['scale']}->{obs['scale']}", where, exp["scale"], obs["scale"])
        dt = (exp["tai"][0] - obs["tai"][0]) * 86400.0 + (exp["tai"][1] - obs["tai"][1])
        tol = TOL["epoch-other-scale"][0]
        if not self.margin("epoch-other-scale", abs(dt), tol):
            self.add(field + ".instant", "shifted", where, _fmt_date(exp), _fmt_date(obs) + " (%+.6f s)" % (-dt))

    def frame(self, field, where, exp, obs, state_frame=None):
        en = exp["name"] if exp else None
        on = obs["name"] if obs else None
        if en != on:
            self.add(field, f"{_fclass(en, state_frame)}->{_fclass(on, state_frame)}", where, en, on)
            return
        if exp and obs:
            if exp["object"] and obs["object"] and exp["center"] != obs["center"]:
                self.add(field + ".center", "value", where, exp["center"], obs["center"])
            if self.strict and exp["object"] != obs["object"]:
                self.add(field + ".type", "Frame-vs-str", where, exp["object"], obs["object"])

    def text(self, field, where, exp, obs, absent=(None,)):
        e = None if exp in absent else exp
        o = None if obs in absent else obs
        if e != o:
            self.add(field, _presence(e, o), where, exp, obs)

    def cov(self, where, exp, obs, state_frame):
        if (exp is None) != (obs is None):
            self.add("cov", _presence(exp, obs), where, exp and "covariance", obs and "covariance")
            return
        if exp is None:
            return
        self.frame("cov.frame", where, exp["frame"], obs["frame"], state_frame)
        worst = None
        tol = TOL["covariance"][0]
        for i in range(6):
            for j in range(i + 1):  # the lower triangle is what a message carries
                e = exp["values"][i][j]
                for o in (obs["values"][i][j], obs["values"][j][i]):
                    if e == o:
                        r = 0.0
                    elif e == 0.0 or e != e or o != o:
                        r = float("inf")
                    else:
                        r = abs(e - o) / abs(e)
                    if not self.margin("covariance", r, tol) and worst is None:
                        worst = (i, j, e, o)
        if worst:
            i, j, e, o = worst
            self.add("cov.values", "value", where + [("cell", i, j)], e, o)

    def maneuvers(self, where, exp, obs, state_frame):
        if len(exp) != len(obs):
            self.add("maneuvers.count", f"{len(exp)}->{len(obs)}", where, len(exp), len(obs))
            return
        for k, (e, o) in enumerate(zip(exp, obs)):
            w = where + [("maneuver", k)]
            if e["kind"] != o["kind"]:
                self.add("maneuver.kind", f"{e['kind']}->{o['kind']}", w, e["kind"], o["kind"])
            self.epoch("maneuver.epoch", w, e["epoch"], o["epoch"], same_scale=False)
            self.num("maneuver.duration", "man-duration", w, e["duration"], o["duration"])
            dv = max(abs(a - b) for a, b in zip(e["dv"], o["dv"])) if len(e["dv"]) == len(o["dv"]) == 3 else float("inf")
            self.num("maneuver.dv", "man-dv", w, e["dv"], o["dv"], dv)
            if e["frame"] != o["frame"]:
                self.add("maneuver.frame", f"{_fclass(e['frame'], state_frame)}->{_fclass(o['frame'], state_frame)}", w, e["frame"], o["frame"])
            self.text("maneuver.comment", w, e["comment"], o["comment"], absent=(None, ""))

    def state(self, where, exp, obs, names=True):
        self.epoch("epoch", where, exp["epoch"], obs["epoch"])
        self.frame("frame", where, exp["frame"], obs["frame"])
        sf = exp["frame"]["name"] if exp["frame"] else None
        if names:
            self.text("name", where, exp["name"], obs["name"], absent=(None, "N/A"))
            self.text("id", where, exp["id"], obs["id"], absent=(None, "N/A"))
        if exp.get("tle") is not None and obs.get("tle") is not None:
            self.tle(where, exp["tle"], obs["tle"])
        elif exp["cart"] is not None and obs["cart"] is not None:
            dp = max(abs(a - b) for a, b in zip(exp["cart"][:3], obs["cart"][:3]))
            dv = max(abs(a - b) for a, b in zip(exp["cart"][3:], obs["cart"][3:]))
            self.num("position", "position", where, exp["cart"][:3], obs["cart"][:3], dp)
            self.num("velocity", "velocity", where, exp["cart"][3:], obs["cart"][3:], dv)
        else:
            self.add("form", f"{exp['form']}->{obs['form']}", where, exp["form"], obs["form"])
        self.cov(where, exp["cov"], obs["cov"], sf)
        self.maneuvers(where, exp["maneuvers"], obs["maneuvers"], sf)
        if (exp["user_defined"] or None) != (obs["user_defined"] or None):
            self.add("user_defined", _presence(exp["user_defined"], obs["user_defined"]), where, exp["user_defined"], obs["user_defined"])
        if self.strict:
            for k in ("class", "form", "propagator"):
                if exp[k] != obs[k]:
                    self.add("type." + k, f"{exp[k]}->{obs[k]}", where, exp[k], obs[k])

    def tle(self, where, exp, obs):
        self.num("tle.n", "tle-n", where, exp["n"], obs["n"])
        self.num("tle.e", "tle-e", where, exp["e"], obs["e"])
        self.num("tle.i", "tle-angle", where, exp["i"], obs["i"])
        for k in ("Omega", "omega", "M"):
            self.num("tle." + k, "tle-angle", where, exp[k], obs[k], ang_dist(exp[k], obs[k]))
        for k, tn in (("bstar", "tle-bstar"), ("ndot", "tle-ndot"), ("ndotdot", "tle-ndotdot")):
            if exp[k] is None or obs[k] is None:
                if exp[k] != obs[k]:
                    self.add("tle." + k, _presence(exp[k], obs[k]), where, exp[k], obs[k])
            else:
                self.num("tle." + k, tn, where, exp[k], obs[k])
        for k in ("norad_id", "revolutions", "element_nb"):
            if exp[k] != obs[k]:
                self.add("tle." + k, _presence(exp[k], obs[k]), where, exp[k], obs[k])
        # an element set without classification information is unclassified ("U", the default of the readers)
        ec, oc = exp.get("classification") or "U", obs.get("classification") or "U"
        if ec != oc:
            self.add("tle.classification", f"{ec}->{oc}", where, ec, oc)

    def ephem(self, where, exp, obs):
        self.text("name", where, exp["name"], obs["name"], absent=(None, "N/A"))
        self.text("id", where, exp["id"], obs["id"], absent=(None, "N/A"))
        if exp["method"] != obs["method"]:
            self.add("interpolation.method", f"{exp['method']}->{obs['method']}", where, exp["method"], obs["method"])
        elif exp["method"] != "linear" and exp["order"] != obs["order"]:
            # the degree of a linear interpolation is not an independent setting
            self.add("interpolation.order", "value", where, exp["order"], obs["order"])
        if len(exp["points"]) != len(obs["points"]):
            self.add("points.count", f"{_cnt(len(exp['points']))}->{_cnt(len(obs['points']))}", where, len(exp["points"]), len(obs["points"]))
            return
        for k, (e, o) in enumerate(zip(exp["points"], obs["points"])):
            self.state(where + [("point", k)], e, o, names=False)

    def measures(self, where, exp_sets, obs_sets):
        e = _group_by_path(exp_sets)
        o = _group_by_path(obs_sets)
        if [k for k, _ in e] != [k for k, _ in o]:
            self.add("measure.paths", "value", where, [list(k) for k, _ in e], [list(k) for k, _ in o])
            return
        for (path, em), (_, om) in zip(e, o):
            w = where + [("path", list(path))]
            if len(em) != len(om):
                self.add("measures.count", f"{_cnt(len(em))}->{_cnt(len(om))}", w, len(em), len(om))
                continue
            for k, (a, b) in enumerate(zip(em, om)):
                wk = w + [("measure", k)]
                if a["type"] != b["type"]:
                    self.add("measure.type", f"{a['type']}->{b['type']}", wk, a["type"], b["type"])
                    continue
                self.epoch("measure.epoch", wk, a["epoch"], b["epoch"])
                if a["type"] in ("Azimut", "Elevation"):
                    self.num("measure.value." + a["type"], "angle", wk, a["value"], b["value"], ang_dist(a["value"], b["value"]))
                elif a["type"] == "Range":
                    self.num("measure.value.Range", "range", wk, a["value"], b["value"])
                else:
                    self.num("measure.value." + a["type"], "doppler", wk, a["value"], b["value"])


def compare(exp, obs, margin=None, strict=False):
    """Differences between two descriptions (expected, observed).

    strict=False: what the property demands of ``loads(dumps(x))`` versus ``x`` (a 1-element list of
    ephemerides and the ephemeris itself, or one MeasureSet and the list of its per-path parts, are the same
    content).  strict=True additionally compares classes, forms, propagator class and container type: used for
    "both encodings decode to the same object".
    margin(name, value, tol) -> bool is called for every numerical comparison."""
    c = _Cmp(margin, strict)
    if exp["kind"] != obs["kind"]:
        c.add("message.kind", f"{exp['kind']}->{obs['kind']}", [], exp["kind"], obs["kind"])
        return c.diffs
    if strict and exp["container"] != obs["container"]:
        c.add("type.container", f"{exp['container']}->{obs['container']}", [], exp["container"], obs["container"])
    if exp["kind"] == "state-message":
        c.state([], exp["state"], obs["state"])
    elif exp["kind"] == "ephem-message":
        if len(exp["ephems"]) != len(obs["ephems"]):
            c.add("ephems.count", f"{len(exp['ephems'])}->{len(obs['ephems'])}", [], len(exp["ephems"]), len(obs["ephems"]))
        else:
            for k, (e, o) in enumerate(zip(exp["ephems"], obs["ephems"])):
                c.ephem([("ephem", k)], e, o)
    elif exp["kind"] == "measure-message":
        c.measures([], exp["sets"], obs["sets"])
    else:
        c.add("message.kind", "unknown", [], exp.get("container"), obs.get("container"))
    return c.diffs


# ---------------------------------------------------------------------------
# helpers


def ang_dist(a, b):
    """Distance of two angles on the circle, in [0, pi]."""
    d = math.fmod(a - b, TWO_PI)
    if d > math.pi:
        d -= TWO_PI
    elif d < -math.pi:
        d += TWO_PI
    return abs(d)


def _fmt_date(d):
    sec = d["s"]
    h = int(sec // 3600)
    m = int((sec - 3600 * h) // 60)
    s = sec - 3600 * h - 60 * m
    return "MJD %d %02d:%02d:%010.7f %s" % (d["d"], h, m, s, d["scale"])


def _fclass(name, state_frame):
    if name is None:
        return "none"
    if name in ("QSW", "TNW", "RSW", "RTN"):
        return name
    if state_frame is not None and name == state_frame:
        return "state-frame"
    return "other-frame"


def _presence(e, o):
    if e in (None, "", {}) and o not in (None, "", {}):
        return "appeared"
    if o in (None, "", {}) and e not in (None, "", {}):
        return "lost"
    return "changed"


def _cnt(n):
    return str(n) if n <= 1 else "n"


def _group_by_path(sets):
    """Measurements grouped by signal path (order of first appearance), order kept inside a path: this is the
    content a TDM (one segment per path) can carry."""
    groups = {}
    for s in sets:
        for m in s:
            groups.setdefault(tuple(m["path"]), []).append(m)
    return list(groups.items())


_CREATION_KVN = re.compile(r"^(CREATION_DATE\s*=\s*).*$", re.M)
_CREATION_XML = re.compile(r"(<CREATION_DATE>)[^<]*(</CREATION_DATE>)")


def strip_creation_date(text):
    text = _CREATION_KVN.sub(r"\1<T>", text)
    return _CREATION_XML.sub(r"\1<T>\2", text)


_KEP_KVN = re.compile(r"\nCOMMENT  Keplerian elements\n(?:[A-Z_]+ *=.*\n)+")
_KEP_XML = re.compile(r"[ \t]*<keplerianElements>.*?</keplerianElements>\n?", re.S)


def strip_derived(text):
    """Remove the optional osculating-element block of an OPM: derived from the state vector, not read back."""
    return _KEP_XML.sub("", _KEP_KVN.sub("", text))


def text_diff(a, b, limit=3):
    """First differing lines of two texts after removing the creation date ([] when identical)."""
    # blank lines carry nothing in either encoding (e.g. the separator the KVN writers put before an empty
    # user-defined block): only the non-empty lines are compared, without trailing blanks
    la = [l.rstrip() for l in strip_creation_date(a).splitlines() if l.strip()]
    lb = [l.rstrip() for l in strip_creation_date(b).splitlines() if l.strip()]
    out = []
    for k in range(max(len(la), len(lb))):
        x = la[k] if k < len(la) else None
        y = lb[k] if k < len(lb) else None
        if x != y:
            out.append([k + 1, x, y])
            if len(out) >= limit:
                break
    return out


def header_field(text, key):
    """Value of a header keyword (ORIGINATOR, CREATION_DATE) in a KVN or XML message, None when absent."""
    if text_format(text) == "kvn":
        m = re.search(r"^%s[ \t]*=[ \t]*(.*?)[ \t]*$" % re.escape(key), text, re.M)
    else:
        m = re.search(r"<%s>\s*(.*?)\s*</%s>" % (re.escape(key), re.escape(key)), text, re.S)
    return m.group(1) if m else None


def text_format(text):
    """'kvn' / 'xml' from the text itself (KVN starts with the version keyword, XML with a declaration/tag)."""
    s = text.lstrip()
    if s.startswith("CCSDS_"):
        return "kvn"
    if s.startswith("<"):
        return "xml"
    return "unknown"


# ---------------------------------------------------------------------------
# self test (no library object needed)


def _demo_state():
    ep = {"scale": "UTC", "d": 55256, "s": 43200.123456, "tai": [55256, 43234.123456]}
    cov = [[(1.0 + i + j) * (1e2 if i < 3 and j < 3 else 1e-3) for j in range(6)] for i in range(6)]
    cov = [[cov[max(i, j)][min(i, j)] for j in range(6)] for i in range(6)]
    man = {
        "kind": "impulsive",
        "class": "ImpulsiveMan",
        "epoch": dict(ep, s=43300.5),
        "duration": 0.0,
        "dv": [1.0, 2.0, 3.0],
        "frame": "QSW",
        "comment": "c",
    }
    fr = {"name": "EME2000", "orientation": "EME2000", "center": "Earth", "object": True}
    st = {
        "kind": "state",
        "class": "StateVector",
        "form": "cartesian",
        "propagator": None,
        "epoch": ep,
        "frame": fr,
        "name": "SAT",
        "id": "2010-001A",
        "cov": {"frame": {"name": "QSW", "orientation": None, "center": None, "object": False}, "values": cov},
        "maneuvers": [man],
        "user_defined": {"FOO": "x"},
        "cart": [7e6, 1e5, -2e5, -100.0, 7000.0, 3000.0],
    }
    return st


def selftest():
    import copy

    st = _demo_state()
    msg = {"kind": "state-message", "container": "StateVector", "state": st}
    assert compare(msg, copy.deepcopy(msg)) == []

    def mutated(fn):
        m = copy.deepcopy(msg)
        fn(m["state"])
        return [d.field + ":" + d.cls for d in compare(msg, m)]

    # below the tolerances: nothing
    def small(s):
        s["cart"][0] += 0.9e-3
        s["cart"][4] -= 0.9e-3
        s["epoch"]["s"] += 0.9e-6
        s["maneuvers"][0]["dv"][1] += 0.9e-3
        s["cov"]["values"][3][1] *= 1 + 0.9e-12
        s["cov"]["values"][1][3] *= 1 + 0.9e-12

    assert mutated(small) == [], mutated(small)

    # above: exactly the touched field
    def setter(path, value):
        def fn(s):
            o = s
            for k in path[:-1]:
                o = o[k]
            o[path[-1]] = value(o[path[-1]]) if callable(value) else value

        return fn

    expect = [
        (setter(["cart", 0], lambda v: v + 1.1e-3), ["position:value"]),
        (setter(["cart", 5], lambda v: v + 1.1e-3), ["velocity:value"]),
        (setter(["epoch", "s"], lambda v: v + 1.1e-6), ["epoch:value"]),
        (setter(["epoch", "scale"], "TAI"), ["epoch.scale:UTC->TAI"]),
        (setter(["frame", "name"], "MOD"), ["frame:other-frame->other-frame"]),
        (setter(["name"], "N/A"), ["name:lost"]),
        (setter(["id"], "other"), ["id:changed"]),
        (setter(["cov"], None), ["cov:lost"]),
        (setter(["cov", "frame", "name"], "RSW"), ["cov.frame:QSW->RSW"]),
        (setter(["cov", "values", 4, 2], lambda v: v * (1 + 1.1e-12)), ["cov.values:value"]),
        (setter(["cov", "values", 2, 4], lambda v: v * (1 + 1.1e-12)), ["cov.values:value"]),
        (setter(["maneuvers"], []), ["maneuvers.count:1->0"]),
        (setter(["maneuvers", 0, "frame"], "RSW"), ["maneuver.frame:QSW->RSW"]),
        (setter(["maneuvers", 0, "frame"], None), ["maneuver.frame:QSW->none"]),
        (setter(["maneuvers", 0, "comment"], None), ["maneuver.comment:lost"]),
        (setter(["maneuvers", 0, "kind"], "continuous"), ["maneuver.kind:impulsive->continuous"]),
        (setter(["maneuvers", 0, "duration"], 0.0011), ["maneuver.duration:value"]),
        (setter(["maneuvers", 0, "dv", 2], lambda v: v - 1.1e-3), ["maneuver.dv:value"]),
        (setter(["maneuvers", 0, "epoch", "s"], lambda v: v + 2e-6), ["maneuver.epoch:value"]),
        (setter(["user_defined"], None), ["user_defined:lost"]),
        (setter(["user_defined"], {"FOO": "y"}), ["user_defined:changed"]),
    ]
    for fn, want in expect:
        got = mutated(fn)
        assert got == want, (got, want)

    # swapping two covariance cells is seen
    def swap(s):
        v = s["cov"]["values"]
        v[1][0], v[2][0] = v[2][0], v[1][0]
        v[0][1], v[0][2] = v[0][2], v[0][1]

    assert mutated(swap) == ["cov.values:value"]

    # a maneuver epoch in another scale: only the instant counts
    def relabel(s):
        e = s["maneuvers"][0]["epoch"]
        e["scale"] = "TAI"
        e["s"] += 34.0

    assert mutated(relabel) == []

    def relabel_shift(s):
        s["maneuvers"][0]["epoch"]["scale"] = "TAI"

    # same wall clock under another label = another instant... but only if the TAI instants differ
    m = copy.deepcopy(msg)
    m["state"]["maneuvers"][0]["epoch"]["scale"] = "TAI"
    m["state"]["maneuvers"][0]["epoch"]["tai"][1] -= 34.0
    assert [d.field for d in compare(msg, m)] == ["maneuver.epoch.instant"]

    # angles
    assert abs(ang_dist(0.1, TWO_PI + 0.1)) < 1e-15 and abs(ang_dist(-0.05, TWO_PI - 0.05)) < 1e-12
    assert abs(ang_dist(0.0, math.pi) - math.pi) < 1e-15

    # ephemerides and measurements
    pt = dict(st, cov=None, maneuvers=[], user_defined=None)
    eph = {"kind": "ephem", "name": "SAT", "id": "X", "method": "lagrange", "order": 8, "points": [pt, dict(pt, epoch=dict(pt["epoch"], s=43260.0))]}
    em = {"kind": "ephem-message", "container": "Ephem", "ephems": [eph]}
    em2 = copy.deepcopy(em)
    em2["container"] = "list[1]"
    assert compare(em, em2) == [] and [d.field for d in compare(em, em2, strict=True)] == ["type.container"]
    em2["ephems"][0]["order"] = 7
    assert [d.field for d in compare(em, em2)] == ["interpolation.order"]
    em2["ephems"][0]["method"] = em["ephems"][0]["method"] = "linear"
    assert compare(em, em2) == []
    em2["ephems"][0]["points"].pop()
    assert [d.field + ":" + d.cls for d in compare(em, em2)] == ["points.count:n->1"]

    def meas(t, path, s, v):
        return {"type": t, "path": path, "epoch": {"scale": "UTC", "d": 55256, "s": s, "tai": [55256, s + 34]}, "value": v}

    A, B = ["sta", "sat", "sta"], ["sta2", "sat"]
    one = {"kind": "measure-message", "container": "MeasureSet",
           "sets": [[meas("Range", A, 1.0, 1e6), meas("Azimut", B, 1.0, 0.00001), meas("Range", A, 2.0, 2e6), meas("Azimut", B, 2.0, 1.0)]]}
    two = {"kind": "measure-message", "container": "list[2]",
           "sets": [[meas("Range", A, 1.0, 1e6 + 5e-4), meas("Range", A, 2.0, 2e6)], [meas("Azimut", B, 1.0, TWO_PI - 0.00001), meas("Azimut", B, 2.0, 1.0 - TWO_PI)]]}
    assert compare(one, two) == [], compare(one, two)
    two["sets"][1][1]["value"] += 0.02 * DEG
    assert [d.field for d in compare(one, two)] == ["measure.value.Azimut"]
    two["sets"][0][0]["type"] = "Doppler"
    assert [d.field + ":" + d.cls for d in compare(one, two)][0] == "measure.type:Range->Doppler"

    # text helpers
    k1 = "CCSDS_OPM_VERS = 2.0\nCREATION_DATE = 2020-01-01T00:00:00.000001\nX = 1\n"
    k2 = "CCSDS_OPM_VERS = 2.0\nCREATION_DATE = 2021-05-01T00:00:00.5\nX = 1\n"
    assert text_diff(k1, k2) == [] and text_diff(k1, k2.replace("X = 1", "X = 2")) == [[3, "X = 1", "X = 2"]]
    assert text_diff(k1, k2.replace("X = 1", "\nX = 1\n\n")) == []
    x1 = "<?xml version='1.0'?>\n<opm><header><CREATION_DATE>2020-01-01T00:00:00.1</CREATION_DATE></header></opm>"
    assert text_diff(x1, x1.replace("2020", "2033")) == []
    assert text_format(k1) == "kvn" and text_format(x1) == "xml"
    assert header_field(k1 + "ORIGINATOR = A B\n", "ORIGINATOR") == "A B" and header_field(k1, "ORIGINATOR") is None
    assert header_field(x1.replace("</header>", "<ORIGINATOR>A B</ORIGINATOR></header>"), "ORIGINATOR") == "A B"
    kk = "Z_DOT = 1 [km/s]\n\nCOMMENT  Keplerian elements\nSEMI_MAJOR_AXIS      =  6988.5 [km]\nGM                   = 398600.9368 [km**3/s**2]\n\nCX_X = 1\n"
    assert strip_derived(kk) == "Z_DOT = 1 [km/s]\n\nCX_X = 1\n", repr(strip_derived(kk))
    xx = "  </stateVector>\n  <keplerianElements>\n    <GM units=\"km**3/s**2\">1</GM>\n  </keplerianElements>\n  <covarianceMatrix>\n"
    assert strip_derived(xx) == "  </stateVector>\n  <covarianceMatrix>\n", repr(strip_derived(xx))

    # describe() on real objects when the library is importable (two routes to the same cartesian state)
    try:
        from beyond.orbits import StateVector
        from beyond.dates import Date
    except Exception:  # pragma: no cover
        return
    d = Date(2010, 3, 1, 12, 0, 0, 123456)
    kep = [7000e3, 0.01, 0.9, 0.3, 0.2, 0.1]
    a = StateVector(kep, d, "keplerian", "EME2000", name="S", cospar_id="I")
    mu = float(a.frame.center.body.mu)
    b = StateVector(twobody.kep_to_cart(*kep, mu), d, "cartesian", "EME2000", name="S", cospar_id="I")
    da, db = describe(a), describe(b)
    assert compare(da, db) == [] and [x.field for x in compare(da, db, strict=True)] == ["type.form"]
    k = twobody.cart_to_kep(da["state"]["cart"], mu)
    assert abs(k["a"] - kep[0]) < 1e-6 and abs(k["e"] - kep[1]) < 1e-12
    assert da["state"]["epoch"]["scale"] == "UTC" and da["state"]["epoch"]["d"] == 55256
    assert abs(da["state"]["epoch"]["s"] - 43200.123456) < 1e-9


if __name__ == "__main__":
    selftest()
    print("ok")
