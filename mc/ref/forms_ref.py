"""Reference definitions of the ten element forms, written from the textbook.

Two independent routes are provided and cross-checked by `selftest()`:

* `orbit_numbers(a, e, i, Om, w, M, mu)`  builds the six numbers of every form from the
  classical elements by the *angle* formulas (ex = e cos w, l = Om + w + nu ...), keeping the
  anomaly unreduced (as many turns as the given M);
* `from_cart(form, rv, mu)` computes the six numbers of a form from the cartesian state by
  *vector* definitions (angular momentum, node vector, eccentricity vector, energy,
  equinoctial basis f/g, local unit vectors of the spherical / cylindrical coordinates);
* `to_cart(form, six, mu)` is the inverse (form -> position, velocity).

Only data (mu) comes from outside; nothing of beyond is imported.

Form definitions (parameter order as documented by beyond.orbits.forms):
  cartesian                x y z vx vy vz
  spherical                r theta(azimuth) phi(elevation from the xy plane) r_dot theta_dot phi_dot
  cylindrical              rho theta z rho_dot theta_dot vz
  keplerian                a e i Om w nu
  keplerian_eccentric      a e i Om w E        (H for hyperbolas: r = a (1 - e cosh H))
  keplerian_mean           a e i Om w M        (M = E - e sin E ; M = e sinh H - H)
  keplerian_circular       a ex ey i Om u      ex = e cos w, ey = e sin w, u = w + nu
  keplerian_mean_circular  a ex ey i Om alpha  alpha = w + M   (hyperbola: M is no angle; w taken in (-pi, pi])
  equinoctial              a ex ey ix iy l     ex = e cos(Om+w), ey = e sin(Om+w), ix = tan(i/2) cos Om,
                                               iy = tan(i/2) sin Om, l = Om + w + nu (true longitude)
  tle                      i Om e w M n        n = sqrt(mu / a^3)
"""

import math

import numpy as np

from . import twobody as tb

TWO_PI = 2 * math.pi

FORMS = [
    "cartesian",
    "spherical",
    "cylindrical",
    "keplerian",
    "keplerian_eccentric",
    "keplerian_mean",
    "keplerian_circular",
    "keplerian_mean_circular",
    "equinoctial",
    "tle",
]

# indices of the elements that are angles defined modulo 2 pi (for elliptic orbits)
ANGLES = {
    "cartesian": (),
    "spherical": (1,),
    "cylindrical": (1,),
    "keplerian": (3, 4, 5),
    "keplerian_eccentric": (3, 4, 5),
    "keplerian_mean": (3, 4, 5),
    "keplerian_circular": (4, 5),
    "keplerian_mean_circular": (4, 5),
    "equinoctial": (5,),
    "tle": (1, 3, 4),
}
# index of an anomaly that is NOT periodic on a hyperbola (H, M, w+M)
HYP_LINEAR = {"keplerian_eccentric": 5, "keplerian_mean": 5, "keplerian_mean_circular": 5}


def wrap(x):
    """to (-pi, pi]"""
    y = (x + math.pi) % TWO_PI - math.pi
    return y + TWO_PI if y <= -math.pi else y


# ---------------------------------------------------------------------------
# anomalies (unreduced)


def anomalies_from_mean(M, e):
    """(nu, E_or_H) carrying the same number of turns as M (ellipse); signed for hyperbolas."""
    if e < 1:
        E = tb.solve_kepler_elliptic(M, e)
        k = math.floor(E / TWO_PI + 0.5)
        Er = E - k * TWO_PI
        nu = 2 * math.atan2(math.sqrt(1 + e) * math.sin(Er / 2), math.sqrt(1 - e) * math.cos(Er / 2)) + k * TWO_PI
        return nu, E
    H = tb.solve_kepler_hyperbolic(M, e)
    nu = 2 * math.atan(math.sqrt((e + 1) / (e - 1)) * math.tanh(H / 2))
    return nu, H


def true_from_ecc(E, e):
    if e < 1:
        k = math.floor(E / TWO_PI + 0.5)
        Er = E - k * TWO_PI
        return 2 * math.atan2(math.sqrt(1 + e) * math.sin(Er / 2), math.sqrt(1 - e) * math.cos(Er / 2)) + k * TWO_PI
    return 2 * math.atan(math.sqrt((e + 1) / (e - 1)) * math.tanh(E / 2))


def true_from_mean(M, e):
    return anomalies_from_mean(M, e)[0]


# ---------------------------------------------------------------------------
# route 1: from the classical elements by the angle formulas


def orbit_numbers(a, e, i, Om, w, M, mu):
    """Six numbers of every form (dict) and the cartesian state, anomaly kept unreduced."""
    nu, E = anomalies_from_mean(M, e)
    rv = tb.kep_to_cart(a, e, i, Om, w, nu, mu)
    out = {"cartesian": [float(x) for x in rv]}
    out["keplerian"] = [a, e, i, Om, w, nu]
    out["keplerian_eccentric"] = [a, e, i, Om, w, E]
    out["keplerian_mean"] = [a, e, i, Om, w, M]
    out["keplerian_circular"] = [a, e * math.cos(w), e * math.sin(w), i, Om, w + nu]
    # hyperbola: M is a real number, not an angle, so alpha = w + M depends on the branch of w; the principal
    # value (-pi, pi] is the one beyond's reader (keplerian_mean_circular -> keplerian_mean: w = arctan2(ey, ex),
    # M = alpha - w) assumes, so a state written with it is read back by the library as intended
    out["keplerian_mean_circular"] = [a, e * math.cos(w), e * math.sin(w), i, Om, (w if e < 1 else wrap(w)) + M]
    out["equinoctial"] = [
        a,
        e * math.cos(Om + w),
        e * math.sin(Om + w),
        math.tan(i / 2) * math.cos(Om),
        math.tan(i / 2) * math.sin(Om),
        Om + w + nu,
    ]
    if a > 0:
        out["tle"] = [i, Om, e, w, M, math.sqrt(mu / a**3)]
    out["spherical"] = _sph_from_cart(rv)
    out["cylindrical"] = _cyl_from_cart(rv)
    return out, rv


# ---------------------------------------------------------------------------
# spherical / cylindrical through the local unit vectors (not by differentiating the formulas)


def _sph_from_cart(rv):
    r = np.asarray(rv[:3], dtype=float)
    v = np.asarray(rv[3:], dtype=float)
    rn = math.sqrt(r @ r)
    rho = math.hypot(r[0], r[1])
    theta = math.atan2(r[1], r[0])
    phi = math.atan2(r[2], rho)
    er = r / rn
    et = np.array([-math.sin(theta), math.cos(theta), 0.0])
    ep = np.array([-math.sin(phi) * math.cos(theta), -math.sin(phi) * math.sin(theta), math.cos(phi)])
    return [rn, theta, phi, float(v @ er), float(v @ et) / rho, float(v @ ep) / rn]


def _sph_to_cart(six):
    rn, theta, phi, rd, td, pd = six
    er = np.array([math.cos(phi) * math.cos(theta), math.cos(phi) * math.sin(theta), math.sin(phi)])
    et = np.array([-math.sin(theta), math.cos(theta), 0.0])
    ep = np.array([-math.sin(phi) * math.cos(theta), -math.sin(phi) * math.sin(theta), math.cos(phi)])
    r = rn * er
    v = rd * er + rn * math.cos(phi) * td * et + rn * pd * ep
    return np.concatenate([r, v])


def _cyl_from_cart(rv):
    x, y, z, vx, vy, vz = [float(c) for c in rv]
    rho = math.hypot(x, y)
    theta = math.atan2(y, x)
    erho = (math.cos(theta), math.sin(theta))
    eth = (-math.sin(theta), math.cos(theta))
    return [rho, theta, z, vx * erho[0] + vy * erho[1], (vx * eth[0] + vy * eth[1]) / rho, vz]


def _cyl_to_cart(six):
    rho, theta, z, rd, td, vz = six
    c, s = math.cos(theta), math.sin(theta)
    return np.array([rho * c, rho * s, z, rd * c - rho * td * s, rd * s + rho * td * c, vz])


# ---------------------------------------------------------------------------
# route 2: vector definitions from the cartesian state


def from_cart(form, rv, mu):
    rv = np.asarray(rv, dtype=float)
    if form == "cartesian":
        return [float(x) for x in rv]
    if form == "spherical":
        return _sph_from_cart(rv)
    if form == "cylindrical":
        return _cyl_from_cart(rv)
    k = tb.cart_to_kep(rv, mu)
    a, e, i, Om, w, nu = k["a"], k["e"], k["i"], k["Om"], k["w"], k["nu"]
    if form == "keplerian":
        return [a, e, i, Om, w, nu % TWO_PI]
    if form == "keplerian_eccentric":
        return [a, e, i, Om, w, k["E"]]
    if form == "keplerian_mean":
        return [a, e, i, Om, w, k["M"]]
    r = rv[:3]
    h = k["h"]
    what = h / math.sqrt(h @ h)
    if form in ("keplerian_circular", "keplerian_mean_circular", "tle"):
        nvec = np.array([-h[1], h[0], 0.0])
        nhat = nvec / math.sqrt(nvec @ nvec)
        mhat = np.cross(what, nhat)
        ex, ey = float(k["evec"] @ nhat), float(k["evec"] @ mhat)
        if form == "keplerian_circular":
            return [a, ex, ey, i, Om, math.atan2(r @ mhat, r @ nhat) % TWO_PI]
        if form == "keplerian_mean_circular":
            return [a, ex, ey, i, Om, (w + k["M"]) % TWO_PI if e < 1 else wrap(w) + k["M"]]
        if a <= 0:
            raise ValueError("TLE form undefined for a <= 0")
        return [i, Om, e, w, k["M"], math.sqrt(mu / a**3)]
    if form == "equinoctial":
        # ix = tan(i/2) cos Om, iy = tan(i/2) sin Om from the unit angular momentum
        ix = -what[1] / (1 + what[2])
        iy = what[0] / (1 + what[2])
        f, g = _equinoctial_basis(ix, iy)
        ex, ey = float(k["evec"] @ f), float(k["evec"] @ g)
        return [a, ex, ey, ix, iy, math.atan2(r @ g, r @ f) % TWO_PI]
    raise ValueError(form)


def _equinoctial_basis(ix, iy):
    """f, g unit vectors of the equinoctial frame (q = ix = tan(i/2)cos Om, p = iy = tan(i/2) sin Om)."""
    q, p = ix, iy
    d = 1 + p * p + q * q
    f = np.array([1 - p * p + q * q, 2 * p * q, -2 * p]) / d
    g = np.array([2 * p * q, 1 + p * p - q * q, 2 * q]) / d
    return f, g


def to_cart(form, six, mu):
    six = [float(x) for x in six]
    if form == "cartesian":
        return np.array(six)
    if form == "spherical":
        return _sph_to_cart(six)
    if form == "cylindrical":
        return _cyl_to_cart(six)
    if form == "keplerian":
        a, e, i, Om, w, nu = six
        return tb.kep_to_cart(a, e, i, Om, w, nu, mu)
    if form == "keplerian_eccentric":
        a, e, i, Om, w, E = six
        return tb.kep_to_cart(a, e, i, Om, w, true_from_ecc(E, e), mu)
    if form == "keplerian_mean":
        a, e, i, Om, w, M = six
        return tb.kep_to_cart(a, e, i, Om, w, true_from_mean(M, e), mu)
    if form == "keplerian_circular":
        a, ex, ey, i, Om, u = six
        e = math.hypot(ex, ey)
        w = math.atan2(ey, ex)
        return tb.kep_to_cart(a, e, i, Om, w, u - w, mu)
    if form == "keplerian_mean_circular":
        a, ex, ey, i, Om, al = six
        e = math.hypot(ex, ey)
        # for a hyperbola M is not an angle: alpha = w + M needs a branch for w; the principal value
        # w in (-pi, pi] is used (irrelevant for ellipses) - see orbit_numbers()
        w = math.atan2(ey, ex)
        return tb.kep_to_cart(a, e, i, Om, w, true_from_mean(al - w, e), mu)
    if form == "tle":
        i, Om, e, w, M, n = six
        a = (mu / n**2) ** (1.0 / 3.0)
        return tb.kep_to_cart(a, e, i, Om, w, true_from_mean(M, e), mu)
    if form == "equinoctial":
        a, ex, ey, ix, iy, l = six
        f, g = _equinoctial_basis(ix, iy)
        p = a * (1 - ex * ex - ey * ey)
        cl, sl = math.cos(l), math.sin(l)
        rn = p / (1 + ex * cl + ey * sl)
        k = math.sqrt(mu / p)
        r = rn * (cl * f + sl * g)
        v = k * (-(ey + sl) * f + (ex + cl) * g)
        return np.concatenate([r, v])
    raise ValueError(form)


# ---------------------------------------------------------------------------
# derived quantities (Infos) from the cartesian state only


def infos_ref(rv, mu):
    r = np.asarray(rv[:3], dtype=float)
    v = np.asarray(rv[3:], dtype=float)
    rn = math.sqrt(r @ r)
    vn = math.sqrt(v @ v)
    h = np.cross(r, v)
    hn = math.sqrt(h @ h)
    evec = np.cross(v, h) / mu - r / rn
    e = math.sqrt(evec @ evec)
    energy = vn * vn / 2 - mu / rn
    p = hn * hn / mu
    rp = p / (1 + e)
    out = dict(r=rn, v=vn, energy=energy, e=e, rp=rp, p=p, h=hn)
    out["vp"] = hn / rp
    out["sin_fpa"] = float(r @ v) / (rn * vn)
    out["cos_fpa"] = hn / (rn * vn)
    out["fpa"] = math.atan2(float(r @ v), hn)
    a = -mu / (2 * energy)
    out["a"] = a
    out["n"] = math.sqrt(mu / abs(a) ** 3)
    if e < 1:
        ra = p / (1 - e)
        out["ra"] = ra
        out["va"] = hn / ra
        out["period"] = TWO_PI * math.sqrt(a**3 / mu)
    else:
        vinf = math.sqrt(2 * energy)
        out["vinf"] = vinf
        out["dinf"] = hn / vinf  # impact parameter: h = b * vinf
    return out


# ---------------------------------------------------------------------------


def selftest():
    worst = 0.0
    for mu, rp in ((3.986004418e14, 7.0e6), (1e3, 10.0), (1.327e20, 2.0e10)):
        for e in (1e-4, 0.3, 0.99, 1.001, 1.61, 20.0):
            for i in (0.01, 0.9, 2.2, math.pi - 0.01):
                # (w = pi is the branch cut of the hyperbolic mean argument of latitude: 3.0 instead for e > 1)
                for Om, w in ((0.0, 0.7), (3.5, 5.5), (6.0, math.pi if e < 1 else 3.0)):
                    for M in (-3.0, 0.0, 0.5, 3.3, 7.5) if e < 1 else (-200.0, -0.5, 4.0, 20.0):
                        a = rp / (1 - e)
                        nums, rv = orbit_numbers(a, e, i, Om, w, M, mu)
                        rn, vn = np.linalg.norm(rv[:3]), np.linalg.norm(rv[3:])
                        cond = 1 + 1 / abs(1 - e)
                        for form, six in nums.items():
                            # inverse pair
                            back = to_cart(form, six, mu)
                            er = np.linalg.norm(back[:3] - rv[:3]) / rn + np.linalg.norm(back[3:] - rv[3:]) / vn
                            worst = max(worst, er / cond)
                            assert er < 1e-11 * cond, ("to_cart", form, e, i, M, er)
                            # the two routes agree (angles modulo 2 pi, hyperbolic anomalies as numbers)
                            vec = from_cart(form, rv, mu)
                            back2 = to_cart(form, vec, mu)
                            er2 = np.linalg.norm(back2[:3] - rv[:3]) / rn + np.linalg.norm(back2[3:] - rv[3:]) / vn
                            assert er2 < 1e-11 * cond, ("from_cart", form, e, i, M, er2)
                            for j, (x, y) in enumerate(zip(six, vec)):
                                if j in ANGLES[form] and not (e > 1 and HYP_LINEAR.get(form) == j):
                                    d = abs(wrap(x - y))
                                    tol = 1e-11 * cond * max(1.0, 1 / e, 1 / math.sin(i))
                                else:
                                    d = abs(x - y)
                                    tol = 1e-11 * cond * max(abs(x), abs(y), 1e-300) * (max(1.0, 1 / e) if e > 1 and HYP_LINEAR.get(form) == j else 1.0)
                                    if form in ("keplerian_circular", "keplerian_mean_circular", "equinoctial") and j in (1, 2, 3, 4):
                                        tol = 1e-11 * cond * max(e, 1.0)
                                        if form == "equinoctial" and j in (3, 4):
                                            tol *= 1 + math.tan(i / 2) ** 2  # d tan(i/2)/di near i = pi
                                assert d <= tol, ("routes", form, j, e, i, M, x, y, d, tol)
                        # derived quantities: two formulations
                        inf = infos_ref(rv, mu)
                        assert abs(inf["rp"] / rp - 1) < 1e-11 * cond
                        assert abs(inf["v"] ** 2 / (mu * (2 / inf["r"] - 1 / a)) - 1) < 1e-10 * cond
                        assert abs(inf["cos_fpa"] ** 2 + inf["sin_fpa"] ** 2 - 1) < 1e-12
                        if e > 1:
                            b = abs(a) * math.sqrt(e * e - 1)
                            assert abs(inf["dinf"] / b - 1) < 1e-10 * cond
                            assert abs(inf["vinf"] / math.sqrt(mu / abs(a)) - 1) < 1e-10 * cond
                        else:
                            assert abs(inf["ra"] / (a * (1 + e)) - 1) < 1e-10 * cond
    return worst


if __name__ == "__main__":
    print("forms_ref selftest worst (rel err / cond)", selftest())
