"""Reference model of a state vector as a plain immutable value (used by C15).

A model object is a dict of immutable values only:

    cls    "StateVector" | "Orbit"
    form   name of the element form
    frame  name of the frame
    coords 6-tuple of floats, expressed in (form, frame)
    meta   tuple of sorted (key, value) pairs (free metadata)
    mans   tuple of maneuver tuples (type, date, dv 3-tuple, frame, comment, duration)
    cov    None | (frame name, 36-tuple row major)
    prop   None | class name of the propagator

and every operation returns a NEW dict ("the obvious rule").  Form conversions are written from the textbook
definitions (classical elements through mc.ref.twobody, spherical through the local unit vectors); frame conversions
apply a 6x6 matrix supplied by the caller (data).  Nothing of beyond.orbits is imported here.
"""

import math

import numpy as np

from . import twobody

FORMS = ("cartesian", "keplerian", "spherical")


def cart_to_sph(c):
    x, y, z, vx, vy, vz = c
    rho = math.hypot(x, y)
    r = math.sqrt(x * x + y * y + z * z)
    th = math.atan2(y, x)
    ph = math.atan2(z, rho)
    er = (x / r, y / r, z / r)
    et = (-math.sin(th), math.cos(th), 0.0)
    ep = (-math.sin(ph) * math.cos(th), -math.sin(ph) * math.sin(th), math.cos(ph))
    v = (vx, vy, vz)
    dot = lambda a, b: a[0] * b[0] + a[1] * b[1] + a[2] * b[2]
    return (r, th, ph, dot(v, er), dot(v, et) / rho, dot(v, ep) / r)


def sph_to_cart(c):
    r, th, ph, rd, thd, phd = c
    er = (math.cos(ph) * math.cos(th), math.cos(ph) * math.sin(th), math.sin(ph))
    et = (-math.sin(th), math.cos(th), 0.0)
    ep = (-math.sin(ph) * math.cos(th), -math.sin(ph) * math.sin(th), math.cos(ph))
    vt = r * math.cos(ph) * thd
    vp = r * phd
    return tuple(r * er[k] for k in range(3)) + tuple(rd * er[k] + vt * et[k] + vp * ep[k] for k in range(3))


def to_cart(coords, form, mu):
    if form == "cartesian":
        return tuple(float(v) for v in coords)
    if form == "keplerian":
        return tuple(float(v) for v in twobody.kep_to_cart(*coords, mu))
    if form == "spherical":
        return sph_to_cart(coords)
    raise ValueError(form)


def from_cart(cart, form, mu):
    if form == "cartesian":
        return tuple(float(v) for v in cart)
    if form == "keplerian":
        k = twobody.cart_to_kep(np.array(cart, dtype=float), mu)
        return (float(k["a"]), float(k["e"]), float(k["i"]), float(k["Om"]), float(k["w"]), float(k["nu"]))
    if form == "spherical":
        return cart_to_sph(cart)
    raise ValueError(form)


def convert_form(coords, f_from, f_to, mu):
    if f_from == f_to:
        return tuple(float(v) for v in coords)
    return from_cart(to_cart(coords, f_from, mu), f_to, mu)


def rotate_state(cart, m6):
    return tuple(float(v) for v in np.asarray(m6, dtype=float) @ np.array(cart, dtype=float))


def rotate_cov(values36, m6):
    c = np.array(values36, dtype=float).reshape(6, 6)
    m = np.asarray(m6, dtype=float)
    return tuple(float(v) for v in (m @ c @ m.T).flatten())


def new(cls, form, frame, coords, meta=(), mans=(), cov=None, prop=None):
    return dict(cls=cls, form=form, frame=frame, coords=tuple(float(v) for v in coords), meta=tuple(sorted(meta)),
                mans=tuple(mans), cov=cov, prop=prop)


def with_(m, **kw):
    d = dict(m)
    d.update(kw)
    return d


def set_form(m, f, mu):
    return with_(m, form=f, coords=convert_form(m["coords"], m["form"], f, mu))


def set_frame(m, frame, fmap, mu):
    """fmap(a, b) -> 6x6 matrix mapping a cartesian state from frame a to frame b.
    A covariance expressed in the state's frame follows the state."""
    if frame == m["frame"]:
        return dict(m)
    m6 = fmap(m["frame"], frame)
    cart = rotate_state(to_cart(m["coords"], m["form"], mu), m6)
    cov = m["cov"]
    if cov is not None and cov[0] == m["frame"]:
        cov = (frame, rotate_cov(cov[1], m6))
    return with_(m, frame=frame, coords=from_cart(cart, m["form"], mu), cov=cov)


def write(m, index, value):
    c = list(m["coords"])
    c[index] = float(value)
    return with_(m, coords=tuple(c))


def set_meta(m, key, value):
    d = dict(m["meta"])
    d[key] = value
    return with_(m, meta=tuple(sorted(d.items())))


def sig3(v):
    """Deterministic, idempotent small perturbation: round to 3 significant digits."""
    return float("%.3g" % v)


def selftest():
    mu = 3.986004418e14
    rv = (-4.1e6, 5.2e6, 1.9e6, -4.7e3, -4.9e3, 3.3e3)
    # inverse pairs
    for f in FORMS:
        back = to_cart(from_cart(rv, f, mu), f, mu)
        err = max(abs(a - b) / (7e6 if k < 3 else 7e3) for k, (a, b) in enumerate(zip(back, rv)))
        if err > 1e-13:
            raise AssertionError(f"svmodel {f} round trip {err}")
    # spherical: second formulation (finite differences of the angles along a straight line)
    h = 1e-3
    p0 = cart_to_sph(rv)
    p1 = cart_to_sph(tuple(rv[k] + h * rv[k + 3] for k in range(3)) + rv[3:])
    m1 = cart_to_sph(tuple(rv[k] - h * rv[k + 3] for k in range(3)) + rv[3:])
    for k in range(3):
        fd = (p1[k] - m1[k]) / (2 * h)
        if abs(fd - p0[k + 3]) > 1e-6 * max(1.0, abs(p0[k + 3])):
            raise AssertionError(f"svmodel spherical rate {k}: {fd} vs {p0[k+3]}")
    # frame rule: rotation about z by 0.3 rad, covariance follows iff in the state's frame
    c, s = math.cos(0.3), math.sin(0.3)
    r3 = np.array([[c, s, 0], [-s, c, 0], [0, 0, 1.0]])
    m6 = np.zeros((6, 6))
    m6[:3, :3] = r3
    m6[3:, 3:] = r3
    fmap = lambda a, b: m6 if (a, b) == ("A", "B") else m6.T
    cov = ("A", tuple(np.diag([1.0, 2, 3, 4, 5, 6]).flatten()))
    m = new("StateVector", "keplerian", "A", from_cart(rv, "keplerian", mu), cov=cov)
    m2 = set_frame(set_frame(m, "B", fmap, mu), "A", fmap, mu)
    if m2["cov"][0] != "A" or max(abs(a - b) for a, b in zip(m2["cov"][1], cov[1])) > 1e-14:
        raise AssertionError("svmodel covariance does not follow the state")
    e = max(abs(a - b) / (abs(b) + 1e-9) for a, b in zip(m2["coords"], m["coords"]))
    if e > 1e-12:
        raise AssertionError(f"svmodel frame round trip {e}")
    m3 = set_frame(with_(m, cov=("Z", cov[1])), "B", fmap, mu)
    if m3["cov"] != ("Z", cov[1]):
        raise AssertionError("svmodel covariance in another frame must not move")
    if sig3(sig3(6923456.7)) != sig3(6923456.7) or sig3(6923456.7) != 6920000.0:
        raise AssertionError("sig3")
