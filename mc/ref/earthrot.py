"""Reference Earth-rotation model, written from the IERS / textbook definitions.

Independent of beyond's code paths: plain math/numpy.  Only *data* comes from
outside (IERS finals files, tai-utc.dat, the IAU-1980 nutation coefficient
table) and is read with the fixed-column / whitespace readers below.

Conventions
* R1, R2, R3 are the usual *frame* (passive) rotations of the IERS Conventions:
  R3(a) turns the axes by +a about z, so a fixed vector's components become
  (x cos a + y sin a, -x sin a + y cos a, z).
* An instant is given as (mjd, sod): integer UTC day number and seconds of that
  day; every other scale is derived from it by adding table offsets.  Day
  fractions are split from the integer day before any multiplication, so the
  angles below are good to ~1e-12 rad (the library goes through a Julian Date
  double: 4.7e-10 d = 40 us -> 2.9e-9 rad of Earth rotation).
* EOP values are those of the UTC day containing the instant (no
  interpolation) - the convention of the library's SimpleEopDatabase, which is
  a data-selection rule and not a formula.
"""

import math
import os

import numpy as np

TWO_PI = 2.0 * math.pi
ARCSEC = math.pi / 648000.0
OMEGA_EARTH = 7.292115146706979e-5  # rad per UT1 second (2 pi * 1.00273781191135448 / 86400)
TT_MINUS_TAI = 32.184
MJD_J2000 = 51544.5
# IERS Gazette 13: the two "kinematic" terms of the equation of the equinoxes are used from 1997-02-27 0h UTC
MJD_EQE_KINEMATIC = 50506

# ---------------------------------------------------------------------------
# rotation utilities


def R1(a):
    c, s = math.cos(a), math.sin(a)
    return np.array([[1.0, 0.0, 0.0], [0.0, c, s], [0.0, -s, c]])


def R2(a):
    c, s = math.cos(a), math.sin(a)
    return np.array([[c, 0.0, -s], [0.0, 1.0, 0.0], [s, 0.0, c]])


def R3(a):
    c, s = math.cos(a), math.sin(a)
    return np.array([[c, s, 0.0], [-s, c, 0.0], [0.0, 0.0, 1.0]])


def skew(w):
    return np.array([[0.0, -w[2], w[1]], [w[2], 0.0, -w[0]], [-w[1], w[0], 0.0]])


def vee(S):
    """Axial vector of the antisymmetric part of S."""
    return 0.5 * np.array([S[2, 1] - S[1, 2], S[0, 2] - S[2, 0], S[1, 0] - S[0, 1]])


def rot_angle(R):
    """Rotation angle of a (nearly) proper rotation matrix, accurate for small angles."""
    s = float(np.linalg.norm(vee(np.asarray(R, dtype=float))))
    c = 0.5 * (float(np.trace(R)) - 1.0)
    return math.atan2(s, c)


def rot_diff(A, B):
    """Angle of the rotation taking B to A."""
    return rot_angle(np.asarray(A, dtype=float) @ np.asarray(B, dtype=float).T)


def orth_error(R):
    R = np.asarray(R, dtype=float)
    return float(np.max(np.abs(R @ R.T - np.eye(3))))


def wrap_pi(a):
    """Angle reduced to [-pi, pi)."""
    return (a + math.pi) % TWO_PI - math.pi


def z_angle(R):
    """For a rotation about z written R3(a): returns a in (-pi, pi]."""
    return math.atan2(R[0, 1] - R[1, 0], R[0, 0] + R[1, 1])


# ---------------------------------------------------------------------------
# data readers (IERS "finals" fixed columns, USNO tai-utc.dat)


def _fld(line, a, b):
    """Fortran-style field: columns a..b (1-based, inclusive); None when blank."""
    s = line[a - 1 : b].strip()
    if not s:
        return None
    return float(s)


class IersTable:
    """finals.all (IAU1980: dPsi, dEps) and finals2000A.all (IAU2000: dX, dY), Bulletin A columns.

    Column layout from the IERS `readme.finals`:
      8-15 MJD | 19-27 PM-x ["] | 38-46 PM-y ["] | 59-68 UT1-UTC [s] | 80-86 LOD [ms]
      98-106 dPsi or dX [mas] | 117-125 dEps or dY [mas]
    """

    def __init__(self, folder, kind="all"):
        self.rows = {}
        a = self._read(os.path.join(folder, f"finals.{kind}"))
        b = self._read(os.path.join(folder, f"finals2000A.{kind}"))
        for mjd, r in a.items():
            r2 = b.get(mjd)
            if r2 is None:
                continue
            self.rows[mjd] = dict(
                x=r["x"], y=r["y"], ut1_utc=r["ut1_utc"], lod=r["lod"], dpsi=r["c1"], deps=r["c2"], dx=r2["c1"], dy=r2["c2"]
            )

    @staticmethod
    def _read(path):
        out = {}
        with open(path, encoding="ascii") as f:
            for line in f:
                line = line.rstrip("\n")
                m = _fld(line, 8, 15)
                if m is None:
                    continue
                x, y, u = _fld(line, 19, 27), _fld(line, 38, 46), _fld(line, 59, 68)
                if x is None or y is None or u is None:
                    continue
                out[int(round(m))] = dict(
                    x=x, y=y, ut1_utc=u, lod=_fld(line, 80, 86), c1=_fld(line, 98, 106), c2=_fld(line, 117, 125)
                )
        return out

    def get(self, mjd):
        """Record of the UTC day `mjd` (int); KeyError outside the table."""
        return self.rows[int(mjd)]

    def span(self):
        k = sorted(self.rows)
        return k[0], k[-1]


class LeapSeconds:
    """tai-utc.dat:  ' 1972 JUL  1 =JD 2441499.5  TAI-UTC=  11.0       S + (MJD - 41317.) X 0.0      S'"""

    def __init__(self, path):
        self.rows = []
        with open(path, encoding="ascii") as f:
            for line in f:
                if "TAI-UTC=" not in line:
                    continue
                jd = float(line.split("=JD")[1].split()[0])
                rest = line.split("TAI-UTC=")[1]
                a = float(rest.split("S")[0])
                b = float(rest.split("(MJD -")[1].split(")")[0])
                c = float(rest.split("X")[1].split("S")[0])
                self.rows.append((jd - 2400000.5, a, b, c))
        self.rows.sort()

    def tai_utc(self, mjd_utc):
        val = None
        for start, a, b, c in self.rows:
            if start <= mjd_utc:
                val = a + (mjd_utc - b) * c
        if val is None:
            raise KeyError(mjd_utc)
        return val


class Eop:
    """Plain record: arcsec, arcsec, s, ms, mas, mas, mas, mas, s."""

    def __init__(self, x=0.0, y=0.0, ut1_utc=0.0, lod=0.0, dpsi=0.0, deps=0.0, dx=0.0, dy=0.0, tai_utc=0.0):
        self.x, self.y, self.ut1_utc, self.lod = x, y, ut1_utc, lod
        self.dpsi, self.deps, self.dx, self.dy, self.tai_utc = dpsi, deps, dx, dy, tai_utc


# ---------------------------------------------------------------------------
# time arguments


def centuries(mjd, sod, offset=0.0):
    """Julian centuries from J2000.0 of the instant (mjd, sod + offset) in its own scale."""
    return ((mjd - 51544) + ((sod + offset) / 86400.0 - 0.5)) / 36525.0


def _split_day(mjd, sod, offset):
    """(whole days from J2000 noon as float D, fraction f) with D + f = days from J2000.0 in the offset scale."""
    s = sod + offset
    k = math.floor(s / 86400.0)
    s -= 86400.0 * k
    D = (mjd + k) - 51544
    f = s / 86400.0 - 0.5
    return float(D), f


def era2000(mjd, sod, ut1_utc):
    """Earth rotation angle (IERS Conventions 2010 eq. 5.15), radians in [0, 2 pi)."""
    D, f = _split_day(mjd, sod, ut1_utc)
    tu = D + f
    turns = 0.7790572732640 + 0.00273781191135448 * tu + (f % 1.0)
    return TWO_PI * (turns % 1.0)


def gmst82(mjd, sod, ut1_utc):
    """Greenwich mean sidereal time, IAU 1982 (Aoki et al.), radians in [0, 2 pi).

    GMST = 67310.54841 s + (876600 h + 8640184.812866 s) T + 0.093104 T^2 - 6.2e-6 T^3, T in UT1 centuries;
    876600 h * T is exactly one turn per UT1 day, so only the day fraction of it is kept.
    """
    D, f = _split_day(mjd, sod, ut1_utc)
    T = (D + f) / 36525.0
    sec = 67310.54841 + 8640184.812866 * T + 0.093104 * T * T - 6.2e-6 * T**3 + 86400.0 * (f % 1.0)
    return TWO_PI * ((sec / 86400.0) % 1.0)


def gmst82_0h(mjd, sod, ut1_utc):
    """Second formulation: GMST at 0h UT1 plus the sidereal/solar ratio times UT1 (Explanatory Supplement 2.24)."""
    s = sod + ut1_utc
    k = math.floor(s / 86400.0)
    s -= 86400.0 * k
    T0 = ((mjd + k) - 51544.5) / 36525.0
    g0 = 24110.54841 + 8640184.812866 * T0 + 0.093104 * T0 * T0 - 6.2e-6 * T0**3
    ratio = 1.002737909350795 + 5.9006e-11 * T0 - 5.9e-15 * T0 * T0
    return TWO_PI * (((g0 + ratio * s) / 86400.0) % 1.0)


def earth_rate(lod_ms):
    """Angular rate of the terrestrial frame w.r.t. the celestial one, rad per SI second."""
    return OMEGA_EARTH * (1.0 - (lod_ms / 1000.0) / 86400.0)


# ---------------------------------------------------------------------------
# IAU 1976 precession


def precession_angles_iau76(T):
    """zeta, theta, z in radians (Lieske 1977, from J2000.0 to date T in TT centuries)."""
    zeta = (2306.2181 + (0.30188 + 0.017998 * T) * T) * T
    theta = (2004.3109 - (0.42665 + 0.041833 * T) * T) * T
    z = (2306.2181 + (1.09468 + 0.018203 * T) * T) * T
    return zeta * ARCSEC, theta * ARCSEC, z * ARCSEC


def precession_iau76(T):
    """P with r_J2000 = P r_MOD(T) (Vallado eq. 3-89)."""
    zeta, theta, z = precession_angles_iau76(T)
    return R3(zeta) @ R2(-theta) @ R3(z)


def precession_iau76_elements(T):
    """Second formulation: the explicit direction cosines (Explanatory Supplement 3.21-8), transposed to MOD->J2000."""
    zeta, theta, z = precession_angles_iau76(T)
    cz, sz = math.cos(zeta), math.sin(zeta)
    ct, st = math.cos(theta), math.sin(theta)
    cZ, sZ = math.cos(z), math.sin(z)
    # J2000 -> date
    P = np.array(
        [
            [cZ * ct * cz - sZ * sz, -cZ * ct * sz - sZ * cz, -cZ * st],
            [sZ * ct * cz + cZ * sz, -sZ * ct * sz + cZ * cz, -sZ * st],
            [st * cz, -st * sz, ct],
        ]
    )
    return P.T


# ---------------------------------------------------------------------------
# IAU 1980 nutation (coefficients are data: IERS Conventions 1996 table 5.1)


def read_nutation_1980(path):
    """Rows (l, l', F, D, Om, A, A', B, B') with amplitudes in 0.1 mas (and 0.1 mas / century)."""
    rows = []
    with open(path, encoding="utf-8") as f:
        for line in f:
            line = line.strip()
            if not line or line.startswith("#"):
                continue
            p = line.split()
            if len(p) != 10:
                raise ValueError("unexpected nutation table line: " + line)
            rows.append(tuple(int(v) for v in p[:5]) + tuple(float(v) for v in p[6:10]))
    if len(rows) != 106:
        raise ValueError(f"IAU-1980 series has 106 terms, table gives {len(rows)}")
    return rows


def _dms(d, m, s):
    return (d * 3600.0 + m * 60.0 + s) * ARCSEC


def delaunay_1980(T):
    """l, l', F, D, Omega in radians (IERS Conventions 1996, ch. 5; 1r = 360 deg)."""
    r = TWO_PI
    l = _dms(134, 57, 46.733) + (1325 * r + _dms(198, 52, 2.633)) * T + (31.310 * T * T + 0.064 * T**3) * ARCSEC
    lp = _dms(357, 31, 39.804) + (99 * r + _dms(359, 3, 1.224)) * T + (-0.577 * T * T - 0.012 * T**3) * ARCSEC
    F = _dms(93, 16, 18.877) + (1342 * r + _dms(82, 1, 3.137)) * T + (-13.257 * T * T + 0.011 * T**3) * ARCSEC
    D = _dms(297, 51, 1.307) + (1236 * r + _dms(307, 6, 41.328)) * T + (-6.891 * T * T + 0.019 * T**3) * ARCSEC
    Om = _dms(125, 2, 40.280) - (5 * r + _dms(134, 8, 10.539)) * T + (7.455 * T * T + 0.008 * T**3) * ARCSEC
    return l, lp, F, D, Om


def mean_obliquity_1980(T):
    return (84381.448 - 46.8150 * T - 0.00059 * T * T + 0.001813 * T**3) * ARCSEC


def nutation_angles_1980(T, table, nterms=None):
    """(eps_bar, dpsi, deps) in radians."""
    args = delaunay_1980(T)
    dpsi = deps = 0.0
    for row in table[: nterms or len(table)]:
        a = sum(k * x for k, x in zip(row[:5], args))
        dpsi += (row[5] + row[6] * T) * math.sin(a)
        deps += (row[7] + row[8] * T) * math.cos(a)
    unit = 1e-4 * ARCSEC
    return mean_obliquity_1980(T), dpsi * unit, deps * unit


def nutation_matrix(eps_bar, dpsi, deps):
    """N with r_MOD = N r_TOD (Vallado eq. 3-86)."""
    return R1(-eps_bar) @ R3(dpsi) @ R1(eps_bar + deps)


def nutation_matrix_first_order(eps_bar, dpsi, deps):
    """Second formulation (Explanatory Supplement 3.222-4, transposed), good to ~1e-8."""
    c, s = math.cos(eps_bar), math.sin(eps_bar)
    N_mod_to_tod = np.array([[1.0, -dpsi * c, -dpsi * s], [dpsi * c, 1.0, -deps], [dpsi * s, deps, 1.0]])
    return N_mod_to_tod.T


def eq_equinox_1982(T, mjd_utc, eps_bar, dpsi):
    """Equation of the equinoxes (IAU 1982, plus the 1994 kinematic terms from 1997-02-27), radians."""
    eq = dpsi * math.cos(eps_bar)
    if mjd_utc >= MJD_EQE_KINEMATIC:
        Om = delaunay_1980(T)[4]
        eq += (0.00264 * math.sin(Om) + 0.000063 * math.sin(2 * Om)) * ARCSEC
    return eq


def nutation_truncation_bound(T, table, kept):
    """Upper bound of |dpsi(all terms) - dpsi(first `kept` terms)| in radians."""
    return sum(abs(r[5]) + abs(r[6] * T) for r in table[kept:]) * 1e-4 * ARCSEC


def slow_rates(T, table, half_step_s=600.0):
    """Magnitudes (rad/s) at TT century T of: the angular velocity of the mean-of-date axes w.r.t. J2000 (precession),
    of the true-of-date axes w.r.t. the mean-of-date ones (nutation), and of the equation of the equinoxes (largest of
    the 106-term and the 4-term series; kinematic terms are 1e-16 rad/s).  Central differences (relative error ~
    (half_step x fastest nutation frequency)^2 < 1e-4).  Any frame "of date" of the 1980 chain turns, w.r.t. the
    inertial frames, at no more than the sum of the three (triangle inequality)."""
    d = half_step_s / (86400.0 * 36525.0)

    def N(t):
        return nutation_matrix(*nutation_angles_1980(t, table))

    out = []
    for M in (precession_iau76, N):
        W = (M(T + d) - M(T - d)) / (2.0 * half_step_s) @ M(T).T
        out.append(float(np.linalg.norm(vee(W))))

    def eqe(t, n):
        eb, dp, _ = nutation_angles_1980(t, table, n)
        return dp * math.cos(eb)

    out.append(max(abs(eqe(T + d, n) - eqe(T - d, n)) / (2.0 * half_step_s) for n in (4, None)))
    return tuple(out)


# ---------------------------------------------------------------------------
# polar motion, frame bias


def polar_motion_2010(xp, yp, T):
    """W with r_TIRS = W r_ITRS: W = R3(-s') R2(xp) R1(yp) (IERS Conventions 2010 eq. 5.3); xp, yp in radians."""
    sp = -47e-6 * T * ARCSEC
    return R3(-sp) @ R2(xp) @ R1(yp)


def polar_motion_1980(xp, yp):
    """r_PEF = R1(yp) R2(xp) r_ITRF (Vallado eq. 3-77 transposed to this direction)."""
    return R1(yp) @ R2(xp)


XI0 = -0.0166170 * ARCSEC
ETA0 = -0.0068192 * ARCSEC
DALPHA0 = -0.01460 * ARCSEC


def frame_bias():
    """B with r_(mean equator and equinox J2000) = B r_GCRS (IERS Conventions 2003 eq. 5.?; Kaplan, USNO Circ. 179 eq. 3.3)."""
    return R1(-ETA0) @ R2(XI0) @ R3(DALPHA0)


# ---------------------------------------------------------------------------
# assembled reference: all edges of the 1980 chain + the CIO sidereal edge


class EarthRotation:
    """All reference rotations at one UTC instant for one EOP record (data)."""

    def __init__(self, mjd, sod, eop, nut_table):
        self.mjd, self.sod, self.eop = mjd, sod, eop
        self.T_tt = centuries(mjd, sod, eop.tai_utc + TT_MINUS_TAI)
        self.era = era2000(mjd, sod, eop.ut1_utc)
        self.gmst = gmst82(mjd, sod, eop.ut1_utc)
        self.eps_bar, self.dpsi, self.deps = nutation_angles_1980(self.T_tt, nut_table)
        self.eqe = eq_equinox_1982(self.T_tt, mjd, self.eps_bar, self.dpsi)
        self.gast = (self.gmst + self.eqe) % TWO_PI
        self.rate = earth_rate(eop.lod) if eop.lod is not None else None  # LOD blank in prediction rows
        self.trunc4 = nutation_truncation_bound(self.T_tt, nut_table, 4) * math.cos(self.eps_bar) + (
            (0.00264 + 0.000063) * ARCSEC if mjd >= MJD_EQE_KINEMATIC else 0.0
        )

    # each returns the 3x3 matrix M with r_target = M r_source
    def MOD_to_EME2000(self):
        return precession_iau76(self.T_tt)

    def TOD_to_MOD(self):
        return nutation_matrix(self.eps_bar, self.dpsi, self.deps)

    def PEF_to_TOD(self):
        return R3(-self.gast)

    def PEF_to_TEME(self):
        return R3(-self.gmst)

    def ITRF_to_PEF(self):
        return polar_motion_1980(self.eop.x * ARCSEC, self.eop.y * ARCSEC)

    def ITRF_to_TIRF(self):
        return polar_motion_2010(self.eop.x * ARCSEC, self.eop.y * ARCSEC, self.T_tt)

    def TIRF_to_CIRF(self):
        return R3(-self.era)

    def ITRF_to_EME2000(self):
        return self.MOD_to_EME2000() @ self.TOD_to_MOD() @ self.PEF_to_TOD() @ self.ITRF_to_PEF()


# ---------------------------------------------------------------------------


def selftest():
    # rotations: proper, composition about one axis adds, inverse is transpose
    for R in (R1, R2, R3):
        A = R(0.3) @ R(0.4)
        assert np.allclose(A, R(0.7), atol=1e-15)
        assert orth_error(R(1.234)) < 1e-15 and abs(np.linalg.det(R(1.234)) - 1) < 1e-15
        assert abs(rot_angle(R(1e-9)) - 1e-9) < 1e-20
        assert abs(rot_angle(R(2.5)) - 2.5) < 1e-14
    # frame rotation sense: R3(a) applied to the x unit vector gives (cos a, -sin a, 0)
    v = R3(0.1) @ np.array([1.0, 0, 0])
    assert abs(v[1] + math.sin(0.1)) < 1e-16
    assert abs(z_angle(R3(-2.0)) + 2.0) < 1e-15
    w = np.array([0.1, -0.2, 0.3])
    assert np.allclose(skew(w) @ np.array([1.0, 2, 3]), np.cross(w, [1.0, 2, 3]))
    assert np.allclose(vee(skew(w)), w)

    # GMST-82: two formulations, and the defining value at J2000.0 (18h 41m 50.54841s)
    for mjd, sod, du in ((51544, 43200.0, 0.0), (41684, 12345.678, 0.8084136), (57753, 86370.0, -0.4), (53101, 28288.386009, -0.4399519)):
        a, b = gmst82(mjd, sod, du), gmst82_0h(mjd, sod, du)
        assert abs(wrap_pi(a - b)) < 1e-11, (a, b)
    assert abs(gmst82(51544, 43200.0, 0.0) - TWO_PI * (18 * 3600 + 41 * 60 + 50.54841) / 86400.0) < 1e-13
    # Vallado example 3-5: 1992-08-20 12:14 UT1 -> GMST = 152.578787810 deg (published value computed through a
    # Julian Date double: 40 us = 1.7e-7 deg)
    g = gmst82(48854, 12 * 3600 + 14 * 60.0, 0.0)
    assert abs(math.degrees(g) - 152.578787810) < 2e-7, math.degrees(g)
    # ERA: value at J2000.0, rate of one sidereal turn, relation GMST - ERA = accumulated precession (4612.16"/cy * t)
    assert abs(era2000(51544, 43200.0, 0.0) - TWO_PI * 0.7790572732640) < 1e-14
    d = wrap_pi(era2000(51545, 43200.0, 0.0) - era2000(51544, 43200.0, 0.0))
    assert abs(d - TWO_PI * 0.00273781191135448) < 1e-13
    for mjd in (44239, 51544, 57388):
        t = centuries(mjd, 43200.0)
        diff = wrap_pi(gmst82(mjd, 43200.0, 0.0) - era2000(mjd, 43200.0, 0.0))
        # (GMST-2006 polynomial; GMST-82 differs by the IAU-2000 precession-rate correction, ~0.28"/cy)
        assert abs(diff - (0.014506 + 4612.15739966 * t + 1.39667721 * t * t) * ARCSEC) < (0.02 + 0.4 * abs(t)) * ARCSEC, (mjd, diff)
    assert abs(OMEGA_EARTH - TWO_PI * 1.00273781191135448 / 86400.0) < 1e-18

    # precession: two formulations; pole drifts towards +x by 2004.3"/cy, y by -22.4" t^2; angle ~ sqrt(m^2+n^2) t
    for T in (-0.27, 0.0432, 0.17):
        P, Q = precession_iau76(T), precession_iau76_elements(T)
        assert np.max(np.abs(P - Q)) < 1e-15
        assert orth_error(P) < 1e-15
        pole = P @ np.array([0.0, 0, 1])
        assert abs(pole[0] / ARCSEC - 2004.3109 * T) < 0.5 * abs(T) + 1e-3
        assert abs(pole[1] / ARCSEC + 22.4 * T * T) < 0.1 * T * T + 1e-4
        assert abs(rot_angle(P) / ARCSEC - math.hypot(4612.4362, 2004.3109) * abs(T)) < 2.0 * T * T + 0.2 * abs(T)
    # Vallado example 3-15 (2004-04-06, T_TT = 0.0426236319): zeta, theta, z
    zeta, theta, z = precession_angles_iau76(0.0426236319)
    assert abs(math.degrees(zeta) - 0.0273055) < 1e-6 and abs(math.degrees(theta) - 0.0237306) < 1e-6
    assert abs(math.degrees(z) - 0.0273059) < 1e-6

    # nutation (needs the coefficient table, which is data of the tree under test)
    path = _nutation_table_path()
    if path:
        tab = read_nutation_1980(path)
        T = 0.0426236319
        eb, dp, de = nutation_angles_1980(T, tab)
        # Vallado example 3-15: dpsi = -0.0034108 deg, deps = 0.0020316 deg, eps_bar = 23.4387368 deg
        assert abs(math.degrees(dp) + 0.0034108) < 2e-7, math.degrees(dp)
        assert abs(math.degrees(de) - 0.0020316) < 2e-7, math.degrees(de)
        assert abs(math.degrees(eb) - 23.4387368) < 1e-6
        N = nutation_matrix(eb, dp, de)
        assert np.max(np.abs(N - nutation_matrix_first_order(eb, dp, de))) < 5e-9
        assert orth_error(N) < 1e-15
        # rate of the of-date axes: general precession 5029.1"/cy = 7.73e-12 rad/s, nutation adds at most ~8e-12
        for t in (-0.27, -0.075, 0.0, 0.0426236319, 0.165):
            rp, rn, re = slow_rates(t, tab)
            assert abs(rp - 5029.0966 * ARCSEC / (36525 * 86400.0)) < 2e-14, rp  # general precession
            assert rn < 1.2e-11 and re <= rn * 1.0001, (rn, re)  # dpsi' cos(eps) is one component of the nutation rate
        assert nutation_truncation_bound(T, tab, 0) > 17.0 * ARCSEC
        assert nutation_truncation_bound(T, tab, 4) < 0.6 * ARCSEC

    # frame bias: first-order form (Kaplan eq. 3.4); pole offset = constant terms of the CIP X, Y series
    B = frame_bias()
    B1 = np.array([[1, DALPHA0, -XI0], [-DALPHA0, 1, -ETA0], [XI0, ETA0, 1]])
    assert np.max(np.abs(B - B1)) < 1e-14
    assert orth_error(B) < 1e-15
    # polar motion: small-angle form; pole of the TIRS has ITRS coordinates (xp, -yp, 1)
    W = polar_motion_2010(1e-6, 2e-6, 0.1)
    assert np.allclose(W.T @ np.array([0, 0, 1.0]), [1e-6, -2e-6, 1.0], atol=1e-11)
    W8 = polar_motion_1980(1e-6, 2e-6)
    assert np.max(np.abs(W8 - polar_motion_2010(1e-6, 2e-6, 0.0))) < 1e-11

    # readers on the real files when available
    folder = _pole_folder()
    if folder:
        tb = IersTable(folder)
        r = tb.get(41684)
        assert (r["x"], r["y"], r["ut1_utc"], r["lod"]) == (0.120679, 0.137008, 0.8084136, 0.0)
        assert (r["dpsi"], r["deps"], r["dx"], r["dy"]) == (44.969, 2.839, -0.766, -0.720)
        r = tb.get(53101)  # 2004-04-06
        assert (r["x"], r["y"], r["ut1_utc"], r["lod"]) == (-0.140715, 0.33352, -0.4399519, 1.5244)
        ls = LeapSeconds(os.path.join(folder, "tai-utc.dat"))
        assert ls.tai_utc(41684) == 12.0 and ls.tai_utc(53101) == 32.0 and ls.tai_utc(57754) == 37.0 and ls.tai_utc(57753.99) == 36.0


def _repo():
    return os.environ.get("VERIF_REPO", "/repo")


def _nutation_table_path():
    p = os.path.join(_repo(), "beyond", "frames", "data", "tab5.1.txt")
    return p if os.path.exists(p) else None


def _pole_folder():
    p = "/repo/tests/data/pole"
    return p if os.path.exists(os.path.join(p, "finals.all")) else None


if __name__ == "__main__":
    selftest()
    print("earthrot selftest ok")
