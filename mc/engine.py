"""Exploration engine shared by all property harnesses.

A harness (props/cNN_*.py) exposes

    PROPERTY = "C20"
    DESIGN_REF = "DESIGN.md §4 C20"
    def units(tier, seed) -> list[Unit]          # work units, picklable
    def setup(config) -> None                    # called once per worker process (optional)
    def run_unit(payload, tally) -> None         # executes real library code, records into tally
    def replay(case, tally) -> None              # re-executes ONE recorded case (no explorer)
    RULE, ASSUMPTIONS, NOT_COVERED               # strings / lists for the evidence file

A Unit is (config, payload): all units with the same config are executed in
the same group of spawned worker processes (process-global library state such
as the EOP database or JPL kernels is configured once per process and never
changed afterwards).

Every execution is an execution of the real implementation; the engine never
samples: the set of units and the content of each unit is a deterministic
function of the tier only (VERIF_SEED merely rotates enumeration order and
which cases are written out as samples).
"""

import hashlib
import importlib
import json
import multiprocessing as mp
import os
import sys
import time
import traceback
from concurrent.futures import ProcessPoolExecutor, as_completed

MAX_SAMPLES = 40
MAX_FAILS_PER_SIG = 5


def h64(obj):
    """Stable 64-bit hash of a canonical (repr-able) object."""
    if not isinstance(obj, (bytes, bytearray)):
        obj = repr(obj).encode()
    return int.from_bytes(hashlib.blake2b(obj, digest_size=8).digest(), "big")


class Tally:
    """What one unit (or one whole run, after merging) covered and found."""

    def __init__(self):
        self.state_keys = set()  # 64-bit hashes of canonical states
        self.state_count = 0  # states counted by construction (disjoint across units)
        self.transitions = 0
        self.evaluations = 0
        self.nontrivial = set()
        self.outcomes = set()
        self.model_traces = 0
        self.failures = []  # dicts
        self.fail_counts = {}  # signature -> total count
        self.samples = []
        self.excluded = {}
        self.caps = []
        self.maxima = {}  # name -> (ratio to tolerance, case) observed maximum
        self.notes = {}
        self.lines = {}  # repo-relative file -> set of executed line numbers (coverage, sys.monitoring core)

    # -- recording -----------------------------------------------------------
    def state(self, key):
        self.state_keys.add(h64(key))

    def states_add(self, n):
        self.state_count += n

    def trans(self, n=1):
        self.transitions += n

    def ev(self, nontrivial_key=None, n=1):
        self.evaluations += n
        if nontrivial_key is not None:
            self.nontrivial.add(h64(nontrivial_key))

    def outcome(self, label):
        if len(self.outcomes) < 100000:
            self.outcomes.add(label if isinstance(label, (str, int)) else h64(label))

    def trace(self, n=1):
        self.model_traces += n

    def sample(self, case):
        if len(self.samples) < MAX_SAMPLES:
            self.samples.append(case)

    def exclude(self, reason, n=1):
        self.excluded[reason] = self.excluded.get(reason, 0) + n

    def cap(self, text):
        if text not in self.caps:
            self.caps.append(text)

    def margin(self, name, value, tol, case=None):
        """Record value/tol maximum for the tolerance-adequacy report; returns value <= tol."""
        try:
            r = float(value) / float(tol) if tol else float("inf") if value else 0.0
        except Exception:
            r = float("nan")
        cur = self.maxima.get(name)
        if cur is None or not (r <= cur[0]):
            self.maxima[name] = (r, case)
        return value <= tol

    def note(self, key, value):
        self.notes[key] = value

    def fail(self, signature, clause, case, expected=None, observed=None, detail=""):
        """Record one property violation.  `signature` identifies the failing
        pattern (call site / input class), `case` must be enough for replay()."""
        self.fail_counts[signature] = self.fail_counts.get(signature, 0) + 1
        if self.fail_counts[signature] <= MAX_FAILS_PER_SIG:
            self.failures.append(
                dict(
                    signature=signature,
                    clause=clause,
                    case=case,
                    expected=_js(expected),
                    observed=_js(observed),
                    detail=str(detail)[:2000],
                )
            )

    # -- merging -------------------------------------------------------------
    def merge(self, o):
        self.state_keys |= o.state_keys
        self.state_count += o.state_count
        self.transitions += o.transitions
        self.evaluations += o.evaluations
        self.nontrivial |= o.nontrivial
        self.outcomes |= o.outcomes
        self.model_traces += o.model_traces
        for s, n in o.fail_counts.items():
            self.fail_counts[s] = self.fail_counts.get(s, 0) + n
        kept = {}
        for f in self.failures:
            kept[f["signature"]] = kept.get(f["signature"], 0) + 1
        for f in o.failures:
            if kept.get(f["signature"], 0) < MAX_FAILS_PER_SIG:
                self.failures.append(f)
                kept[f["signature"]] = kept.get(f["signature"], 0) + 1
        for s in o.samples:
            self.sample(s)
        for k, n in o.excluded.items():
            self.exclude(k, n)
        for c in o.caps:
            self.cap(c)
        for k, v in o.maxima.items():
            cur = self.maxima.get(k)
            if cur is None or not (v[0] <= cur[0]):
                self.maxima[k] = v
        for f, ls in o.lines.items():
            self.lines.setdefault(f, set()).update(ls)
        for k, v in o.notes.items():
            if isinstance(v, (int, float)) and isinstance(self.notes.get(k), (int, float)):
                self.notes[k] += v
            else:
                self.notes[k] = v

    @property
    def states(self):
        return len(self.state_keys) + self.state_count


def _js(x):
    """Best-effort JSON-able rendering."""
    try:
        json.dumps(x)
        return x
    except Exception:
        pass
    try:
        import numpy as np

        if isinstance(x, np.ndarray):
            return [_js(v) for v in x.tolist()]
        if isinstance(x, (np.floating, np.integer)):
            return x.item()
    except Exception:
        pass
    if isinstance(x, dict):
        return {str(k): _js(v) for k, v in x.items()}
    if isinstance(x, (list, tuple, set, frozenset)):
        return [_js(v) for v in x]
    return repr(x)


# ---------------------------------------------------------------------------
# binding to the tree under test


def repo_path():
    return os.environ.get("VERIF_REPO", "/repo")


def bind_repo():
    """Make `import beyond` resolve to the tree under test and prove it."""
    repo = os.path.realpath(repo_path())
    if sys.path[0] != repo:
        sys.path.insert(0, repo)
    import beyond  # noqa

    got = os.path.realpath(os.path.dirname(beyond.__file__))
    if got != os.path.join(repo, "beyond"):
        raise RuntimeError(f"beyond imported from {got}, expected {repo}/beyond")
    return repo


def load_harness(pid):
    here = os.path.dirname(os.path.dirname(os.path.abspath(__file__)))
    if here not in sys.path:
        sys.path.insert(1, here)
    for fn in sorted(os.listdir(os.path.join(here, "props"))):
        if fn.lower().startswith(pid.lower() + "_") and fn.endswith(".py"):
            return importlib.import_module("props." + fn[:-3])
    raise SystemExit(f"no harness for {pid}")


# ---------------------------------------------------------------------------
# worker side

_W = {}


def _worker_init(pid, config):
    import warnings

    warnings.filterwarnings("ignore")
    repo = bind_repo()
    _W["repo"] = repo
    if os.environ.get("VERIF_COVERAGE", "1") != "0":
        # adequacy measurement: which lines of the library the exploration executes.  The sys.monitoring
        # core (python 3.12) has no measurable overhead; failures here never affect the verdict.
        try:
            os.environ.setdefault("COVERAGE_CORE", "sysmon")
            import coverage

            cov = coverage.Coverage(data_file=None, include=[os.path.join(repo, "beyond", "*")], config_file=False)
            cov.start()
            _W["cov"] = cov
        except Exception:
            _W["cov"] = None
    h = load_harness(pid)
    _W["h"] = h
    _W["config"] = config
    if hasattr(h, "setup"):
        h.setup(config)


def _worker_run(idx, payload):
    t = Tally()
    t0 = time.time()
    try:
        _W["h"].run_unit(payload, t)
        err = None
    except Exception:
        err = traceback.format_exc()
    # every failure remembers the unit that produced it: a violation that depends on what the process did
    # before (caches, shared state) cannot be replayed from its case alone, but can from its whole unit
    for f in t.failures:
        f.setdefault("unit", dict(config=_W.get("config"), payload=payload, prior=list(_W.setdefault("done", []))))
    _W.setdefault("done", []).append(payload)
    cov = _W.get("cov")
    if cov is not None:
        try:
            data = cov.get_data()
            pre = _W["repo"].rstrip("/") + "/"
            for f in data.measured_files():
                if f.startswith(pre):
                    t.lines[f[len(pre):]] = set(data.lines(f) or ())
        except Exception:
            pass
    return idx, t, err, time.time() - t0


def run_units(pid, units, nproc=None):
    """Execute all units; returns (merged Tally, list of harness errors)."""
    nproc = nproc or int(os.environ.get("VERIF_JOBS", "0")) or os.cpu_count() or 4
    groups = {}
    for i, (config, payload) in enumerate(units):
        groups.setdefault(json.dumps(config, sort_keys=True), []).append((i, payload))
    total = Tally()
    errors = []
    ctx = mp.get_context("spawn")
    pools = []
    futures = []
    # share the cores between the configuration groups proportionally
    n_units = sum(len(v) for v in groups.values())
    for cfg_key, items in groups.items():
        w = max(1, min(len(items), round(nproc * len(items) / n_units)))
        ex = ProcessPoolExecutor(
            max_workers=w,
            mp_context=ctx,
            initializer=_worker_init,
            initargs=(pid, json.loads(cfg_key)),
        )
        pools.append(ex)
        for i, payload in items:
            futures.append(ex.submit(_worker_run, i, payload))
    try:
        for fut in as_completed(futures):
            try:
                idx, t, err, dt = fut.result()
            except Exception as e:  # worker crash
                errors.append(f"worker crashed: {e!r}")
                continue
            total.merge(t)
            if err:
                errors.append(f"unit {idx}: {err}")
    finally:
        for ex in pools:
            ex.shutdown(wait=True, cancel_futures=True)
    return total, errors
