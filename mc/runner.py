"""Runner: ./check <ID> [--tier quick|thorough] [--replay FILE]

exit 0  property held on everything explored (KNOWN-FINDING lines possible)
exit 1  + "VIOLATION property=<id> replay=<path>"  for each unlisted violation
exit 2  harness error (never reported as a violation)
"""

import argparse
import fnmatch
import json
import os
import subprocess
import sys
import time

HERE = os.path.dirname(os.path.dirname(os.path.abspath(__file__)))
PY = "/venv/bin/python"


def _reexec_env():
    """Fixed interpreter environment: hash seed, no byte-code into /repo."""
    want = {
        "PYTHONHASHSEED": "0",
        "PYTHONDONTWRITEBYTECODE": "1",
        "OMP_NUM_THREADS": "1",
        "OPENBLAS_NUM_THREADS": "1",
        "MKL_NUM_THREADS": "1",
        "BEYOND_VERIF": "1",
    }
    if all(os.environ.get(k) == v for k, v in want.items()) and os.path.realpath(
        sys.executable
    ) == os.path.realpath(PY):
        return
    env = dict(os.environ)
    env.update(want)
    os.execve(PY, [PY, "-u", os.path.join(HERE, "mc", "runner.py")] + sys.argv[1:], env)


def load_known():
    p = os.path.join(HERE, "known_findings.json")
    if not os.path.exists(p):
        return []
    return json.load(open(p))["findings"]


def _sig_match(signature, pat):
    """Exact match, or '*' as the only wildcard (signatures contain '[', ']' and '?' literally)."""
    import re

    return re.fullmatch(".*".join(re.escape(x) for x in pat.split("*")), signature) is not None


def match_known(pid, signature, known):
    for k in known:
        if k["property"] == pid and k.get("status") == "open":
            if any(_sig_match(signature, pat) for pat in k["signatures"]):
                return k
    return None


def write_replay(pid, failure, mode="case"):
    """mode 'case': the recorded case alone is re-executed; mode 'unit': the whole unit that produced the failure is
    re-executed in a fresh process (for violations that depend on what the process did before the failing case)."""
    from mc.engine import h64

    d = os.path.join(HERE, "replays", pid)
    os.makedirs(d, exist_ok=True)
    rec = dict(property=pid, mode=mode, **failure)
    if mode == "case":
        rec.pop("unit", None)
    name = "%016x%s.json" % (h64(json.dumps([failure["signature"], failure["case"]], sort_keys=True, default=repr)), "" if mode == "case" else "-unit")
    path = os.path.join(d, name)
    with open(path, "w") as f:
        json.dump(rec, f, indent=1, default=repr)
    return path


def replay_subprocess(pid, path):
    """Run the replay in a separate fresh process; returns (reproduced, observation text)."""
    r = subprocess.run(
        [PY, "-u", os.path.join(HERE, "mc", "runner.py"), pid, "--replay", path, "--quiet"],
        capture_output=True,
        text=True,
        env=dict(os.environ),
        timeout=1800,
    )
    obs = [l for l in r.stdout.splitlines() if l.startswith("REPLAY-OBSERVED")]
    return r.returncode, "\n".join(obs), r.stdout + r.stderr


def do_replay(h, pid, path, quiet):
    from mc.engine import Tally, bind_repo

    bind_repo()
    rec = json.load(open(path))
    t = Tally()
    if rec.get("mode") == "unit":
        if hasattr(h, "setup"):
            h.setup(rec["unit"]["config"])
        for prior in rec["unit"].get("prior", []):  # what the worker had executed before, in order
            h.run_unit(prior, Tally())
        h.run_unit(rec["unit"]["payload"], t)
    else:
        if hasattr(h, "setup"):
            h.setup(rec["case"].get("config") if isinstance(rec["case"], dict) else None)
        h.replay(rec["case"], t)
    sigs = sorted(set(f["signature"] for f in t.failures))
    for f in t.failures:
        print(
            "REPLAY-OBSERVED signature=%s observed=%s"
            % (f["signature"], json.dumps(f["observed"], sort_keys=True, default=repr))
        )
    if rec["signature"] in sigs:
        if not quiet:
            print(f"replay reproduces {rec['signature']}: {rec.get('detail', '')}")
            print(f"VIOLATION property={pid} replay={path}")
        return 1
    if not quiet:
        print("replay: recorded violation NOT reproduced on this tree (observed: %s)" % sigs)
    return 0


def main():
    _reexec_env()
    sys.path.insert(0, HERE)
    ap = argparse.ArgumentParser()
    ap.add_argument("pid")
    ap.add_argument("--tier", default=os.environ.get("VERIF_TIER", "quick"), choices=["quick", "thorough"])
    ap.add_argument("--replay")
    ap.add_argument("--quiet", action="store_true")
    ap.add_argument("--jobs", type=int, default=0)
    a = ap.parse_args()
    pid = a.pid.upper()
    seed = int(os.environ.get("VERIF_SEED", "0") or 0)

    from mc import engine

    h = engine.load_harness(pid)
    if a.replay:
        sys.exit(do_replay(h, pid, a.replay, a.quiet))

    t0 = time.time()
    repo = engine.bind_repo()
    units = h.units(a.tier, seed)
    if seed:
        k = seed % max(1, len(units))
        units = units[k:] + units[:k]
    total, errors = engine.run_units(pid, units, a.jobs or None)
    wall = time.time() - t0

    known = load_known()
    # ---- classify failures ----------------------------------------------------
    new_by_sig, known_hits = {}, {}
    for f in total.failures:
        k = match_known(pid, f["signature"], known)
        if k is not None:
            known_hits.setdefault(k["id"], (k, []))[1].append(f)
        else:
            new_by_sig.setdefault(f["signature"], []).append(f)

    status = 0
    viol_lines = []
    # a violation is believed only if its replay reproduces identically twice
    for sig, fl in sorted(new_by_sig.items()):
        f = fl[0]
        path = write_replay(pid, f)
        rc1, o1, out1 = replay_subprocess(pid, path)
        rc2, o2, out2 = replay_subprocess(pid, path)
        if rc1 == 1 and rc2 == 1 and o1 == o2:
            viol_lines.append(
                f"VIOLATION property={pid} replay={path}   # {sig} x{total.fail_counts.get(sig)}: {f['clause']}: {f['detail'][:300]}"
            )
            continue
        # not reproducible from the case alone: does it depend on the process history? replay the whole unit
        upath = u1 = u2 = None
        if "unit" in f:
            upath = write_replay(pid, f, mode="unit")
            rcu1, u1, outu1 = replay_subprocess(pid, upath)
            rcu2, u2, outu2 = replay_subprocess(pid, upath)
        if upath and rcu1 == 1 and rcu2 == 1 and u1 == u2:
            viol_lines.append(
                f"VIOLATION property={pid} replay={upath}   # {sig} x{total.fail_counts.get(sig)} [history-dependent: reproduces only "
                f"after the preceding cases of its unit, in the same process]: {f['clause']}: {f['detail'][:300]}"
            )
        else:
            errors.append(
                f"violation {sig} did not replay deterministically (rc {rc1},{rc2}); treated as HARNESS ERROR\n{out1[-1500:]}\n{out2[-1500:]}"
            )

    for kid, (k, fl) in sorted(known_hits.items()):
        n = sum(total.fail_counts.get(s, 0) for s in set(f["signature"] for f in fl))
        print(f"KNOWN-FINDING: property={pid} {k['id']}: {k['what']} [observed {n} time(s) in this run]")
    for k in known:
        if k["property"] == pid and k.get("status") == "open" and k["id"] not in known_hits:
            print(f"note: listed finding {k['id']} was not observed in this run (tier {a.tier})")

    # ---- evidence -------------------------------------------------------------
    from mc.evidence import write_evidence

    write_evidence(h, pid, a.tier, seed, total, wall, len(viol_lines), known_hits, errors, repo, len(units))

    print(
        f"{pid} tier={a.tier} units={len(units)} states={total.states} transitions={total.transitions} "
        f"evaluations={total.evaluations} distinct_nontrivial={len(total.nontrivial)} outcomes={len(total.outcomes)} "
        f"excluded={sum(total.excluded.values())} wall={wall:.1f}s"
    )
    if total.maxima and not a.quiet:
        for k, (r, c) in sorted(total.maxima.items()):
            print(f"  margin {k}: max observed/tolerance = {r:.3g}")
    if total.caps:
        print("  caps hit:", total.caps)
    for l in viol_lines:
        print(l)
    if errors:
        for e in errors[:10]:
            print("HARNESS-ERROR:", e, file=sys.stderr)
        sys.exit(2)
    sys.exit(1 if viol_lines else 0)


if __name__ == "__main__":
    main()
