"""Evidence writer (schema: /root/.vp/EVIDENCE.schema.json, level model_checking)."""

import json
import os
import subprocess

HERE = os.path.dirname(os.path.dirname(os.path.abspath(__file__)))


def _git_head(path):
    try:
        return subprocess.run(
            ["git", "-C", path, "rev-parse", "HEAD"], capture_output=True, text=True, timeout=20
        ).stdout.strip()
    except Exception:
        return ""


def anchor_coverage(pid, t, repo):
    """Per anchored mechanism of the property: executable lines vs. lines executed by this run."""
    import re

    if not t.lines:
        return {}
    try:
        import coverage

        cov = coverage.Coverage(data_file=None, config_file=False)
        prop = [json.loads(l) for l in open(os.path.join(HERE, "properties.jsonl")) if json.loads(l)["id"] == pid][0]
    except Exception:
        return {}
    stm_cache = {}

    def statements(rel):
        if rel not in stm_cache:
            try:
                stm_cache[rel] = set(cov.analysis2(os.path.join(repo, rel))[1])
            except Exception:
                stm_cache[rel] = None
        return stm_cache[rel]

    out = {}
    for m in prop["anchors"]["mechanism"]:
        for part in m["where"].split(","):
            mm = re.match(r"\s*([\w/\.]+\.py)(?::(\d+)-(\d+))?", part)
            if not mm:
                continue
            rel, a, b = mm.group(1), mm.group(2), mm.group(3)
            st = statements(rel)
            if st is None:
                continue
            if a:
                st = {x for x in st if int(a) <= x <= int(b)}
            ex = st & t.lines.get(rel, set())
            miss = sorted(st - ex)
            out[f"{m['name']} [{part.strip()}]"] = dict(statements=len(st), executed=len(ex), missing_lines=miss[:60])
    return out


def write_evidence(h, pid, tier, seed, t, wall, n_viol, known_hits, errors, repo, n_units):
    samples = list(t.samples)
    if seed and samples:
        k = seed % len(samples)
        samples = samples[k:] + samples[:k]
    # prefer the richest cases as written-out samples (stable sort: seed rotation breaks ties)
    samples = sorted(samples, key=lambda s: -len(json.dumps(s, default=repr)))[:6]
    cov = dict(
        states=t.states,
        transitions=t.transitions,
        traces_validated_against_impl=t.model_traces or t.evaluations,  # every explored trace is an execution of the real implementation
        samples=samples or ["<no sample recorded>"],
        evaluations=t.evaluations,
        distinct_nontrivial=len(t.nontrivial),
        rule=getattr(h, "RULE", ""),
        exhaustive=not t.caps,
        distinct_observed_outcomes=len(t.outcomes),
        units=n_units,
        excluded_by_quantifier=t.excluded,
        caps_hit=t.caps,
        tolerance_margins={k: v[0] for k, v in sorted(t.maxima.items())},
        bounds=(getattr(h, "BOUNDS", {}) or {}).get(tier, ""),
        not_covered=getattr(h, "NOT_COVERED", ""),
        known_findings_observed=sorted(known_hits),
        violation_signatures={s: n for s, n in sorted(t.fail_counts.items())},
        harness_errors=len(errors),
        repo=repo,
        repo_head=_git_head(repo),
        notes=t.notes,
        anchored_code_line_coverage=anchor_coverage(pid, t, repo),
    )
    ev = dict(
        property_id=pid,
        tier=tier,
        seed=seed,
        level="model_checking",
        coverage=cov,
        assumptions=list(getattr(h, "ASSUMPTIONS", [])),
        wall_s=round(wall, 3),
        violations=n_viol,
    )
    # VERIF_EVIDENCE_DIR: only used by tools/run_seed.py so that runs against a mutated scratch tree
    # never overwrite the evidence of /repo itself
    d = os.environ.get("VERIF_EVIDENCE_DIR") or os.path.join(HERE, "evidence")
    os.makedirs(d, exist_ok=True)
    tmp = os.path.join(d, pid + ".json.tmp")
    with open(tmp, "w") as f:
        json.dump(ev, f, indent=1, default=repr)
        f.write("\n")
    os.replace(tmp, os.path.join(d, pid + ".json"))
