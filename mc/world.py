"""Snapshot / restore of beyond's process-global registries.

The library keeps frames in `frames.dynamic`, conversion methods as class
attributes `<a>_to_<b>` on Orientation / Center, and routing tables inside the
Node objects of the built-in orientations / centres.  A harness that
registers stations or orbit frames calls `snapshot()` once after import and
`restore(snap)` before each execution, so every execution starts from the
pristine world (explicit-state search rebuilds states by replaying histories).
"""

from collections import OrderedDict


def _nodes():
    from beyond.frames import orient, center

    nodes = [getattr(orient, n) for n in ("TEME", "PEF", "TOD", "MOD", "EME2000", "G50", "ITRF", "TIRF", "CIRF", "GCRF")]
    nodes.append(center.Earth.node)
    return nodes


def snapshot():
    from beyond.frames import frames, orient, center
    from beyond.utils.node import Route

    snap = {}
    snap["dynamic"] = dict(frames.dynamic)
    snap["orient_attrs"] = dict(vars(orient.Orientation))
    snap["center_attrs"] = dict(vars(center.Center))
    # transitive closure of nodes reachable from the built-ins (pristine world)
    seen, todo = [], list(_nodes())
    while todo:
        n = todo.pop()
        if any(n is s for s in seen):
            continue
        seen.append(n)
        todo.extend(n.neighbors)
    snap["nodes"] = [
        (n, list(n.neighbors), {k: (r.direction, r.steps) for k, r in n.routes.items()}, dict(vars(n)))
        for n in seen
    ]
    return snap


def restore(snap):
    from beyond.frames import frames, orient, center
    from beyond.utils.node import Route

    frames.dynamic.clear()
    frames.dynamic.update(snap["dynamic"])
    for cls, key in ((orient.Orientation, "orient_attrs"), (center.Center, "center_attrs")):
        saved = snap[key]
        for k in list(vars(cls)):
            if k not in saved:
                delattr(cls, k)
        for k, v in saved.items():
            if k.startswith("__") and k not in ("__doc__",):
                continue
            if vars(cls).get(k) is not v:
                try:
                    setattr(cls, k, v)
                except (AttributeError, TypeError):
                    pass
    for n, neigh, routes, attrs in snap["nodes"]:
        for k in list(vars(n)):
            if k not in attrs:
                delattr(n, k)
        for k, v in attrs.items():
            if k not in ("neighbors", "routes"):
                setattr(n, k, v)
        n.neighbors = OrderedDict((x, None) for x in neigh)
        n.routes = {k: Route(d, s) for k, (d, s) in routes.items()}
