"""C10 — event detection is sound, complete w.r.t. sampling, ordered and sharp.

Every element of a finite product  listener set x orbit x propagator x sampling step x call mode x
re-use history  is executed on the real propagators / Ephem with the real listener classes.  The output stream
is split into samples and events; the event list is *predicted* from the values of the watched functions on the
samples (sampling semantics), every event is checked for position, sharpness, label and order, Kepler events
are compared with closed-form crossing times (reference two-body model, reference conical shadow), station
visibility streams with an independent elevation computation, and streams obtained after arbitrary re-use
histories of the same listener objects with the stream of fresh objects.
"""

import itertools
import math

PROPERTY = "C10"
DESIGN_REF = "DESIGN.md §4 C10"
CLAIM = dict(
    text="For each of 24 listener configurations (all listener classes and options), alone, in every pair and all "
    "together, on LEO/SSO/GTO/Molniya orbits, with the Kepler, SGP4, numerical (KeplerNum) and Ephem speakers and "
    "sampling steps 30-600 s, the real iteration is executed and its stream is decided against a prediction built "
    "from the sampled values of the watched functions: no missing and no spurious event per (listener, step), event "
    "inside its step, watched quantity changing sign within 3 us (53 us for Earth-fixed quantities) around the "
    "event state, label = independently computed direction, chronological stream. Kepler-propagator events are "
    "compared with closed-form node/apsis/anomaly times (6 us) and with an independent conical umbra/penumbra model "
    "(0.01 s / 0.5 s, verbatim from the property); visibility streams with an independent geodetic elevation. "
    "Explicit-state part: all re-use histories (full / abandoned early / abandoned at an event / other range / "
    "other orbit) up to depth 2-3 before a final full iteration must reproduce the stream of fresh objects exactly.",
    note="Trusts mc/ref/twobody.py and mc/ref/shadow.py (self-tested), the library's Sun ephemeris, body radii, mu and "
    "frame conversions as DATA (the listeners' geometry itself is recomputed independently), and registry "
    "snapshot/restore (mc/world.py). Double crossings inside one sampling step are not events by the property's wording.",
    technique="exhaustive product over finite alphabets + explicit-state exploration of listener re-use histories on the real "
    "code; prediction from sampled watched functions; closed-form two-body and conical-shadow reference models",
)
RULE = (
    "case = (kind, orbit, propagator, step, call mode, listener set, history); one iteration of the real code per "
    "history element. A case is non-trivial when its stream contains at least one event (the listener fired); "
    "cases are distinct by their key. History alphabet: F full iteration, A2 abandoned after two items, Aev abandoned "
    "right after the first event, X full iteration over another range, O abandoned iteration of another orbit with the "
    "same listener objects; every history ends with F and is compared with the stream of fresh objects. 'weave' cases: scripts over "
    "create / half-consume / drain operations on two or three iterators (two satellites of one plane) sharing the listener objects, in "
    "every admissible order; each drained stream is compared with the stream of fresh objects (creating an iterator must be inert). "
    "'vis' cases with additional listeners: the stream must hold the above-horizon samples, the station's own events, and the additional "
    "events only when the independent elevation is >= 0."
)
BOUNDS = {
    "quick": "singles: 24 listeners x {ISS-like, Molniya} x {Kepler, Sgp4, KeplerNum, Ephem} x 2 steps (LEO 60/180 s, HEO 180/600 s) "
    "+ SSO/GTO under Kepler + SSO/Sgp4/600 s; pairs: all 276 pairs on ISS-like/Kepler/180 s; all-together on 4 orbits x 4 propagators; "
    "histories: depth<=1 prefixes for each single listener (ISS-like/Kepler), depth<=2 for a 6-listener set (Kepler, KeplerNum; depth<=1 Sgp4, Ephem); "
    "interleaved create/consume scripts (all admissible orders of create A, create B, [half A], drain A, drain B + 3 three-iterator scripts) "
    "x 4 propagators; a sample placed -1/0/+1 us from an event date (5 listeners x 4 propagators); visibility streams 11 worlds + 11 calls (ISS-like/Kepler/180 s) with "
    "additional listeners passed as events=<Listener>, events=[...], listeners=[...]+events=True, listeners=[...] only; span 2 revolutions "
    "(histories: 1)",
    "thorough": "singles: 24 x 4 orbits x 4 propagators x steps {30,60,180,600} (HEO: {60,180,600}) (+ call mode 'dates' at 180/600 s); "
    "pairs: 276 x 8 worlds (4 orbits, 4 propagators); all-together: 4 orbits x 4 propagators x 2 steps x 2 listener orders; histories: depth<=2 "
    "for each single listener, depth<=3 for the 6-listener set on 4 propagators (ISS-like) and depth<=2 (Molniya); aligned samples: 11 listeners x "
    "4 propagators x 2 orbits x events {0,1,2} x offsets -2..+2 us; interleaved create/consume scripts on 2 orbits x 4 propagators x 2 call modes; "
    "visibility: 4 orbits x 3 propagators x all steps + additional-listener calls on 6 worlds",
}
ASSUMPTIONS = [
    "sign rule at exact zeros: the reference is the three-valued sign (np.sign): an event is due iff sign(g(t_k)) != sign(g(t_k+1)) with "
    "sign(0) = 0, i.e. 0 -> 0 is no change and 0 <-> +-x is one; sharpness / labels / closed forms are not decided for the degenerate "
    "pairs (equatorial orbit, Node) and (circular orbit, Apside), whose watched function has no isolated transversal zero",
    "sampling semantics: an event of listener l is due in (t_k, t_k+1] iff sign g_l(t_k) != sign g_l(t_k+1) and the "
    "listener's documented gate holds at t_k+1 (anomaly: |diff|<2 rad i.e. not the +-pi wrap; mask/max/sight: above horizon, "
    "max: elevation not rising); gates are evaluated with an independent elevation model",
    "sharpness is evaluated on the emitted state itself, moved by +-W with the reference two-body flow "
    "(W = 3 us; 53 us for quantities involving Earth rotation, whose code path quantises time to ~40 us)",
    "closed forms: mu, radii and the Sun position are library data; Sun position interpolated (degree 6) between 7 library values",
    "EOP policy 'pass' (zero corrections); stations on a WGS84 ellipsoid (beyond.constants.Earth r, f as data)",
]
NOT_COVERED = (
    "double crossings inside one sampling step (excluded by the property), sharpness / labels where the watched function is identically zero or pure round-off (equatorial Node, circular Apside), "
    "listeners on non-Earth centres / JPL bodies, steps outside 30-600 s, hyperbolic orbits, more than 2 revolutions, "
    "closed-form times for Node(ITRF)/Terminator/station events (only sampling semantics, sharpness, labels)"
)

EPOCH = (2018, 3, 20, 12, 0, 0)
# a [m], e, i, RAAN, argp, M0 [deg]  (mean anomaly at EPOCH)
ORBITS = {
    "iss": (6778137.0, 0.0012, 51.6, 30.0, 40.0, 17.0),
    "sso": (7078137.0, 0.001, 98.19, 10.0, 70.0, 200.0),
    "gto": (24396137.0, 0.7283, 7.0, 30.0, 330.0, 100.0),
    "mol": (26554000.0, 0.72, 63.4, 350.0, 270.0, 10.0),
}
ALT_ORBITS = {  # second satellite of the same plane for the interleaved-iterator histories (mean anomaly + 180 deg)
    "iss-b": (6778137.0, 0.0012, 51.6, 30.0, 40.0, 197.0),
    "mol-b": (26554000.0, 0.72, 63.4, 350.0, 270.0, 190.0),
    # exact-zero worlds: equatorial (latitude identically 0.0 for Kepler / KeplerNum / Ephem), circular (r_dot is exact zeros
    # mixed with round-off), and an orbit whose FIRST sample sits exactly on its ascending node (one exact zero)
    "geo": (42164137.0, 0.01, 5.0, 40.0, 60.0, 100.0),  # 24 h orbit for the coarse-step worlds
    "equ": (7000000.0, 0.01, 0.0, 17.0, 23.0, 29.0),
    "circ": (7000000.0, 0.0, 51.6, 17.0, 0.0, 28.0),
    "iss0": (6778137.0, 0.0012, 51.6, 30.0, 0.0, 0.0),
}
# (orbit, listener) pairs whose watched function has no isolated, transversal zeros: only the event LIST (sign rule) and the
# position of the events are decided there, not sharpness / labels / closed forms
DEGENERATE = {("equ", "node"), ("circ", "apside")}


def _el(name):
    return ORBITS[name] if name in ORBITS else ALT_ORBITS[name]


STATIONS = {  # lat, lon [deg], alt [m] : placed near a ground track so that passes exist within two revolutions
    "iss": (35.0, 143.0, 100.0),
    "sso": (20.0, 5.0, 200.0),
    "gto": (10.0, -5.0, 50.0),
    "mol": (50.0, 10.0, 300.0),
    "geo": (10.0, 60.0, 0.0),
    "equ": (5.0, 100.0, 0.0),
    "circ": (35.0, 143.0, 100.0),
    "iss0": (35.0, 143.0, 100.0),
}
MASK_DEG = [[0.0, 90.0, 180.0, 270.0, 360.0], [5.0, 8.0, 3.0, 10.0, 5.0]]
ANOMS = ("true", "mean", "eccentric", "aol")
AVALS = {"0": 0.0, "90": math.pi / 2, "3": 3.0}
LKEYS = (
    ["node", "node-itrf", "apside"]
    + [f"anom-{a}-{v}" for a in ANOMS for v in AVALS]
    + ["umbra", "penumbra", "terminator", "sig0", "sig10", "max", "mask", "rv", "rv-sight"]
)
EARTH_FIXED = {"node-itrf", "sig0", "sig10", "max", "mask", "rv", "rv-sight"}
W_INERTIAL = 3e-6
W_FIXED = 53e-6
HIST_OPS = ("F", "A2", "Aev", "X", "O")

_G = {}


def base(key):
    """'umbra@TOD' -> 'umbra' (Light listener given the documented frame= argument)."""
    return key.split("@")[0]


def ltype(key):
    if "@" in key:
        return ltype(base(key)) + "/frame=" + key.split("@")[1]
    if key.startswith("anom"):
        return "Anomaly/" + key.split("-")[1]
    return {
        "node": "Node", "node-itrf": "Node/ITRF", "apside": "Apside", "umbra": "Light/umbra", "penumbra": "Light/penumbra",
        "terminator": "Terminator", "sig0": "StationSignal", "sig10": "StationSignal", "max": "StationMax",
        "mask": "StationMask", "rv": "RadialVelocity", "rv-sight": "RadialVelocity/sight",
    }[key]


# ---------------------------------------------------------------------------
# world


def setup(config):
    from beyond.config import config as bc
    from mc import world

    bc.update({"eop": {"missing_policy": "pass"}})
    import beyond.env.solarsystem  # noqa  (imported before the snapshot: defines nothing in the registries)
    import beyond.frames.stations  # noqa

    _G["snap"] = world.snapshot()


def _epoch():
    from beyond.dates import Date

    return Date(*EPOCH)


def _period(orbit):
    from beyond.constants import Earth

    return 2 * math.pi * math.sqrt(_el(orbit)[0] ** 3 / Earth.mu)


def _span(orbit, step, variant=0):
    """(start offset, stop offset) in integer seconds: two revolutions from the epoch (variant 1: another range)."""
    P = _period(orbit)
    if step >= 3600:
        return 0, 432000  # coarse sampling (1 h, 3 h, 5 h): five days, a multiple of each step
    if variant == 0:
        # a multiple of every sampling / integration step (the iteration contract for other stops is C08's subject)
        return 0, int(math.ceil(2 * P / 1800.0)) * 1800
    if variant == 2:  # one revolution (history cases)
        return 0, int(math.ceil(P / 1800.0)) * 1800
    return int(step // 2) + 7, int(round(0.6 * P))


def make_orbit(orbit, prop):
    """Fresh Orbit / Ephem speaker for (orbit, propagator)."""
    from beyond.constants import Earth
    from beyond.dates import timedelta
    from beyond.orbits import Orbit

    a, e, i, Om, w, M = _el(orbit)
    coord = [a, e, math.radians(i), math.radians(Om), math.radians(w), math.radians(M)]
    if prop in ("kepler", "ephem"):
        o = Orbit(coord, _epoch(), "keplerian_mean", "EME2000", "Kepler")
        if prop == "ephem":
            s0, s1 = _span(orbit, 60)
            return o.ephem(start=_epoch() - timedelta(seconds=600), stop=_epoch() + timedelta(seconds=s1 + 1200),
                           step=timedelta(seconds=60))
        return o
    if prop == "sgp4":
        # the way Tle.orbit() builds it: mean elements in TEME, TLE form, with the TLE bookkeeping fields
        n = math.sqrt(Earth.mu / a ** 3)
        data = dict(bstar=1e-4 if e < 0.1 else 0.0, ndot=0.0, ndotdot=0.0, name="VERIF", cospar_id="2018-001A", norad_id=99999,
                    element_nb=1, revolutions=1, type=0)
        return Orbit([coord[2], coord[3], e, coord[4], coord[5], n], _epoch(), "TLE", "TEME", "Sgp4", **data)
    if prop == "num":
        from beyond.env.solarsystem import get_body
        from beyond.propagators.keplernum import KeplerNum

        h = 60 if e < 0.1 else 120
        return Orbit(coord, _epoch(), "keplerian_mean", "EME2000", KeplerNum(timedelta(seconds=h), get_body("Earth")))
    raise ValueError(prop)


def make_station(orbit):
    import numpy as np
    from beyond.frames import create_station

    mask = np.radians(np.array(MASK_DEG)).tolist()
    return create_station("STA" + orbit.upper(), STATIONS[orbit], mask=mask)


def make_listener(key, station):
    from beyond.propagators import listeners as L

    if key == "node":
        return L.NodeListener()
    if key == "node-itrf":
        return L.NodeListener("ITRF")
    if key == "apside":
        return L.ApsideListener()
    if key.startswith("anom-"):
        _, a, v = key.split("-")
        return L.AnomalyListener(AVALS[v], a)
    if "@" in key:
        return L.LightListener(L.LightListener.UMBRA if base(key) == "umbra" else L.LightListener.PENUMBRA, frame=key.split("@")[1])
    if key == "umbra":
        return L.LightListener()
    if key == "penumbra":
        return L.LightListener("penumbra")
    if key == "terminator":
        return L.TerminatorListener()
    if key == "sig0":
        return L.StationSignalListener(station)
    if key == "sig10":
        return L.StationSignalListener(station, math.radians(10))
    if key == "max":
        return L.StationMaxListener(station)
    if key == "mask":
        return L.StationMaskListener(station)
    if key == "rv":
        return L.RadialVelocityListener(station)
    if key == "rv-sight":
        return L.RadialVelocityListener(station, sight=True)
    raise ValueError(key)


class Ctx:
    """Fresh world for one case: restored registries, one station, listener objects, speakers."""

    def __init__(self, orbit, prop, step, lkeys, mode="range", variant=0, shift_us=0, sp_orbit=None, backward=False):
        from mc import world

        self.backward = backward
        self.window = None  # (start_us or None, stop_us or None): Ephem native-step iteration over a window

        world.restore(_G["snap"])
        self.orbit, self.prop, self.step, self.lkeys, self.mode = orbit, prop, step, list(lkeys), mode
        self.variant, self.shift_us, self.sp_orbit = variant, shift_us, sp_orbit or orbit
        self.station = make_station(orbit)
        self.listeners = [make_listener(k, self.station) for k in lkeys]
        self.speaker = make_orbit(self.sp_orbit, prop)
        self._other = None

    def other_speaker(self):
        if self._other is None:
            self._other = make_orbit("sso" if self.orbit != "sso" else "iss", "kepler")
        return self._other

    def iterate(self, variant=None, speaker=None, listeners=None):
        """The real call: generator over the stream."""
        from beyond.dates import Date, timedelta

        variant = self.variant if variant is None else variant
        s0, s1 = _span(self.orbit, self.step, variant)
        start = _epoch() + timedelta(seconds=s0, microseconds=self.shift_us)
        stop = _epoch() + timedelta(seconds=s1, microseconds=self.shift_us)
        step = timedelta(seconds=self.step)
        speaker = self.speaker if speaker is None else speaker
        listeners = self.listeners if listeners is None else listeners
        if self.window is not None:
            # Ephem, native step, start / stop omitted or given
            kw = {}
            if self.window[0] is not None:
                kw["start"] = _epoch() + timedelta(microseconds=self.window[0])
            if self.window[1] is not None:
                kw["stop"] = _epoch() + timedelta(microseconds=self.window[1])
            return speaker.iter(listeners=listeners, **kw)
        if self.backward:
            # iteration running backward in time: start > stop (positive step given, as documented), a decreasing
            # DateRange, or an explicit decreasing list of dates
            if self.mode == "range":
                return speaker.iter(start=stop, stop=start, step=step, listeners=listeners)
            rng = Date.range(stop, start, -step, inclusive=True)
            return speaker.iter(dates=list(rng) if self.mode == "dates-list" else rng, listeners=listeners)
        if self.mode == "dates-list":
            return speaker.iter(dates=list(Date.range(start, stop, step, inclusive=True)), listeners=listeners)
        if self.mode == "dates":
            return speaker.iter(dates=Date.range(start, stop, step, inclusive=True), listeners=listeners)
        if self.prop == "ephem" and speaker is self.speaker and self.step == 60 and variant != 1 and self.shift_us == 0:
            # the ephemeris' own nodes (no interpolation of the samples)
            return speaker.iter(start=start, stop=stop, listeners=listeners)
        return speaker.iter(start=start, stop=stop, step=step, listeners=listeners)

    def grid(self, variant=None):
        if self.window is not None:
            lo = EPH_LEAD_US if self.window[0] is None else self.window[0]
            hi = self.eph_last_us() if self.window[1] is None else self.window[1]
            return [d for d in range(EPH_LEAD_US, self.eph_last_us() + 1, 60 * 10 ** 6) if lo <= d <= hi]
        s0, s1 = _span(self.orbit, self.step, self.variant if variant is None else variant)
        g = [(s0 + i * self.step) * 10 ** 6 + self.shift_us for i in range((s1 - s0) // self.step + 1)]
        return g[::-1] if self.backward else g

    def eph_last_us(self):
        s0, s1 = _span(self.orbit, 60)
        return (s1 + 1200) * 10 ** 6


EPH_LEAD_US = -600 * 10 ** 6  # the ephemerides of make_orbit() start 600 s before the epoch


def us_of(date):
    """Integer microseconds since EPOCH (exact: dates are built from integer microseconds)."""
    d = date - _epoch()
    return (d.days * 86400 + d.seconds) * 10 ** 6 + d.microseconds


def canon(items, listeners):
    import numpy as np

    out = []
    for it in items:
        ev = it.event
        li = None
        if ev is not None:
            li = [j for j, l in enumerate(listeners) if l is ev.listener]
            li = li[0] if li else -1
        out.append((us_of(it.date), li, None if ev is None else str(ev.info), tuple(np.array(it, dtype=float).tolist())))
    return out


# ---------------------------------------------------------------------------
# independent geometry


def geodetic_site(lat_deg, lon_deg, alt):
    """ECEF position and geodetic 'up' unit vector of a site on the reference ellipsoid (textbook formula)."""
    import numpy as np
    from beyond.constants import Earth

    lat, lon = math.radians(lat_deg), math.radians(lon_deg)
    a, f = Earth.equatorial_radius, Earth.flattening
    e2 = f * (2 - f)
    N = a / math.sqrt(1 - e2 * math.sin(lat) ** 2)
    pos = np.array([(N + alt) * math.cos(lat) * math.cos(lon), (N + alt) * math.cos(lat) * math.sin(lon),
                    (N * (1 - e2) + alt) * math.sin(lat)])
    up = np.array([math.cos(lat) * math.cos(lon), math.cos(lat) * math.sin(lon), math.sin(lat)])
    return pos, up


def elevation(sv, orbit):
    """(elevation, elevation rate) of the state seen from the orbit's station; only the ITRF state is library data."""
    import numpy as np

    pos, up = geodetic_site(*STATIONS[orbit])
    x = np.array(sv.copy(frame="ITRF", form="cartesian"), dtype=float)
    rho, drho = x[:3] - pos, x[3:]
    rn = np.linalg.norm(rho)
    s = (up @ rho) / rn
    el = math.asin(s)
    rate = (up @ drho - s * (rho @ drho) / rn) / (rn * math.cos(el))
    return el, rate


def shifted(sv, dt):
    """The emitted state moved by dt seconds along the reference two-body flow (same frame, cartesian)."""
    import numpy as np
    from beyond.constants import Earth
    from beyond.dates import timedelta
    from beyond.orbits import StateVector
    from mc.ref import twobody as tb

    c = sv.copy(form="cartesian")
    x = tb.propagate_uv(np.array(c, dtype=float), dt, Earth.mu)
    return StateVector(x, c.date + timedelta(seconds=dt), "cartesian", c.frame)


def neighbour(ctx, ev, dt):
    """State of the same trajectory dt seconds from the event: the speaker's own propagate where the harness can reach
    it (Kepler, Sgp4 -- whose time argument is quantised to ~40 us by the sgp4 package --, Ephem); for the numerical
    propagator (internal ephemeris not reachable) the emitted state moved along the two-body flow."""
    from beyond.dates import timedelta

    if ctx.prop == "num":
        return shifted(ev, dt)
    return ctx.speaker.propagate(ev.date + timedelta(seconds=dt))


def sgn(x):
    return (x > 0) - (x < 0)


# ---------------------------------------------------------------------------
# closed forms (Kepler propagator)


def kepler_elements(orbit):
    from beyond.constants import Earth

    a, e, i, Om, w, M = _el(orbit)
    return dict(a=a, e=e, i=math.radians(i), Om=math.radians(Om), w=math.radians(w), M0=math.radians(M),
                n=math.sqrt(Earth.mu / a ** 3), mu=Earth.mu)


def ref_position(orbit):
    import numpy as np
    from mc.ref import twobody as tb

    k = kepler_elements(orbit)

    def pos(t):
        nu, _ = tb.mean_to_true(k["M0"] + k["n"] * t, k["e"])
        return tb.kep_to_cart(k["a"], k["e"], k["i"], k["Om"], k["w"], nu, k["mu"])

    return pos


def crossing_times_mean(k, M_target, t_lo, t_hi):
    """All t in (t_lo, t_hi] with M(t) = M_target (mod 2 pi)."""
    two_pi = 2 * math.pi
    t = ((M_target - k["M0"]) % two_pi) / k["n"]
    P = two_pi / k["n"]
    t += math.floor((t_lo - t) / P) * P
    out = []
    while t <= t_hi:
        if t > t_lo:
            out.append(t)
        t += P
    return out


def closed_form(key, orbit, t_lo, t_hi):
    """[(t [s since epoch], label)] of the exact two-body crossings for listener `key`, or None if no closed form."""
    from mc.ref import twobody as tb

    k = kepler_elements(orbit)
    e = k["e"]

    def M_of_nu(nu):
        return tb.true_to_mean(nu, e)[0]

    out = []
    if key == "node":
        for nu, lab in ((-k["w"], "Asc Node"), (math.pi - k["w"], "Desc Node")):
            out += [(t, lab) for t in crossing_times_mean(k, M_of_nu(nu), t_lo, t_hi)]
    elif key == "apside":
        out += [(t, "Periapsis") for t in crossing_times_mean(k, 0.0, t_lo, t_hi)]
        out += [(t, "Apoapsis") for t in crossing_times_mean(k, math.pi, t_lo, t_hi)]
    elif key.startswith("anom-"):
        _, a, v = key.split("-")
        val = AVALS[v]
        if a == "true":
            Mt = M_of_nu(val)
        elif a == "mean":
            Mt = val
        elif a == "eccentric":
            Mt = val - e * math.sin(val)
        else:
            Mt = M_of_nu(val - k["w"])
        out += [(t, val) for t in crossing_times_mean(k, Mt, t_lo, t_hi)]
    else:
        return None
    return sorted(out)


def sun_model(t_lo, t_hi):
    """Sun position in EME2000 as a degree-6 polynomial through 7 library values (data); returns callable(t)."""
    import numpy as np
    from beyond.dates import timedelta
    from beyond.env.solarsystem import get_body

    key = ("sun", t_lo, t_hi)
    if key not in _G:
        sun = get_body("Sun")
        nodes = [t_lo + (t_hi - t_lo) * (0.5 - 0.5 * math.cos(math.pi * (2 * j + 1) / 14)) for j in range(7)]
        nodes = [round(x * 1e6) / 1e6 for x in nodes]
        vals = [np.array(sun.propagate(_epoch() + timedelta(seconds=x)).copy(frame="EME2000", form="cartesian"), dtype=float)[:3]
                for x in nodes]

        def f(t):
            r = np.zeros(3)
            for j, xj in enumerate(nodes):
                l = 1.0
                for m, xm in enumerate(nodes):
                    if m != j:
                        l *= (t - xm) / (xj - xm)
                r += l * vals[j]
            return r

        # guard: the interpolant reproduces the library value at an off-node instant to < 100 m (7e-10 relative)
        tm = round((0.37 * t_lo + 0.63 * t_hi) * 1e6) / 1e6
        chk = np.array(sun.propagate(_epoch() + timedelta(seconds=tm)).copy(frame="EME2000", form="cartesian"), dtype=float)[:3]
        assert np.linalg.norm(f(tm) - chk) < 100.0, np.linalg.norm(f(tm) - chk)
        _G[key] = f
    return _G[key]


def shadow_crossings(orbit, t_lo, t_hi):
    """{'umbra': [(t, 'entry'|'exit')], 'penumbra': [...]} from mc/ref/shadow.py on the reference trajectory."""
    from beyond.constants import Earth, Sun
    from mc.ref import shadow

    key = ("shadow", orbit, t_lo, t_hi)
    if key not in _G:
        pos = ref_position(orbit)
        sun = sun_model(t_lo - 60.0, t_hi + 60.0)
        memo = {}

        def P(t):
            if t not in memo:
                memo[t] = (pos(t)[:3], sun(t))
            return memo[t]

        res = {}
        for name, which in (("umbra", 0), ("penumbra", 1)):
            res[name] = shadow.crossings(lambda t: P(t)[0], lambda t: P(t)[1], Sun.equatorial_radius, Earth.equatorial_radius,
                                         t_lo, t_hi, which, scan=20.0)
        _G[key] = res
    return _G[key]


# ---------------------------------------------------------------------------
# the checks


def run_stream(ctx, t, case, variant=None):
    """Consume one full iteration; library exceptions are violations."""
    try:
        items = list(ctx.iterate(variant))
    except Exception as e:  # the property requires a stream
        t.fail(f"iter/raises/{ctx.prop}/{ctx.mode}", "an iteration with listeners yields a stream", case, "stream", repr(e))
        return None
    t.trans(len(items))
    return items


def check_semantics(ctx, items, t, case):
    """Sampling semantics, position, sharpness, labels, order, closed forms for one fresh stream."""
    import numpy as np

    Ls, keys = ctx.listeners, ctx.lkeys
    grid = ctx.grid()
    # -- split into samples and events --------------------------------------------------------------------
    samples, events = [], []
    for i, it in enumerate(items):
        if i > 0 and it.event is not None and it.event is items[i - 1].event and us_of(it.date) == us_of(items[i - 1].date):
            # the very same state (same Event instance; the same object for analytical propagators / Ephem, a re-wrapped
            # copy for KeplerNum) yielded twice: once as the event, once as the sample that closes the step
            lt = [ltype(k) for k, l in zip(keys, Ls) if l is it.event.listener]
            t.fail("listen/event-aliases-sample", "the stream consists of the samples (without label) plus one emitted state per "
                   "sign change", case, "event state, then the unlabelled sample", [_lab(items[i - 1]), _lab(it)],
                   f"items {i-1} and {i} are the same state ({lt}, prop={ctx.prop}): the sample at {us_of(it.date)} us carries the event label")
            samples.append(it)
            continue
        if it.event is None:
            samples.append(it)
        else:
            events.append((len(samples) - 1, it))
    sdates = [us_of(s.date) for s in samples]
    if sdates != grid:
        t.fail(f"stream/sample-grid/{ctx.prop}", "samples are exactly the requested dates, each once, without event label", case,
               [len(grid), grid[:3], grid[-1:]], [len(sdates), sdates[:3], sdates[-1:]],
               "first difference at index %s" % next((i for i, (a, b) in enumerate(zip(grid, sdates)) if a != b), min(len(grid), len(sdates))))
        return
    # -- chronological order of the whole stream ------------------------------------------------------------
    dates = [us_of(it.date) for it in items]
    sdir = -1 if ctx.backward else 1
    bad = [i for i in range(1, len(dates)) if sdir * dates[i] < sdir * dates[i - 1]]
    if bad:
        i = bad[0]
        t.fail("stream/order" + ("/backward" if ctx.backward else ""), "the whole output stream is in chronological order (in the direction of "
               "the iteration)", case, "monotone dates",
               [dates[i - 1], dates[i]], f"items {i-1},{i}: {_lab(items[i-1])} then {_lab(items[i])}")
    # -- values of the watched functions on the samples -------------------------------------------------------
    G = [[float(l(s)) for s in samples] for l in Ls]
    t.trans(len(Ls) * len(samples))
    emitted = {}
    for k, ev in events:
        li = [j for j, l in enumerate(Ls) if l is ev.event.listener]
        if len(li) != 1:
            t.fail("stream/foreign-event", "events come from the registered listeners", case, None, _lab(ev))
            continue
        emitted.setdefault((k, li[0]), []).append(ev)
    nev = 0
    for j, key in enumerate(keys):
        lt = ltype(key)
        for k in range(len(samples) - 1):
            g0, g1 = G[j][k], G[j][k + 1]
            got = emitted.pop((k, j), [])
            # reference rule = three-valued sign (np.sign): 0 -> 0 is no change, 0 <-> +-x is a change
            due = sgn(g0) != sgn(g1)
            if g0 == 0.0 or g1 == 0.0:
                t.outcome("exact zero at a sample: " + ("change" if due else "no change"))
            gate = True
            if due and key.startswith("anom-"):
                gate = abs(g1) < 2
                if not gate:
                    t.outcome("anomaly wrap crossing suppressed")
            elif due and key in ("mask", "max", "rv-sight"):
                el, rate = elevation(samples[k + 1], ctx.orbit)
                if abs(el) < 1e-9 or (key == "max" and abs(rate) < 1e-12):
                    t.exclude("gate quantity within 1e-9 of its threshold at a sample")
                    continue
                gate = el > 0 and (key != "max" or rate <= 0)
                if not gate:
                    t.outcome(f"{lt} gated off")
            due = due and gate
            t.ev()
            if due and not got:
                t.fail(f"listen/missing/{lt}", "an event is emitted exactly when the watched quantity changes sign between two "
                       "samples (and the gate holds)", case, f"event of {key} in step {k}", "none",
                       f"g({grid[k]/1e6:.0f}s)={g0!r} g({grid[k+1]/1e6:.0f}s)={g1!r} prop={ctx.prop}")
                continue
            if not due and got:
                t.fail(f"listen/spurious/{lt}", "an event is emitted exactly when the watched quantity changes sign between two "
                       "samples (and the gate holds)", case, "no event", [_lab(x) for x in got],
                       f"g({grid[k]/1e6:.0f}s)={g0!r} g({grid[k+1]/1e6:.0f}s)={g1!r} gate={gate} prop={ctx.prop}")
                continue
            if len(got) > 1:
                t.fail(f"listen/duplicate/{lt}", "one event per listener and step", case, 1, [_lab(x) for x in got])
                continue
            if not got:
                continue
            ev = got[0]
            nev += 1
            if (ctx.orbit, key) in DEGENERATE:
                d = us_of(ev.date)
                sd = -1 if ctx.backward else 1
                if not (sd * grid[k] < sd * d <= sd * grid[k + 1]):
                    t.fail(f"event/outside-step/{lt}", "the emitted state lies between the two samples", case, [grid[k], grid[k + 1]], d)
                continue
            if key.startswith("anom-") and abs(g1 - g0) > math.pi:
                # the sign change is the +-pi discontinuity of the wrapped difference, not a zero: the anomaly advanced by
                # more than pi - 2 rad past the wrap within one step, so the listener's own |diff| < 2 gate let it through and
                # an event is reported half a turn away from the requested anomaly
                t.fail(f"listen/anomaly-wrap-event/{key.split('-')[1]}", "an Anomaly event marks the anomaly reaching the requested value "
                       "(the label matches the crossing)", case, f"no event (anomaly passes value+180 deg, not {math.degrees(AVALS[key.split('-')[2]]):.2f} deg)",
                       _lab(ev), f"g({grid[k]/1e6:.0f}s)={g0!r} g({grid[k+1]/1e6:.0f}s)={g1!r} prop={ctx.prop} orbit={ctx.orbit} step={ctx.step}")
                continue
            check_event(ctx, j, key, ev, k, samples, (g0, g1), t, case)
    for (k, j), got in emitted.items():
        t.fail(f"listen/spurious/{ltype(keys[j])}", "events lie between two samples", case, "no event",
               [_lab(x) for x in got], f"positioned after sample {k} of {len(samples)}")
    # -- closed forms (Kepler propagator only) ----------------------------------------------------------------
    if ctx.prop == "kepler":
        check_closed_forms(ctx, events, t, case)
    return nev


def _lab(it):
    return [us_of(it.date), None if it.event is None else str(it.event.info)]


def check_event(ctx, j, key, ev, k, samples, g01, t, case):
    import numpy as np

    grid = ctx.grid()
    L = ctx.listeners[j]
    lt = ltype(key)
    d = us_of(ev.date)
    t.outcome(f"{lt}: {str(ev.event.info)[:14]}")
    # position
    sdir = -1 if ctx.backward else 1
    if not (sdir * grid[k] < sdir * d <= sdir * grid[k + 1]):
        t.fail(f"event/outside-step/{lt}" + ("/backward" if ctx.backward else ""), "the emitted state lies between the two samples", case,
               [grid[k], grid[k + 1]], d, f"prop={ctx.prop} mode={ctx.mode}")
        return
    # sharpness: sign change of the watched function within +-W of the emitted state
    W = W_FIXED if key in EARTH_FIXED else W_INERTIAL
    gm, gp = float(L(neighbour(ctx, ev, -sdir * W))), float(L(neighbour(ctx, ev, +sdir * W)))  # before / after in iteration order
    t.trans(2)
    zero_side = g01[0] == 0.0 or g01[1] == 0.0  # (the crossing is AT a sample: the sides are those of the crossing, not of the samples)
    if not (sgn(gm) != sgn(gp) and (zero_side or (sgn(gm) == sgn(g01[0]) and sgn(gp) == sgn(g01[1])))):
        t.fail(f"event/not-sharp/{lt}" + ("/backward" if ctx.backward else ""), f"the watched quantity changes sign within {W*1e6:.0f} us of the event", case,
               [sgn(g01[0]), sgn(g01[1])], [gm, gp], f"event {_lab(ev)} prop={ctx.prop} step {k}")
    elif abs(gm) != 1.0 and ctx.prop != "sgp4":  # (Sgp4 trajectories are staircases in time: no local slope)
        # continuous g: |g(event)| against the local slope (informative margin; the decision is the sign test above)
        slope = abs(gp - gm) / (2 * W)
        g_e = abs(float(L(ev)))
        if slope > 0:
            t.margin(f"|g(event)| / (|dg/dt| x {W*1e6:.0f} us) [{ 'Earth-fixed' if key in EARTH_FIXED else 'inertial'} listeners]",
                     g_e, slope * W, case)
    # label
    # labels are physical statements (ascending node, periapsis, shadow entry, acquisition of signal): the oracle
    # evaluates them in physical time, whatever the direction of the iteration
    exp = expected_label(ctx, key, ev, (g01 if not ctx.backward else (g01[1], g01[0])), t)
    if exp is not None:
        ok = exp(str(ev.event.info))
        if not ok:
            t.fail(f"event/label/{lt}" + ("/backward" if ctx.backward else ""), "the label matches the direction of the crossing", case, exp.__doc__, str(ev.event.info),
                   f"event {_lab(ev)} prop={ctx.prop} g before/after = {g01}")
    # station events: independent elevation
    if key in ("sig0", "sig10", "max"):
        el, rate = elevation(ev, ctx.orbit)
        thr = 0.0 if key == "sig0" else math.radians(10)
        check_station_value(ctx.prop, "max" if key == "max" else "sig", el - thr, rate, ev, t, case)


def check_station_value(prop, what, el, rate, ev, t, case):
    """Elevation (AOS/LOS) resp. elevation rate (MAX) is zero at the event, by the independent elevation model.
    Keplerian motion (property text): 1e-8 rad, 1e-9 rad/s.  Sgp4: the sgp4 package quantises its time argument to a
    Julian-date double (~40 us), the emitted state is up to 40 us away from the event date: |rate| x 45 us + 1e-9."""
    if what == "max":
        if prop == "sgp4":
            return  # second derivative of the elevation not modelled here; covered by sharpness
        if not t.margin("MAX: |elevation rate| / 1e-9 rad/s", abs(rate), 1e-9, case):
            t.fail("event/value/StationMax", "elevation rate is zero at MAX", case, 0.0, rate, f"{_lab(ev)} prop={prop}")
    else:
        if prop == "sgp4":
            ok = t.margin("AOS/LOS (Sgp4): |elevation - threshold| / (|rate| x 45 us + 1e-9 rad)", abs(el), abs(rate) * 45e-6 + 1e-9, case)
        else:
            ok = t.margin("AOS/LOS: |elevation - threshold| / 1e-8 rad", abs(el), 1e-8, case)
        if not ok:
            t.fail("event/value/StationSignal", "elevation is zero (resp. the threshold) at AOS/LOS", case, 0.0, el,
                   f"{_lab(ev)} prop={prop}")


def expected_label(ctx, key, ev, g01, t):
    """Predicate on the label text, from an independent evaluation of the crossing direction (None: nothing to check)."""
    import numpy as np
    from beyond.constants import Earth

    def pred(doc, f):
        f.__doc__ = doc
        return f

    if key in ("node", "node-itrf"):
        c = np.array(ev.copy(form="cartesian") if key == "node" else ev.copy(frame="ITRF", form="cartesian"), dtype=float)
        want = "Asc Node" if c[5] > 0 else "Desc Node"
        return pred(want, lambda s: s == want)
    if key == "apside":
        c = np.array(ev.copy(form="cartesian"), dtype=float)
        r, v2 = np.linalg.norm(c[:3]), c[3:] @ c[3:]
        if ctx.prop == "sgp4":
            # osculating two-body criterion is ill-conditioned under J2 for e ~ 1e-3: use the crossing direction of r_dot
            want = "Periapsis" if g01[1] > g01[0] else "Apoapsis"
        else:
            want = "Periapsis" if v2 > Earth.mu / r else "Apoapsis"  # d2(r^2/2)/dt2 = v^2 - mu/r > 0 at the minimum of r
        return pred(want, lambda s: s == want)
    if key.startswith("anom-"):
        _, a, v = key.split("-")
        txt = "Argument of Latitude" if a == "aol" else f"{a.title()} Anomaly"
        val = math.degrees(AVALS[v])

        def f(s):
            head, _, num = s.partition(" = ")
            try:
                x = float(num)
            except ValueError:
                return False
            return head == txt and abs((x - val + 180.0) % 360.0 - 180.0) <= 0.0051

        return pred(f"{txt} = {val:.2f} (mod 360)", f)
    if base(key) in ("umbra", "penumbra"):
        key = base(key)
        from beyond.constants import Sun
        from beyond.env.solarsystem import get_body
        from mc.ref import shadow

        # light/shadow side from the reference cone, one second before / after the event
        which = 0 if key == "umbra" else 1
        m = []
        for dt in (-1.0, 1.0):
            s = shifted(ev, dt)
            sun = np.array(get_body("Sun").propagate(s.date).copy(frame=s.frame, form="cartesian"), dtype=float)[:3]
            m.append(shadow.margins_discs(np.array(s, dtype=float)[:3], sun, Sun.equatorial_radius, Earth.equatorial_radius)[which])
        if abs(m[1] - m[0]) < 1e-12:
            return None
        want = f"{key.title()} " + ("entry" if m[1] < m[0] else "exit")
        return pred(want, lambda s: s == want)
    if key == "terminator":
        from beyond.env.solarsystem import get_body

        c = ev.copy(form="cartesian")
        sun = np.array(get_body("Sun").propagate(c.date).copy(frame=c.frame, form="cartesian"), dtype=float)
        x = np.array(c, dtype=float)
        shat = sun[:3] / np.linalg.norm(sun[:3])
        rate = x[3:] @ shat  # d/dt of the sunward coordinate (Sun's own angular motion is 1e-4 of this)
        if abs(rate) < 1.0:
            t.exclude("terminator crossing direction ill-defined (orbit plane along the terminator)")
            return None
        want = "Night Terminator" if rate < 0 else "Day Terminator"
        return pred(want, lambda s: s == want)
    if key in ("sig0", "sig10"):
        el, rate = elevation(ev, ctx.orbit)
        want = "AOS" if rate > 0 else "LOS"
        return pred(want, lambda s: s == want)
    if key == "mask":
        want = "AOS" if g01[1] > g01[0] else "LOS"
        return pred(want, lambda s: s == want)
    if key == "max":
        return pred("MAX", lambda s: s == "MAX")
    if key in ("rv", "rv-sight"):
        return pred("Radial Velocity", lambda s: s == "Radial Velocity")
    return None


def check_closed_forms(ctx, events, t, case):
    grid = ctx.grid()
    t_lo, t_hi = min(grid) / 1e6, max(grid) / 1e6
    for j, key in enumerate(ctx.lkeys):
        lt = ltype(key)
        if (ctx.orbit, key) in DEGENERATE or (ctx.orbit == "equ" and key.startswith(("node", "anom"))) or (ctx.orbit == "circ" and key.startswith("anom")):
            continue
        mine = [ev for _, ev in events if ev.event.listener is ctx.listeners[j]]
        if ctx.backward:
            mine = mine[::-1]
        # a crossing exactly ON the first sample is reported right after it (0 -> x is a sign change); the closed-form list is (t_lo, t_hi]
        mine = [ev for ev in mine if abs(us_of(ev.date) - min(grid)) > 2]
        key = base(key)  # the events of a Light listener must not depend on its frame= argument
        if key in ("umbra", "penumbra"):
            ref = shadow_crossings(ctx.orbit, t_lo, t_hi)[key]
            ref = [(x, f"{key.title()} {d}") for x, d in ref]
            tol = 0.01 if key == "umbra" else 0.5
            name = f"{key}: |event - conical reference| / {tol} s"
        else:
            ref = closed_form(key, ctx.orbit, t_lo, t_hi)
            if ref is None:
                continue
            tol = 6e-6
            name = "node/apsis/anomaly: |event - closed form| / 6 us"
        t.trace()
        # a reference crossing closer than tol to a sample date may legitimately fall into the neighbouring step
        if ctx.step >= 3600:
            for ev in mine:
                x, lab = min(ref, key=lambda r: abs(r[0] - us_of(ev.date) / 1e6)) if ref else (float("inf"), None)
                dt = abs(us_of(ev.date) / 1e6 - x)
                if not t.margin(name + " [coarse steps 1-5 h]", dt, tol, case):
                    t.fail(f"closed-form/time/{lt}/coarse-step", "Kepler events coincide with the closed-form crossings", case, round(x, 6),
                           us_of(ev.date) / 1e6, f"{key} {lab} orbit {ctx.orbit} step {ctx.step} s: off by {(us_of(ev.date)/1e6 - x)*1e6:+.1f} us")
            continue
        if len(ref) != len(mine):
            t.fail(f"closed-form/count/{lt}", "Kepler events coincide with the closed-form crossings", case,
                   [[round(x, 6), l] for x, l in ref], [_lab(e) for e in mine], f"orbit {ctx.orbit} step {ctx.step}")
            continue
        for (x, lab), ev in zip(ref, mine):
            dt = abs(us_of(ev.date) / 1e6 - x)
            if key == "umbra":
                # informative only: the derived resolution (bisection 1 us + date arithmetic), the decision uses the property's 0.01 s
                t.margin("umbra: |event - conical reference| / 6 us (informative, derived resolution)", dt, 6e-6, case)
            if not t.margin(name, dt, tol, case):
                t.fail(f"closed-form/time/{lt}" + (f"/{_alt_class(ctx.orbit, x)}" if key == "penumbra" else ""),
                       "Kepler events coincide with the closed-form crossings" if tol < 1e-3 else
                       f"umbra/penumbra entries and exits agree with an independent conical-shadow computation within {tol} s",
                       case, round(x, 6), us_of(ev.date) / 1e6, f"{key} {lab} orbit {ctx.orbit}: off by {us_of(ev.date)/1e6 - x:+.6f} s")
            if isinstance(lab, str) and str(ev.event.info) != lab and not ctx.backward:  # (backward: decided by event/label)
                t.fail(f"closed-form/label/{lt}", "label of the closed-form crossing", case, lab, str(ev.event.info), f"t={x:.3f}")


def _alt_class(orbit, x):
    import numpy as np

    r = np.linalg.norm(ref_position(orbit)(x)[:3])
    return "high-altitude" if r > 2.0e7 else "low-altitude"


# -- E1: re-use histories -------------------------------------------------------------------------------------


def apply_op(ctx, op, t, case):
    """Execute one history element on the shared listener objects; returns the stream for F."""
    if op == "F":
        return run_stream(ctx, t, case)
    try:
        if op == "X":
            n = sum(1 for _ in ctx.iterate(variant=1))
            t.trans(n)
        elif op == "A2":
            it = ctx.iterate()
            next(it)
            next(it)
            t.trans(2)
            _G.setdefault("suspended", []).append(it)  # keep the generator suspended, not finalised
        elif op == "Aev":
            it = ctx.iterate()
            n = 0
            for x in it:
                n += 1
                if x.event is not None:
                    break
            t.trans(n)
            _G.setdefault("suspended", []).append(it)
        elif op == "O":
            it = ctx.iterate(speaker=ctx.other_speaker())
            for _ in range(5):
                next(it)
            t.trans(5)
            _G.setdefault("suspended", []).append(it)
        else:
            raise ValueError(op)
    except Exception as e:
        if isinstance(e, ValueError) and op not in HIST_OPS:
            raise
        t.fail(f"iter/raises/{ctx.prop}/{ctx.mode}", "an iteration with listeners yields a stream", case, "stream", repr(e), f"op {op}")
    del _G.get("suspended", [])[:-4]
    return None


def fresh_stream(orbit, prop, step, lkeys, mode, variant, t, case, sp_orbit=None):
    key = ("fresh", orbit, prop, step, tuple(lkeys), mode, variant, sp_orbit)
    if key not in _G:
        for k in [k for k in _G if isinstance(k, tuple) and k[0] == "fresh" and k[:7] != key[:7]]:
            del _G[k]
        ctx = Ctx(orbit, prop, step, lkeys, mode, variant, 0, sp_orbit)
        items = run_stream(ctx, t, case)
        _G[key] = None if items is None else canon(items, ctx.listeners)
    return _G[key]


def weave_scripts():
    """Every order of {create A, create B, drain A, drain B} and of {create A, half A, drain A, create B, drain B} in which
    an iterator is created before it is advanced and no other iterator is advanced while A is half consumed (creation of
    another iterator is allowed at any time: it must be inert), plus 'create three, then drain them in turn / in reverse'.
    A and C iterate the case's satellite, B a second satellite of the same plane; all share the same listener objects."""
    out = []
    for ops in (("cA", "cB", "dA", "dB"), ("cA", "hA", "dA", "cB", "dB")):
        for perm in sorted(set(itertools.permutations(ops))):
            pos = {o: i for i, o in enumerate(perm)}
            if pos["cA"] > pos["dA"] or pos["cB"] > pos["dB"]:
                continue
            if "hA" in pos and (not (pos["cA"] < pos["hA"] < pos["dA"]) or pos["hA"] < pos["dB"] < pos["dA"]):
                continue
            out.append(list(perm))
    out.append(["cA", "cB", "cC", "dA", "dB", "dC"])
    out.append(["cA", "cB", "cC", "dC", "dB", "dA"])
    out.append(["cA", "cB", "cC", "hA", "cA2", "dA", "dC", "dB"])
    return out


def check_weave(case, t):
    orbit, prop, step, lkeys, mode = case["orbit"], case["prop"], case["step"], case["lset"], case.get("mode", "range")
    script = case["script"]
    skey = ("weave", orbit, prop, step, mode, tuple(lkeys), tuple(script))
    t.state(skey)
    variant = 2
    ref = {"A": fresh_stream(orbit, prop, step, lkeys, mode, variant, t, case),
           "B": fresh_stream(orbit, prop, step, lkeys, mode, variant, t, case, sp_orbit=orbit + "-b")}
    ref["C"] = ref["A"]
    if ref["A"] is None or ref["B"] is None:
        return
    ctx = Ctx(orbit, prop, step, lkeys, mode, variant)
    speakers = {"A": ctx.speaker, "C": ctx.speaker, "B": make_orbit(orbit + "-b", prop)}
    its, head = {}, {}
    for i, op in enumerate(script):
        what, slot = op[0], op[1]
        try:
            if what == "c":
                if op.endswith("2"):
                    # a further iterator created (and dropped) on the same satellite while A is half consumed
                    _G.setdefault("suspended", []).append(ctx.iterate(speaker=speakers[slot]))
                else:
                    its[slot] = ctx.iterate(speaker=speakers[slot])
                    head[slot] = []
                t.trans()
                continue
            if what == "h":
                n = max(4, len(ref[slot]) // 2)
                for _ in range(n):
                    head[slot].append(next(its[slot]))
                t.trans(n)
                continue
            items = head[slot] + list(its[slot])
            t.trans(len(items) - len(head[slot]))
        except Exception as e:
            t.fail(f"iter/raises/{prop}/{mode}", "an iteration with listeners yields a stream", case, "stream", repr(e), f"op {op} of {script}")
            return
        got = canon(items, ctx.listeners)
        t.state(skey + (i,))
        if got != ref[slot]:
            a = [(x[0], x[1], x[2]) for x in got if x[1] is not None]
            b = [(x[0], x[1], x[2]) for x in ref[slot] if x[1] is not None]
            what_d = "events" if a != b else "samples" if [x[0] for x in got] != [x[0] for x in ref[slot]] else "state-values"
            first = next((j for j, (x, y) in enumerate(zip(got, ref[slot])) if x != y), min(len(got), len(ref[slot])))
            t.fail(f"reuse/interleaved-create/{what_d}/{prop}", "re-using the same listener objects gives the same stream as fresh objects, "
                   "whenever the iterators are created (creating an iterator does not touch the listeners)", case, b[:8], a[:8],
                   f"stream {slot} after {script[:i+1]}: {len(got)} items vs {len(ref[slot])} fresh; first difference at item {first}: "
                   f"{[x[:3] for x in got[first:first+2]]} vs {[x[:3] for x in ref[slot][first:first+2]]}")
            return
    t.ev(skey if any(x[1] is not None for x in ref["A"]) else None)
    t.outcome(f"weave-ok {len(script)} ops")


def check_ephwin(case, t):
    """Ephem.iter with listeners at the ephemeris' own step, start / stop omitted, on the first / last point, strictly inside
    on a node or strictly inside between two nodes.  The inside dates are placed right after (start) / right before (stop)
    an event found by a first full iteration, so that a sign change lies in the recorded interval just outside the window."""
    orbit, lkeys, sv, ev_ = case["orbit"], case["lset"], case["start"], case["stop"]
    skey = ("ephwin", orbit, tuple(lkeys), sv, ev_)
    t.state(skey)
    c0 = Ctx(orbit, "ephem", 60, lkeys)
    c0.window = (None, None)
    first = run_stream(c0, t, case)
    if first is None:
        return
    evd = sorted(us_of(x.date) for x in first if x.event is not None)
    if len(evd) < 3:
        t.exclude("window case without enough events")
        return
    minute = 60 * 10 ** 6
    after = lambda d: EPH_LEAD_US + ((d - EPH_LEAD_US) // minute + 1) * minute  # first node after d
    # strictly between two nodes: right after the event (start) / right before it (stop), inside the event's own interval
    b0 = evd[1] + 2 * 10 ** 6 if evd[1] + 2 * 10 ** 6 < after(evd[1]) else evd[1] + 1
    b1 = evd[-2] - 2 * 10 ** 6 if evd[-2] - 2 * 10 ** 6 > after(evd[-2]) - minute else evd[-2] - 1
    start = {"omit": None, "first": EPH_LEAD_US, "node": after(evd[1]), "between": b0}[sv]
    stop = {"omit": None, "last": c0.eph_last_us(), "node": after(evd[-2]) - minute, "between": b1}[ev_]
    ctx = Ctx(orbit, "ephem", 60, lkeys)
    ctx.window = (start, stop)
    items = run_stream(ctx, t, case)
    if items is None:
        return
    nev = check_semantics(ctx, items, t, case)
    t.ev(skey if nev else None)
    t.outcome(f"ephwin start={sv} stop={ev_}")


def _ev_list(items):
    return [(us_of(x.date), None if x.event is None else str(x.event.info)) for x in items]


def check_vislist(case, t):
    """The same `events=` list / `listeners=` list object re-used for several visibility() calls (same station again, another
    station): every call must give the stream of fresh objects, and the caller's list must be left as it was."""
    from beyond.dates import timedelta
    from beyond.frames import create_station

    orbit, prop, step, kw_name, extra, calls = case["orbit"], case["prop"], case["step"], case["kw"], case["extra"], case["calls"]
    skey = ("vislist", orbit, prop, step, kw_name, tuple(extra), tuple(calls))
    t.state(skey)
    s0, s1 = _span(orbit, step)
    rng = dict(start=_epoch() + timedelta(seconds=s0), stop=_epoch() + timedelta(seconds=s1), step=timedelta(seconds=step))

    def world():
        ctx = Ctx(orbit, prop, step, [])
        stations = {"A": ctx.station, "B": create_station("STB" + orbit.upper(), STATION_B[orbit])}
        return ctx, stations

    def call(station, lst):
        if kw_name == "events":
            return list(station.visibility(make_orbit(orbit, prop), events=lst, **rng))
        return list(station.visibility(make_orbit(orbit, prop), listeners=lst, events=True, **rng))

    try:
        # reference: fresh world, fresh list, fresh listener objects for every call
        ref = {}
        for name in sorted(set(calls)):
            ctx, stations = world()
            ref[name] = _ev_list(call(stations[name], [make_listener(k, ctx.station) for k in extra]))
        ctx, stations = world()
        user = [make_listener(k, ctx.station) for k in extra]
        before = list(user)
        for i, name in enumerate(calls):
            got = _ev_list(call(stations[name], user))
            t.trans(len(got))
            t.state(skey + (i,))
            if len(user) != len(before) or any(a is not b for a, b in zip(user, before)):
                t.fail(f"visibility/list-reuse/caller-list-mutated/{kw_name}", "visibility() leaves the caller's list of listeners as it was", case,
                       [type(x).__name__ for x in before], [type(x).__name__ for x in user], f"after call {i + 1} ({name}) of {calls}")
                return
            if got != ref[name]:
                ge, re_ = [x for x in got if x[1]], [x for x in ref[name] if x[1]]
                t.fail(f"visibility/list-reuse/stream-differs/{kw_name}", "re-using the same list of listeners for a later visibility() call gives "
                       "the same stream as fresh objects", case, re_[:10], ge[:10], f"call {i + 1} ({name}) of {calls}: {len(ge)} events vs {len(re_)} fresh")
                return
    except Exception as e:
        t.fail(f"visibility/raises/{prop}", "station.visibility yields a stream", case, "stream", repr(e))
        return
    t.ev(skey)
    t.outcome(f"vislist {kw_name} {calls} ok")


def check_fromevent(case, t):
    """A second iteration whose initial orbit is an EVENT state yielded by a first iteration (as the orbit to iterate, or handed to
    station.visibility): its stream must be the one obtained from the same state without the event tag."""
    from beyond.dates import timedelta

    orbit, prop, step, first, nth, second = case["orbit"], case["prop"], case["step"], case["first"], case["nth"], case["second"]
    skey = ("fromevent", orbit, prop, step, tuple(first), nth, second)
    t.state(skey)
    ctx = Ctx(orbit, prop, step, first)
    items = run_stream(ctx, t, case)
    if items is None:
        return
    evs = [x for x in items if x.event is not None]
    if len(evs) <= nth:
        t.exclude("from-event case without enough events")
        return
    E = evs[nth]
    clean = E.copy()
    clean.event = None
    kw = dict(stop=timedelta(seconds=3600 if ORBITS[orbit][1] < 0.1 else 14400), step=timedelta(seconds=step))

    def second_stream(x):
        if second == "vis":
            return list(ctx.station.visibility(x, events=True, **kw))
        keys = [] if second == "iter-plain" else ["apside", "umbra"] if "node" in first else ["node", "apside"]
        return list(x.iter(listeners=[make_listener(k, ctx.station) for k in keys], **kw))

    try:
        ref = _ev_list(second_stream(clean))
        got_items = second_stream(E)
        got = _ev_list(got_items)
    except Exception as e:
        t.fail(f"iter/raises/{prop}/from-event", "an iteration started from an event state yields a stream", case, "stream", repr(e))
        return
    t.trans(len(ref) + len(got))
    if got != ref:
        tagged = [x for x, y in zip(got, ref) if y[1] is None and x[1] is not None]
        t.fail(f"reuse/start-from-event-state/{second}/{prop}", "an iteration (or visibility) started from a state that a previous iteration "
               "yielded as an event gives the stream of the same state without the tag: plain samples carry no event", case,
               [x for x in ref if x[1]][:6] + [len(ref)], [x for x in got if x[1]][:6] + [len(got)],
               f"start state = event {_lab(E)}; {len(tagged)} plain samples carry an event label (e.g. {tagged[:2]}); {len(got)} items vs {len(ref)}")
        return
    t.ev(skey)
    t.outcome(f"fromevent {second} ok")


def check_visweave(case, t):
    """Two live station.visibility(..., events=True) generators advanced alternately (same station and two satellites, same station and
    the same satellite, two stations): each drained stream must equal the stream of a single generator in a fresh world."""
    from beyond.dates import timedelta
    from beyond.frames import create_station

    orbit, prop, step, config, chunk = case["orbit"], case["prop"], case["step"], case["config"], case["chunk"]
    skey = ("visweave", orbit, prop, step, config, chunk)
    t.state(skey)
    s0, s1 = _span(orbit, step)
    rng = dict(start=_epoch() + timedelta(seconds=s0), stop=_epoch() + timedelta(seconds=s1), step=timedelta(seconds=step))

    def world():
        ctx = Ctx(orbit, prop, step, [])
        sta = {"A": ctx.station, "B": create_station("STB" + orbit.upper(), STATION_B[orbit])}
        sat = {"a": make_orbit(orbit, prop), "b": make_orbit(orbit + "-b", prop)}
        return sta, sat

    pairs = {"2sat": (("A", "a"), ("A", "b")), "samesat": (("A", "a"), ("A", "a")), "2sta": (("A", "a"), ("B", "a"))}[config]
    try:
        ref = []
        for st_, sa_ in pairs:
            sta, sat = world()
            ref.append(_ev_list(sta[st_].visibility(sat[sa_], events=True, **rng)))
        sta, sat = world()
        gens = [sta[st_].visibility(sat[sa_], events=True, **rng) for st_, sa_ in pairs]
        got, live = [[], []], [True, True]
        while any(live):
            for i in (0, 1):
                for _ in range(chunk if live[i] else 0):
                    try:
                        got[i].append(next(gens[i]))
                    except StopIteration:
                        live[i] = False
                        break
        got = [_ev_list(g) for g in got]
    except Exception as e:
        t.fail(f"visibility/raises/{prop}", "station.visibility yields a stream", case, "stream", repr(e))
        return
    t.trans(sum(len(g) for g in got) + sum(len(r) for r in ref))
    for i in (0, 1):
        if got[i] != ref[i]:
            ge, re_ = [x for x in got[i] if x[1]], [x for x in ref[i] if x[1]]
            t.fail(f"visibility/interleaved/{config}/{prop}", "two visibility generators advanced alternately each give the stream of a generator "
                   "consumed alone (every call has listeners of its own)", case, re_[:8], ge[:8],
                   f"generator {i + 1} {pairs[i]}: {len(ge)} events / {len(got[i])} points vs {len(re_)} / {len(ref[i])} alone")
            return
    t.ev(skey)
    t.outcome(f"visweave {config} ok")


STATION_B = {"iss": (-9.0, 6.0, 20.0), "mol": (62.0, -20.0, 100.0), "sso": (-20.0, 168.0, 10.0), "gto": (5.0, 135.0, 10.0)}


def check_case(case, t):
    kind = case["kind"]
    if kind == "vis":
        return check_visibility(case, t)
    if kind == "weave":
        return check_weave(case, t)
    if kind == "ephwin":
        return check_ephwin(case, t)
    if kind == "vislist":
        return check_vislist(case, t)
    if kind == "fromevent":
        return check_fromevent(case, t)
    if kind == "visweave":
        return check_visweave(case, t)
    orbit, prop, step, lkeys, mode = case["orbit"], case["prop"], case["step"], case["lset"], case.get("mode", "range")
    hist = case.get("hist", ["F"])
    bwd = case.get("dir") == "bwd"
    skey = (kind, orbit, prop, step, mode, tuple(lkeys), tuple(hist), tuple(case.get("align", ())), bwd)
    t.state(skey)
    variant, shift = (2 if kind == "hist" else 0), 0
    if kind == "aligned":
        # pass 1: where does the library put the n-th event?  pass 2: a sample `off` microseconds from that date
        nth, off = case["align"]
        c0 = Ctx(orbit, prop, step, lkeys, mode)
        first = run_stream(c0, t, case)
        if first is None:
            return
        evd = [us_of(x.date) for x in first if x.event is not None]
        if len(evd) <= nth:
            t.exclude("aligned case without enough events")
            return
        s0, _ = _span(orbit, step, 0)
        shift = (evd[nth] + off - s0 * 10 ** 6) % (step * 10 ** 6)
    if hist != ["F"]:
        ref = fresh_stream(orbit, prop, step, lkeys, mode, variant, t, case)  # before Ctx(): it restores the registries
    ctx = Ctx(orbit, prop, step, lkeys, mode, variant, shift, backward=bwd)
    if hist == ["F"]:
        items = run_stream(ctx, t, case)
        if items is None:
            return
        nev = check_semantics(ctx, items, t, case)
        t.ev(skey if nev else None)
        if nev and len(lkeys) <= 2:
            t.sample(dict(case, events=[_lab(x) for x in items if x.event is not None][:6]))
        return
    # history: the same listener objects through the prefix, then the final F must equal the fresh stream
    if ref is None:
        return
    out = None
    for i, op in enumerate(hist):
        out = apply_op(ctx, op, t, case)
        if op == "F":
            if out is None:
                return
            got = canon(out, ctx.listeners)
            t.state(skey + (i,))
            if got != ref:
                a = [(x[0], x[1], x[2]) for x in got if x[1] is not None]
                b = [(x[0], x[1], x[2]) for x in ref if x[1] is not None]
                what = "events" if a != b else "samples" if [x[0] for x in got] != [x[0] for x in ref] else "state-values"
                t.fail(f"reuse/stream-differs/{what}/{prop}", "re-using the same listener objects gives the same stream as fresh "
                       "objects", case, b[:8], a[:8], f"after history {hist[:i+1]}: {len(got)} items vs {len(ref)} fresh")
                return
    t.ev(skey if any(x[1] is not None for x in ref) else None)
    t.outcome(f"history-ok depth {len(hist)}")


# -- visibility stream ----------------------------------------------------------------------------------------


def check_visibility(case, t):
    import numpy as np
    from beyond.dates import timedelta
    from beyond.propagators import listeners as L

    orbit, prop, step = case["orbit"], case["prop"], case["step"]
    how, extra = case.get("how", "events=True"), case.get("extra", [])
    skey = ("vis", orbit, prop, step, how, tuple(extra))
    t.state(skey)
    ctx = Ctx(orbit, prop, step, [])
    if prop == "ephem":
        t.exclude("station.visibility takes an Orbit (Ephem speakers are covered by the listener cases)")
        return
    s0, s1 = _span(orbit, step)
    kw = dict(start=_epoch() + timedelta(seconds=s0), stop=_epoch() + timedelta(seconds=s1), step=timedelta(seconds=step))
    # every way of handing additional listeners to visibility(); fresh listener objects for each call
    xl = [make_listener(k, ctx.station) for k in extra]
    if how == "events=True":
        vkw = dict(events=True)
    elif how == "events=L":
        vkw = dict(events=xl[0])
    elif how == "events=[L]":
        vkw = dict(events=list(xl))
    elif how == "listeners+events":
        vkw = dict(listeners=list(xl), events=True)
    elif how == "listeners-only":
        vkw = dict(listeners=list(xl))
    else:
        raise ValueError(how)
    with_station = how != "listeners-only"
    try:
        allsamples = list(ctx.speaker.iter(**kw))
        vis = list(ctx.station.visibility(make_orbit(orbit, prop), **vkw, **kw))
        # the same listeners (same order: given listeners, then the station's own) in a plain iteration
        sl = [make_listener(k, ctx.station) for k in extra] + (L.stations_listeners(ctx.station) if with_station else [])
        stream = list(make_orbit(orbit, prop).iter(listeners=sl, **kw))
        allev = [x for x in stream if x.event is not None]
    except Exception as e:
        t.fail(f"visibility/raises/{prop}", "station.visibility yields a stream", case, "stream", repr(e))
        return
    t.trans(len(allsamples) + len(vis) + len(stream))
    exp_samples = []
    for s in allsamples:
        el, _ = elevation(s, orbit)
        if abs(el) < 1e-9:
            t.exclude("gate quantity within 1e-9 of its threshold at a sample")
            exp_samples.append((us_of(s.date), None))
        elif el >= 0:
            exp_samples.append((us_of(s.date), True))
    got_samples = [us_of(x.date) for x in vis if x.event is None]
    got_events = [(us_of(x.date), str(x.event.info)) for x in vis if x.event is not None]
    must = [d for d, f in exp_samples if f]
    may = set(d for d, f in exp_samples)
    if [d for d in got_samples if d in set(must)] != must or any(d not in may for d in got_samples):
        t.fail("visibility/samples", "the visibility stream contains exactly the above-horizon sample points", case,
               must[:10], got_samples[:10], f"{len(must)} expected, {len(got_samples)} yielded")
    # events: the station's own AOS/LOS/MAX(/mask) always; those of additional listeners only while above the horizon
    station_classes = (L.SignalEvent, L.MaxEvent)
    exp_events, opt_events, evs, hidden = [], set(), [], 0
    for x in allev:
        rec = (us_of(x.date), str(x.event.info))
        if with_station and isinstance(x.event, station_classes):
            exp_events.append(rec)
            evs.append(x)
            continue
        el, _ = elevation(x, orbit)
        if abs(el) < 1e-9:
            t.exclude("gate quantity within 1e-9 of its threshold at a sample")
            opt_events.add(rec)
            exp_events.append(rec)
        elif el >= 0:
            exp_events.append(rec)
        else:
            hidden += 1
    if [e for e in got_events if e not in opt_events] != [e for e in exp_events if e not in opt_events]:
        plain = set((us_of(x.date), str(x.event.info)) for x in allev)
        unexpected = [e for e in got_events if e not in exp_events]
        below = [e for e in unexpected if e in plain]  # genuine events of the additional listeners, but out of view
        bogus = [e for e in unexpected if e not in plain]  # not events of the plain iteration with the same listeners at all
        sig = "visibility/events" if not extra else "visibility/extra-events/" + (
            "below-horizon" if below else "not-in-plain-iteration" if bogus else "missing")
        t.fail(sig, "the visibility stream contains the above-horizon sample points plus the AOS/LOS/MAX (and mask) events of the "
               "station; events of additional listeners only while the satellite is in view", case, exp_events[:10], got_events[:10],
               f"how={how} extra={extra}: {len(below)} out-of-view events yielded (e.g. {below[:3]}), {len(bogus)} events the plain iteration with "
               f"the same listeners does not produce (e.g. {bogus[:3]}), {len([e for e in exp_events if e not in got_events])} missing; "
               f"{hidden} extra events happen below the horizon")
    if extra:
        t.outcome(f"vis {how}: {hidden} hidden / {len(exp_events) - len(evs)} visible extra events")
    dd = [us_of(x.date) for x in vis]
    if any(b < a for a, b in zip(dd, dd[1:])):
        t.fail("visibility/order", "chronological order", case, None, dd[:10])
    for x in vis:
        if (x.frame.name, x.form.name) != (ctx.station.name, "spherical"):
            t.fail("visibility/tags", "points are given in the station frame, spherical form", case, [ctx.station.name, "spherical"],
                   [x.frame.name, x.form.name])
            break
    if extra:
        t.ev(skey if hidden else None)
        if hidden:
            t.sample(dict(case, hidden_extra_events=hidden, stream_events=got_events[:6]))
        return
    exp_events = [(us_of(x.date), str(x.event.info)) for x in evs]
    # events: elevation / elevation rate zero (independent elevation on the inertial state of the same event)
    for x in evs:
        el, rate = elevation(x, orbit)
        info = str(x.event.info)
        if info == "MAX":
            check_station_value(prop, "max", el, rate, x, t, case)
        elif isinstance(x.event, L.SignalEvent) and not isinstance(x.event, L.MaskEvent):
            check_station_value(prop, "sig", el, rate, x, t, case)
    # find_event / events_iterator views of the same iteration
    labels = [l for _, l in exp_events]
    for lab in sorted(set(labels)):
        # the real helper functions on (an iterator over) the real stream obtained above
        got = [us_of(x.date) for x in L.events_iterator(iter(stream), lab)]
        want = [d for d, l in exp_events if l == lab]
        if got != want:
            t.fail("events_iterator/selection", "events_iterator yields exactly the events with the requested label", case, want, got, lab)
        off = len(want) - 1
        try:
            fe = us_of(L.find_event(iter(stream), lab, offset=off).date)
        except Exception as e:
            fe = repr(e)
        if fe != want[off]:
            t.fail("find_event/offset", "find_event returns the N-th event with the label", case, want[off], fe, f"{lab} offset {off}")
    allev = [us_of(x.date) for x in L.events_iterator(iter(stream))]
    if allev != [d for d, _ in exp_events]:
        t.fail("events_iterator/selection", "events_iterator without label yields every event", case, [d for d, _ in exp_events], allev)
    try:
        r = L.find_event(iter(stream), "no such event")
        t.fail("find_event/missing", "find_event raises RuntimeError when the event does not occur", case, "RuntimeError", _lab(r))
    except RuntimeError:
        pass
    t.ev(skey if exp_events else None)
    t.outcome("vis: " + ",".join(sorted(set(labels))) + (" +samples" if got_samples else ""))
    if exp_events:
        t.sample(dict(case, events=exp_events[:6], visible_samples=len(got_samples)))


# ---------------------------------------------------------------------------
# engine interface


def histories(depth):
    out = []
    for n in range(1, depth + 1):
        for pre in itertools.product(HIST_OPS, repeat=n):
            out.append(list(pre) + ["F"])
    return out


def steps_for(orbit, tier):
    leo = ORBITS[orbit][1] < 0.1
    if tier == "quick":
        return [60, 180] if leo else [180, 600]
    return [30, 60, 180, 600] if leo else [60, 180, 600]


def cases(tier):
    out = []
    props = ["kepler", "sgp4", "num", "ephem"]
    quick = tier == "quick"
    # singles
    for orbit in ORBITS:
        for prop in props:
            if quick and orbit in ("sso", "gto") and prop != "kepler":
                continue
            for step in steps_for(orbit, tier):
                if quick and orbit in ("sso", "gto") and step != steps_for(orbit, tier)[-1]:
                    continue
                if quick and orbit == "mol" and prop in ("sgp4", "ephem") and step != 600:
                    continue
                for mode in ("range",) if quick else ("range", "dates"):
                    if mode == "dates" and step not in (180, 600):
                        continue
                    for key in LKEYS:
                        out.append(dict(kind="single", orbit=orbit, prop=prop, step=step, mode=mode, lset=[key]))
    # 'dates' call mode in the quick tier: a few cheap representatives per propagator; a coarse step on a near-circular
    # SGP4 orbit (osculating anomalies advance by up to 2 rad per step)
    if quick:
        for key in LKEYS:
            out.append(dict(kind="single", orbit="sso", prop="sgp4", step=600, mode="range", lset=[key]))
        for prop in props:
            for key in ("node", "apside", "umbra", "sig0"):
                out.append(dict(kind="single", orbit="iss", prop=prop, step=180, mode="dates", lset=[key]))
    # pairs
    pair_worlds = [("iss", "kepler", 180)] if quick else [("iss", "kepler", 180), ("mol", "kepler", 600), ("iss", "ephem", 180), ("mol", "num", 600),
                                                          ("sso", "sgp4", 180), ("gto", "kepler", 600), ("iss", "num", 600), ("gto", "ephem", 180)]
    for orbit, prop, step in pair_worlds:
        for a, b in itertools.combinations(LKEYS, 2):
            out.append(dict(kind="pair", orbit=orbit, prop=prop, step=step, mode="range", lset=[a, b]))
    # all together (two listener orders)
    for orbit in ORBITS:
        for prop in props:
            for step in ([180] if ORBITS[orbit][1] < 0.1 else [600]) if quick else steps_for(orbit, tier)[-2:]:
                out.append(dict(kind="all", orbit=orbit, prop=prop, step=step, mode="range", lset=list(LKEYS)))
                if not quick or prop in ("kepler", "ephem"):
                    out.append(dict(kind="all", orbit=orbit, prop=prop, step=step, mode="range", lset=list(reversed(LKEYS))))
    # histories (explicit-state part): shared listener objects through every prefix, one revolution
    for key in LKEYS:
        for h in histories(1 if quick else 2):
            out.append(dict(kind="hist", orbit="iss", prop="kepler", step=180, mode="range", lset=[key], hist=h))
    for prop in props:
        for h in histories((2 if prop == "kepler" else 1) if quick else 3):
            out.append(dict(kind="hist", orbit="iss", prop=prop, step=180, mode="range", lset=HIST_SET, hist=h))
    if not quick:
        for prop in props:
            for h in histories(2):
                out.append(dict(kind="hist", orbit="mol", prop=prop, step=600, mode="range", lset=HIST_SET, hist=h))
    # interleaved creation / consumption of several iterators sharing the listener objects (creation must be inert)
    for orbit, step in (("iss", 180),) if quick else (("iss", 180), ("mol", 600)):
        for prop in props:
            for sc in weave_scripts():
                out.append(dict(kind="weave", orbit=orbit, prop=prop, step=step, mode="range", lset=WEAVE_SET, script=sc))
            if not quick:
                for sc in weave_scripts()[:6]:
                    out.append(dict(kind="weave", orbit=orbit, prop=prop, step=step, mode="dates", lset=WEAVE_SET, script=sc))
    # iterations running backward in time (start > stop, decreasing DateRange, decreasing list of dates)
    bw = [("iss", "kepler", 180, "range"), ("iss", "kepler", 180, "dates"), ("iss", "sgp4", 180, "range"), ("iss", "ephem", 180, "dates-list"),
          ("mol", "kepler", 600, "range")]
    if not quick:
        bw += [("iss", "sgp4", 60, "dates-list"), ("iss", "ephem", 60, "dates"), ("mol", "ephem", 600, "dates-list"), ("gto", "kepler", 180, "dates-list"),
               ("sso", "sgp4", 180, "range"), ("mol", "sgp4", 600, "dates")]
    for orbit, prop, step, mode in bw:
        for key in LKEYS:
            out.append(dict(kind="single", orbit=orbit, prop=prop, step=step, mode=mode, lset=[key], dir="bwd"))
        out.append(dict(kind="all", orbit=orbit, prop=prop, step=step, mode=mode, lset=list(LKEYS), dir="bwd"))
    # forward iterations over an explicit list of dates
    for prop in ("kepler", "sgp4", "ephem"):  # (KeplerNum does not take a list: C08's subject)
        out.append(dict(kind="single", orbit="iss", prop=prop, step=180, mode="dates-list", lset=["node"]))
    # Ephem at its own step over a window: start / stop omitted, on the end points, strictly inside (on a node, between nodes)
    for orbit in ("iss",) if quick else ("iss", "mol"):
        for lset in (["node"], ["apside", "sig0"]):
            for sv in ("omit", "first", "node", "between"):
                for ev_ in ("omit", "last", "node", "between"):
                    out.append(dict(kind="ephwin", orbit=orbit, prop="ephem", step=60, lset=lset, start=sv, stop=ev_))
    # the same events= / listeners= list object handed to several visibility() calls
    for orbit, prop, step in (("iss", "kepler", 180),) if quick else (("iss", "kepler", 180), ("mol", "kepler", 600), ("iss", "sgp4", 180)):
        for kw_name in ("events", "listeners"):
            for extra in (["node"], ["anom-mean-3", "apside"]):
                for calls in (["A", "A"], ["A", "B"], ["B", "A", "A"]):
                    out.append(dict(kind="vislist", orbit=orbit, prop=prop, step=step, kw=kw_name, extra=extra, calls=calls))
    # coarse sampling of high orbits (bisection from hours down to the microsecond)
    for orbit, step in (("geo", 18000), ("geo", 3600), ("mol", 10800), ("mol", 18000)):
        for prop in ("kepler",):
            for key in ("node", "apside"):
                out.append(dict(kind="single", orbit=orbit, prop=prop, step=step, mode="range", lset=[key]))
    # Light listeners given an explicit frame
    for orbit, step in (("iss", 180),) if quick else (("iss", 180), ("sso", 60), ("mol", 600)):
        for fr in ("EME2000", "MOD", "TOD", "GCRF"):
            for b in ("umbra", "penumbra"):
                out.append(dict(kind="single", orbit=orbit, prop="kepler", step=step, mode="range", lset=[f"{b}@{fr}"]))
    # exact zeros of the watched function
    for orbit, plist in (("equ", ("kepler", "ephem", "num")), ("circ", ("kepler",)), ("iss0", ("kepler", "ephem"))):
        for prop in plist:
            for lset in (["node"], ["apside"], ["node", "apside", "umbra"]):
                out.append(dict(kind="single" if len(lset) == 1 else "all", orbit=orbit, prop=prop, step=180, mode="range", lset=lset))
            if not quick:
                out.append(dict(kind="single", orbit=orbit, prop=prop, step=60, mode="dates", lset=["node"]))
                out.append(dict(kind="single", orbit=orbit, prop=prop, step=180, mode="dates-list" if prop != "num" else "range", lset=["apside"], **({"dir": "bwd"} if prop != "num" else {})))
    # second iteration started from an event state of a first one
    for orbit, step in (("iss", 180),) if quick else (("iss", 180), ("mol", 600), ("sso", 60)):
        for prop in ("kepler", "num"):
            for first, nth in ((["node"], 0), (["sig0"], 1), (["apside", "max"], 1)):
                for second in ("iter", "iter-plain", "vis"):
                    out.append(dict(kind="fromevent", orbit=orbit, prop=prop, step=step, first=first, nth=nth, second=second))
    # two live visibility generators advanced alternately
    for orbit, prop, step in (("iss", "kepler", 180), ("iss", "sgp4", 180)) if quick else (("iss", "kepler", 180), ("iss", "sgp4", 180), ("iss", "num", 180), ("mol", "kepler", 600)):
        for config in ("2sat", "samesat", "2sta"):
            for chunk in (1, 3):
                if quick and prop == "sgp4" and chunk == 3:
                    continue
                out.append(dict(kind="visweave", orbit=orbit, prop=prop, step=step, config=config, chunk=chunk))
    # a sample exactly at / one microsecond around an event date
    for orbit in ("iss",) if quick else ("iss", "mol"):
        for prop in props:
            for key in ("node", "apside", "umbra", "sig0", "max") if quick else ("node", "node-itrf", "apside", "anom-mean-3", "umbra", "penumbra", "terminator", "sig0", "max", "mask", "rv"):
                for nth in (1,) if quick else (0, 1, 2):
                    for off in (-1, 0, 1) if quick else (-2, -1, 0, 1, 2):
                        out.append(dict(kind="aligned", orbit=orbit, prop=prop, step=180 if orbit == "iss" else 600, mode="range",
                                        lset=[key], align=[nth, off]))
    # visibility streams
    for orbit in ORBITS:
        for prop in ("kepler", "sgp4", "num"):
            for step in steps_for(orbit, tier):
                if quick and (orbit in ("sso", "gto") and prop != "kepler"):
                    continue
                if quick and step != steps_for(orbit, tier)[-1] and orbit != "iss":
                    continue
                out.append(dict(kind="vis", orbit=orbit, prop=prop, step=step))
    # visibility streams with additional listeners, handed over in every possible way
    for orbit, prop, step in (("iss", "kepler", 180),) if quick else \
            (("iss", "kepler", 180), ("mol", "kepler", 600), ("sso", "sgp4", 60), ("gto", "num", 600), ("iss", "sgp4", 60), ("mol", "num", 180)):
        for how, extras in VIS_EXTRA:
            for extra in extras:
                out.append(dict(kind="vis", orbit=orbit, prop=prop, step=step, how=how, extra=extra))
    return out


WEAVE_SET = ["node", "apside", "anom-mean-3", "sig0"]
VIS_EXTRA = [
    ("events=L", [["umbra"], ["node"], ["apside"], ["anom-mean-3"], ["terminator"]]),
    ("events=[L]", [["umbra", "node", "apside"], ["rv", "anom-true-90"]]),
    ("listeners+events", [["umbra", "node"], ["apside", "terminator"]]),
    ("listeners-only", [["node", "apside"], ["umbra"]]),
]


HIST_SET = ["node", "apside", "anom-mean-3", "umbra", "sig0", "max"]


# rough CPU model [ms], calibrated on measured per-case process times (only used to size and order the units)
W_MS = {"umbra": 3.3, "penumbra": 3.3, "terminator": 3.0, "node-itrf": 1.6, "sig0": 1.6, "sig10": 1.6, "max": 1.6,
        "mask": 2.6, "rv": 1.6, "rv-sight": 2.3}
PROD_MS = {"kepler": 0.35, "sgp4": 0.15, "ephem": 0.6, "num": 0.6}


def _cost(c):
    """Estimated CPU seconds of one case."""
    orbit, prop, step = c["orbit"], c["prop"], c["step"]
    if c["kind"] == "visweave":
        return 4 * _cost(dict(kind="vis", orbit=orbit, prop=prop, step=step)) / 2.2
    if c["kind"] == "fromevent":
        return 1.6 * _cost(dict(kind="single", orbit=orbit, prop=prop, step=step, lset=c["first"] + ["sig0", "max"]))
    s0, s1 = _span(orbit, step, 2 if c["kind"] in ("hist", "weave") else 0)
    nsamp = (s1 - s0) / step
    lset = c.get("lset") or (["sig0", "max", "mask"] + c.get("extra", []))
    if c["kind"] == "vislist":
        lset = ["sig0", "max", "mask"] + c["extra"]
    wl = sum(W_MS.get(base(k), 0.55) * (1.5 if "@" in k else 1.0) for k in lset)
    revs = (s1 - s0) / _period(orbit)
    events = 2.2 * revs * len(lset)
    per_event = 26 * (PROD_MS[prop] + 0.7 * wl / len(lset)) + 8.0
    one_iter = nsamp * (PROD_MS[prop] + 0.67 * wl) + 0.67 * events * per_event
    if prop == "num":
        one_iter += (s1 - s0) / (60.0 if _el(orbit)[1] < 0.1 else 120.0) * 1.3
    if prop == "ephem":
        one_iter += (s1 - s0) / 60.0 * 0.35
    check = nsamp * 0.33 * wl + 0.33 * events * per_event
    if c["kind"] == "vis":
        total = 2.2 * one_iter + check + nsamp * 1.0
    elif c["kind"] == "vislist":
        total = one_iter * (len(c["calls"]) + len(set(c["calls"]))) * 1.3
    elif c["kind"] == "ephwin":
        total = 2 * one_iter + check
    elif c["kind"] == "weave":
        total = one_iter * (0.5 * len(c["script"]) + 0.6)
    elif c["kind"] == "hist":
        total = one_iter * (0.45 * (len(c["hist"]) - 1) + 1.0) + 0.3 * one_iter
    elif c["kind"] == "aligned":
        total = 2 * one_iter + check
    else:
        total = one_iter + check
        if prop == "kepler" and any(base(k) in ("umbra", "penumbra") for k in lset):
            total += (s1 - s0) / 20.0 * 0.08
    return 0.5 * total / 1000.0 + 0.03


def units(tier, seed):
    cfg = {"eop": "pass"}
    # consecutive cases (same world, same listener set for the histories -> shared fresh stream) are chunked into units of
    # about `target` CPU seconds; units are submitted in decreasing estimated cost (the pool schedules dynamically)
    target = 2.5 if tier == "quick" else 12.0
    chunks, cur, acc, last = [], [], 0.0, None
    for c in cases(tier):
        k = (c["kind"], c["orbit"], c["prop"], c["step"], c.get("dir"), c.get("mode"))
        w = _cost(c)
        if cur and (acc + w > target or k != last):
            chunks.append((acc, cur))
            cur, acc = [], 0.0
        cur.append(c)
        acc += w
        last = k
    if cur:
        chunks.append((acc, cur))
    chunks.sort(key=lambda x: -x[0])
    u = [(cfg, dict(cases=cs)) for _, cs in chunks]
    if seed:
        r = seed % len(u)
        u = u[r:] + u[:r]
    return u


def run_unit(payload, t):
    for c in payload["cases"]:
        check_case(c, t)


def replay(case, t):
    case = {k: v for k, v in case.items() if k not in ("events", "visible_samples")}
    check_case(case, t)
