"""C11 — ground-station geometry matches independent geodesy.

Exhaustive product (E2): station sites (lat x lon x alt) x targets given in the
reference model's own east-north-up pointing (azimuth x elevation x range x
velocity) x dates, executed on the real `create_station`,
`StateVector.copy(frame=station, form="spherical")`, `Range/Azimut/Elevation/
Doppler.from_orbit` and `get_mask`, compared with mc/ref/geodesy.py
(ellipsoid normal through the reduced latitude, ENU basis, az/el/range and
rates, piecewise-linear mask on the circle).
"""

import datetime
import math

import numpy as np

PROPERTY = "C11"
CLAIM = dict(
    text="Every station of a latitude x longitude x altitude alphabet (both hemispheres, all four longitude quadrants, near-pole, "
    "near-equator on both sides, -400 m .. 9 km) is created with the real create_station; every target of an "
    "azimuth x elevation x range x velocity alphabet is placed with an independent ellipsoid/ENU model and converted by the real "
    "code: range, elevation, azimuth (= -theta), the x-north/y-west/z-up components, their rates and the four simulated measures "
    "must agree at cancellation-limited round-off; the station origin must be the geodetic point, at rest in ITRF and moving "
    "with omega x r in TOD/EME2000/GCRF. Masks: every knot, midpoint, +-1e-9 neighbourhood, 0, 2 pi and shifted copies outside "
    "[0, 2 pi) of 6 table shapes against piecewise-linear interpolation on the circle.",
    note="The ellipsoid (a, f) is read from beyond.constants.Earth as data. Trusts mc/ref/geodesy.py (two formulations of the "
    "ellipsoid point, inverse pair, gradient normal, rates vs numerical differences) and, for the inertial velocity of the "
    "station, the pole direction of mc/ref/earthrot.py. Runs with zero EOP (policy 'pass').",
    technique="exhaustive product over finite site/target/date alphabets on the real code vs. independent reference model",
)
RULE = (
    "cases = (station site, date, target) with the target defined by (azimuth, elevation, range, velocity) in the reference "
    "model's ENU frame, plus (station, date) origin cases and (mask table, query azimuth) cases; a target case is non-trivial "
    "when the target is off the station's vertical and off its origin (azimuth defined) - all enumerated targets are; "
    "distinct by construction"
)
BOUNDS = {
    "quick": "6 lat x 6 lon x 4 alt = 144 stations; 8 az x 4 el x 3 ranges x 2 velocities = 192 targets; 3 dates; per target Range on 7 signal paths (1-4 legs: one-way, two-way, three-way to a second station, relayed open/closed) and Azimut/Elevation/Doppler on one of the 7 in turn; every 8th target also measured from the same state given as cartesian/spherical in ITRF, EME2000, the measuring station and a second station; 6 mask tables x ~60 queries; mask histories: all 30 ordered table pairs on two re-used stations (table re-assigned 3 times, 14 azimuths); re-registration histories: the station name defined at 2-3 of 4 sites in turn (24 sequences x reset/no reset), origin + 28 targets after each definition; stations on parent frames PEF and TIRF with real IERS polar motion (4 sites x 3 dates x 28 targets, own worker group); 6 integer-valued sites x 10 argument types (tuple/list/ndarray, int/float/numpy-int/mixed)",
    "thorough": "10 lat x 8 lon x 4 alt = 320 stations; 12 az x 6 el x 4 ranges x 3 velocities = 864 targets; 3 dates; same masks, 2 stations",
}
ASSUMPTIONS = [
    "ellipsoid semi-major axis and flattening are data of the tree (Earth.equatorial_radius, Earth.flattening)",
    "targets are given in ITRF (the station's parent frame): Earth-rotation modelling belongs to C02",
    "mask tables starting at azimuth 0 give the same elevation at 0 and at 2 pi (otherwise the property text is ambiguous at 0)",
    "Azimut measures hold theta (the library's counter-clockwise angle), azimuth = -theta as the property states",
]
NOT_COVERED = (
    "latitudes within 0.1 deg of the poles; targets exactly on the station's vertical; mask tables violating the documented "
    "convention; `equatorial=True` stations; light-time (the library's measures are geometric)"
)

LATS_Q = [-89.9, -45.0, -0.001, 0.0, 33.3, 89.9]
LONS_Q = [-179.9, -80.65, 0.0, 1.44, 120.0, 359.0]
LATS_T = LATS_Q + [-60.0, 0.001, 51.5, 75.0]
LONS_T = LONS_Q + [-30.0, 180.0]
ALTS = [-400.0, 0.0, 172.0, 9000.0]
AZ_Q = [k * math.pi / 4 for k in range(8)]
AZ_T = AZ_Q + [0.3, 2.0, 4.0, 6.2]
EL_Q = [math.radians(v) for v in (-10.0, 0.5, 45.0, 89.0)]
EL_T = EL_Q + [0.0, math.radians(89.99)]
RANGES_Q = [1e3, 8e5, 4e7]
RANGES_T = RANGES_Q + [10.0]
VELS_Q = [(0.0, 0.0, 0.0), (4200.0, -5800.0, 2300.0)]  # ENU m/s, |v| = 7.52 km/s
VELS_T = VELS_Q + [(-10.0, 3.0, -7000.0)]
DATES = [(1980, 2, 10, 0, 0, 30), (2004, 4, 6, 7, 51, 28), (2016, 6, 15, 12, 0, 0)]
EPS = 2.220446049250313e-16

_G = {}
POLE = "/repo/tests/data/pole"  # IERS tables (data)


def setup(config):
    import logging
    from beyond.config import config as bc

    kind = (config or {}).get("eop", "pass")
    if kind == "real":  # stations on a non-default parent frame need real polar motion to mean anything
        bc.update({"eop": {"missing_policy": "error", "folder": POLE, "type": "all"}})
    else:
        bc.update({"eop": {"missing_policy": "pass"}})
    lg = logging.getLogger("beyond")
    lg.handlers[:] = [logging.NullHandler()]
    lg.propagate = False
    _G.clear()
    _G["kind"] = kind


def _world():
    if "snap" not in _G:
        import os
        from mc import world, engine
        from mc.ref import earthrot as er
        from beyond.constants import Earth

        _G["snap"] = world.snapshot()
        _G["a"], _G["f"] = float(Earth.equatorial_radius), float(Earth.flattening)
        _G["nut"] = er.read_nutation_1980(os.path.join(engine.repo_path(), "beyond", "frames", "data", "tab5.1.txt"))
    return _G


def mk_date(dt):
    from beyond.dates import Date

    return Date(*[int(v) for v in dt])


def wrap(a):
    return (a + math.pi) % (2 * math.pi) - math.pi


class CreateFailed(Exception):
    pass


ARGTYPES = ["tuple-float", "tuple-int", "list-int", "list-float", "ndarray-int", "ndarray-float", "tuple-npint", "tuple-int-int-float",
            "tuple-float-int-int", "list-int-float-int"]
INT_SITES = [(45, 10, 100), (-33, -71, 520), (0, 0, 0), (-89, 359, 9000), (12, -180, -400), (1, 1, 1)]


def coords_arg(argtype, lat_d, lon_d, alt):
    """The (lat, lon, alt) argument of create_station in the given Python representation (same numbers)."""
    f, i = (float(lat_d), float(lon_d), float(alt)), None
    if "int" in argtype:
        i = (int(lat_d), int(lon_d), int(alt))
        if i != f:
            raise ValueError("integer argument types need integer-valued coordinates")
    return {
        "tuple-float": lambda: f,
        "tuple-int": lambda: i,
        "list-int": lambda: list(i),
        "list-float": lambda: list(f),
        "ndarray-int": lambda: np.array(i, dtype=np.int64),
        "ndarray-float": lambda: np.array(f, dtype=float),
        "tuple-npint": lambda: tuple(np.int32(v) for v in i),
        "tuple-int-int-float": lambda: (i[0], i[1], f[2]),
        "tuple-float-int-int": lambda: (f[0], i[1], i[2]),
        "list-int-float-int": lambda: [i[0], f[1], i[2]],
    }[argtype]()


def parent_matrix(parent, dt):
    """Reference 3x3 matrix ITRF -> parent (PEF or TIRF) at the UTC date dt, from the IERS record of that day."""
    import os
    from mc.ref import earthrot as er

    key = ("W", parent, tuple(dt))
    if key not in _G:
        G = _world()
        if "iers" not in _G:
            _G["iers"] = er.IersTable(POLE)
            _G["leap"] = er.LeapSeconds(os.path.join(POLE, "tai-utc.dat"))
        mjd = (datetime.date(dt[0], dt[1], dt[2]) - datetime.date(1858, 11, 17)).days
        sod = dt[3] * 3600 + dt[4] * 60 + dt[5]
        eop = er.Eop(tai_utc=_G["leap"].tai_utc(mjd), **_G["iers"].get(mjd))
        ref = er.EarthRotation(mjd, sod, eop, G["nut"])
        _G[key] = {"PEF": ref.ITRF_to_PEF, "TIRF": ref.ITRF_to_TIRF}[parent]()
    return _G[key]


def make_station(name, lat_d, lon_d, alt, mask=None, argtype="tuple-float", parent=None):
    from mc import world
    from beyond.frames import create_station

    G = _world()
    world.restore(G["snap"])
    _G.pop("masksta_key", None)
    arg = coords_arg(argtype, lat_d, lon_d, alt)
    keep = (type(arg), [type(v) for v in arg], [float(v) for v in arg])
    try:
        if parent:
            from beyond.frames.frames import get_frame

            sta = create_station(name, arg, parent_frame=get_frame(parent), mask=mask)
        else:
            sta = create_station(name, arg, mask=mask)
    except Exception as e:  # the property requires a station for every coordinate triple
        raise CreateFailed(f"create_station({arg!r}) raised {type(e).__name__}: {e}") from e
    # a second, distinct station (receiving end of three-way / relayed signal paths; another topocentric frame),
    # created AFTER the station under test: the first station must not be affected by later registrations
    _G["stb"] = create_station("StaB", (-(lat_d * 0.5) + 7.0, lon_d + 40.0, 250.0))
    _G["stc"] = create_station("StaC", (lat_d * 0.3 - 20.0, lon_d - 95.0, 1200.0))
    if (type(arg), [type(v) for v in arg], [float(v) for v in arg]) != keep:
        _G["arg_mutated"] = (keep[2], [float(v) for v in arg])
    else:
        _G.pop("arg_mutated", None)
    return sta


# ---------------------------------------------------------------------------
# one target


def signal_paths(sta, stb):
    """(label, path, number of legs): one-way, two-way, three-way (other station), relayed open/closed paths."""
    return [
        ("1-leg", [sta, "sat"], 1),
        ("2-legs/two-way", [sta, "sat", sta], 2),
        ("2-legs/three-way", [sta, "sat", stb], 2),
        ("3-legs/relay-other-station", [sta, "RELAY", "sat", stb], 3),
        ("3-legs/relay-closed", [sta, "RELAY", "sat", sta], 3),
        ("4-legs/relay-closed", [sta, "RELAY", "sat", "RELAY", sta], 4),
        ("4-legs/two-relays-other-station", [sta, "R1", "sat", "R2", stb], 4),
    ]


N_PATHS = 7
VARIANT_EVERY = 8  # every 8th target of a (site, date) is also measured from 7 other (frame, form) representations


def check_target(sta, site, dt, date, tg, t, with_measures=True, pidx=0, argtype=None, variants=False, parent=None):
    """site = (lat_d, lon_d, alt); tg = (az, el, range, (vE, vN, vU))."""
    from mc.ref import geodesy as gd
    from beyond.orbits import StateVector
    from beyond.utils.measures import Range, Azimut, Elevation, Doppler

    G = _world()
    lat, lon, alt = math.radians(site[0]), math.radians(site[1]), site[2]
    az, el, rng, vel = tg
    case = dict(kind="target", site=list(site), date=list(dt), target=[az, el, rng, list(vel)], pidx=int(pidx), variants=bool(variants))
    if argtype:
        case["argtype"] = argtype
    case.update(_G.get("case_extra") or {})
    s_ecef = gd.geodetic_to_ecef(lat, lon, alt, G["a"], G["f"])
    enu = gd.enu_from_az_el_range(az, el, rng)
    r_ecef = s_ecef + gd.enu_to_ecef(enu, lat, lon)
    v_ecef = gd.enu_to_ecef(np.array(vel, dtype=float), lat, lon)
    az_dot, el_dot, rr = gd.az_el_range_rates(enu, vel)
    if parent:
        # site and ENU axes are those of the PARENT frame; the target is handed over in ITRF through the reference
        # polar-motion matrix (ITRF, PEF and TIRF do not rotate w.r.t. each other: velocities transform alike)
        Wt = parent_matrix(parent, dt).T
        r_ecef, v_ecef = Wt @ r_ecef, Wt @ v_ecef
        case["parent"] = parent
        case["config"] = {"eop": "real"}
    sv = StateVector(np.concatenate([r_ecef, v_ecef]), date, "cartesian", "ITRF")
    sig = "hemisphere-" + ("N" if site[0] >= 0 else "S") + ("E" if math.sin(lon) >= 0 else "W")
    try:
        sph = sv.copy(frame=sta, form="spherical")
        car = sv.copy(frame=sta)
    except Exception as e:
        t.fail("station/convert-raises", "a target converts into the station frame", case, "state", repr(e))
        return
    t.trans(2)
    sph = np.array(sph, dtype=float)
    car = np.array(car, dtype=float)
    # tolerances: the difference target - station cancels |s| ~ 6.4e6 m -> 16 eps (|s| + range) in position
    perr = 16 * EPS * (float(np.linalg.norm(s_ecef)) + rng)
    speed = float(np.linalg.norm(vel))
    verr = 16 * EPS * speed
    horiz = rng * math.cos(el)
    tol_r = perr + 4 * EPS * rng
    tol_el = perr / rng + 8 * EPS / math.cos(el)  # arcsin(z / r) is conditioned by 1 / cos(el)
    tol_az = perr / horiz + 8 * EPS
    ok = True
    # cartesian: x north, y west, z up
    exp_car = np.array([enu[1], -enu[0], enu[2], vel[1], -vel[0], vel[2]], dtype=float)
    dpos = float(np.max(np.abs(car[:3] - exp_car[:3])))
    if not t.margin("cartesian x-north/y-west/z-up position [m / tol]", dpos, perr, case):
        ok = False
        t.fail("station/axes", "x north, y west, z up", case, exp_car[:3].tolist(), car[:3].tolist(), f"max component error {dpos:.3e} m")
    if speed:
        dvel = float(np.max(np.abs(car[3:] - exp_car[3:])))
        if not t.margin("cartesian velocity [m/s / tol]", dvel, verr, case):
            ok = False
            t.fail("station/axes-velocity", "station frame is at rest in its parent: velocity only rotates", case, exp_car[3:].tolist(), car[3:].tolist(), f"{dvel:.3e} m/s")
    elif np.any(car[3:] != 0.0):
        ok = False
        t.fail("station/axes-velocity", "a target at rest in ITRF is at rest in the station frame", case, [0, 0, 0], car[3:].tolist())
    # spherical
    r, theta, phi, r_dot, theta_dot, phi_dot = sph
    if not t.margin("range [m / tol]", abs(r - rng), tol_r, case):
        ok = False
        t.fail("station/range", "r equals the ENU range", case, rng, r)
    if not t.margin("elevation [rad / tol]", abs(phi - el), tol_el, case):
        ok = False
        t.fail("station/elevation", "phi equals the elevation above the ellipsoid's local horizontal", case, el, phi,
               f"phi - el = {phi - el:.3e} rad")
    daz = abs(wrap(-theta - az))
    if not t.margin("azimuth = -theta [rad / tol]", daz, tol_az, case):
        ok = False
        t.fail("station/azimuth", "-theta equals the azimuth (north towards east) mod 2 pi", case, az, -theta, f"-theta - az = {wrap(-theta - az):.3e} rad")
    if speed:
        tol_rr = verr + speed * (perr / rng) + 4 * EPS * speed
        # el_dot = (U' h^2 - U (E E' + N N')) / (rho^2 h), h = horizontal distance: a position error perr enters as speed perr / (rho h)
        tol_eld = (verr + speed * perr / horiz) / rng + 8 * EPS * speed / rng / math.cos(el)
        tol_azd = (verr + speed * perr / horiz) / horiz + 8 * EPS * speed / horiz
        if not t.margin("range rate [m/s / tol]", abs(r_dot - rr), tol_rr, case):
            ok = False
            t.fail("station/range-rate", "r_dot equals the ENU range rate", case, rr, r_dot)
        if not t.margin("elevation rate [rad/s / tol]", abs(phi_dot - el_dot), tol_eld, case):
            ok = False
            t.fail("station/elevation-rate", "phi_dot equals the elevation rate", case, el_dot, phi_dot)
        if not t.margin("azimuth rate = -theta_dot [rad/s / tol]", abs(-theta_dot - az_dot), tol_azd, case):
            ok = False
            t.fail("station/azimuth-rate", "-theta_dot equals the azimuth rate", case, az_dot, -theta_dot)
    # measures: exactly the topocentric quantities, range once per leg
    if with_measures:
        name = sta.name
        paths = signal_paths(sta, _G["stb"])
        lbl_a, path_a, _ = paths[pidx % N_PATHS]  # the angle / range-rate measures take the paths in turn
        try:
            m_rs = [Range(pth, date, None).from_orbit(sv) for _, pth, _ in paths]
            m_az = Azimut(path_a, date, None).from_orbit(sv)
            m_el = Elevation(path_a, date, None).from_orbit(sv)
            m_dp = Doppler(path_a, date, None).from_orbit(sv)
        except Exception as e:
            t.fail("measures/raises", "measures can be simulated from an orbit", case, "10 measures", repr(e))
            return
        t.trans(N_PATHS + 3)
        m_r1 = m_rs[0]
        obs = [float(m.value) for m in m_rs] + [float(m_az.value), float(m_el.value), float(m_dp.value)]
        # bit-for-bit the spherical coordinates of the same conversion; range once per leg, the others never scaled
        exp = [r * legs for _, _, legs in paths] + [theta, phi, r_dot]
        ref = [rng * legs for _, _, legs in paths] + [None, el, rr]
        names = ["Range/" + lbl for lbl, _, _ in paths] + ["Azimut/" + lbl_a, "Elevation/" + lbl_a, "Doppler/" + lbl_a]
        for nm, o, e, rf in zip(names, obs, exp, ref):
            if o != e:
                ok = False
                t.fail(f"measures/{nm}", "measure equals the topocentric quantity (range x number of legs; angles and range rate unscaled)", case, e, o,
                       f"{nm}: {o!r} vs spherical coordinate {e!r} (reference {rf!r})")
        for m, (lbl, pth, _) in zip(m_rs, paths):
            if list(m.path) != list(pth):
                t.fail("measures/metadata", "measure carries the orbit's date and the station path", case, [str(x) for x in pth], [str(x) for x in m.path])
        if m_r1.date != date or m_r1.path[0] is not sta:
            t.fail("measures/metadata", "measure carries the orbit's date and the station path", case, [str(date), name], [str(m_r1.date), str(m_r1.path[0])])
        bad_range = any(abs(o - rf) > legs * tol_r for o, rf, (_, _, legs) in zip(obs[:N_PATHS], ref[:N_PATHS], paths))
        if bad_range or abs(wrap(-obs[N_PATHS] - az)) > tol_az or abs(obs[N_PATHS + 1] - el) > tol_el:
            ok = False
            t.fail("measures/vs-reference", "measures equal the independent ENU quantities", case, ref[:N_PATHS] + [-az, el], obs[: N_PATHS + 2])
        if speed and abs(obs[N_PATHS + 2] - rr) > tol_rr:
            ok = False
            t.fail("measures/vs-reference", "measures equal the independent ENU quantities", case, rr, obs[N_PATHS + 2])
    if variants and with_measures:
        # the same physical state handed over in other frames / forms: every measure must come out the same
        stb = _G["stb"]
        perr_v = 8 * perr  # two more affine maps (through EME2000 / another station), same cancellation
        verr_v = 8 * verr + 7.3e-5 * perr_v + 128 * EPS * 7.3e-5 * (float(np.linalg.norm(s_ecef)) + rng)
        path = [sta, "sat", stb]
        for fname, frame in (("ITRF", "ITRF"), ("EME2000", "EME2000"), ("own-station", sta), ("other-station", stb)):
            for form in ("cartesian", "spherical"):
                if fname == "ITRF" and form == "cartesian":
                    continue
                vcase = dict(case, given=[fname, form])
                pe, ve = perr_v, verr_v
                try:
                    if form == "spherical":
                        # phi = arcsin(z / r) in that frame: the representation itself is conditioned by 1 / cos(phi)
                        xc = np.array(sv.copy(frame=frame), dtype=float)
                        rr_f = float(np.linalg.norm(xc[:3]))
                        cphi = max(math.hypot(xc[0], xc[1]) / rr_f, 1e-12)
                        pe += 8 * EPS * rr_f / cphi
                        # velocities: theta_dot = (x vy - y vx) / rho^2 and cos(phi) = cos(arcsin(z / r)) lose eps / cos^2(phi)
                        ve += 16 * EPS * float(np.linalg.norm(xc[3:])) / (cphi * cphi) + 7.3e-5 * 8 * EPS * rr_f / cphi
                    tr, te, ta = pe + 4 * EPS * rng, pe / rng + 8 * EPS / math.cos(el), pe / horiz + 8 * EPS
                    trr = ve + speed * (pe / rng) + 4 * EPS * speed
                    x = sv.copy(frame=frame, form=form)
                    got = [float(Range(path, date, None).from_orbit(x).value), float(Azimut(path, date, None).from_orbit(x).value),
                           float(Elevation(path, date, None).from_orbit(x).value), float(Doppler(path, date, None).from_orbit(x).value)]
                except Exception as e:
                    t.fail(f"measures/state-representation/raises/{fname}-{form}", "measures accept an orbit in any frame and form", vcase, "4 measures", repr(e))
                    continue
                t.trans(5)
                errs = [abs(got[0] - 2 * rng) / (2 * tr), abs(wrap(-got[1] - az)) / ta, abs(got[2] - el) / te, (abs(got[3] - rr) / trr) if speed else (0.0 if abs(got[3]) <= 8 * ve + 1e-9 else 9.9)]
                worst = max(errs)
                if not t.margin("measures of the same state given in other frames/forms [error / tol]", worst, 1.0, vcase) or not (worst == worst):
                    ok = False
                    t.fail(f"measures/state-representation/{fname}-{form}", "a measure depends on the physical state only, not on the frame/form it is given in",
                           vcase, [2 * rng, -az, el, rr], got, f"state given as {form} in {fname}: Range/Azimut/Elevation/Doppler errors / tol = {[round(e, 3) for e in errs]}")
                t.outcome(("given", fname, form))
    t.outcome(("target", sig, round(math.degrees(el)), rng, bool(speed), ok))
    t.ev(("T", tuple(site), tuple(dt), az, el, rng, tuple(vel)))


def check_origin(sta, site, dt, date, t, argtype=None):
    """Station origin: the geodetic point, at rest in ITRF, omega x r in inertial frames."""
    from mc.ref import geodesy as gd, earthrot as er
    from beyond.orbits import StateVector

    G = _world()
    lat, lon, alt = math.radians(site[0]), math.radians(site[1]), site[2]
    case = dict(kind="origin", site=list(site), date=list(dt))
    if argtype:
        case["argtype"] = argtype
    case.update(_G.get("case_extra") or {})
    if _G.get("arg_mutated"):
        t.fail("station/argument-mutated", "create_station leaves the caller's coordinates untouched", case, _G["arg_mutated"][0], _G["arg_mutated"][1])
    s_ecef = gd.geodetic_to_ecef(lat, lon, alt, G["a"], G["f"])
    o = StateVector(np.zeros(6), date, "cartesian", sta)
    try:
        itrf = np.array(o.copy(frame="ITRF"), dtype=float)
        tod = np.array(o.copy(frame="TOD"), dtype=float)
        eme = np.array(o.copy(frame="EME2000"), dtype=float)
        gcrf = np.array(o.copy(frame="GCRF"), dtype=float)
    except Exception as e:
        t.fail("station/origin-raises", "the station origin converts to Earth-centred frames", case, "state", repr(e))
        return
    t.trans(4)
    R = float(np.linalg.norm(s_ecef))
    d = float(np.max(np.abs(itrf[:3] - s_ecef)))
    if not t.margin("station position vs geodetic point [m / (8 eps R)]", d, 8 * EPS * R, case):
        t.fail("station/position", "the station sits on the ellipsoid at the given height", case, s_ecef.tolist(), itrf[:3].tolist(), f"{d:.3e} m")
    # independent confirmation through the inverse problem
    la, lo, hh = gd.ecef_to_geodetic(itrf[:3], G["a"], G["f"])
    if abs(la - lat) > 1e-11 or abs(hh - alt) > 1e-7 or (abs(math.cos(lat)) > 1e-6 and abs(wrap(lo - lon)) > 1e-11):
        t.fail("station/position-inverse", "geodetic coordinates of the station are the given ones", case, [lat, lon, alt], [la, lo, hh])
    if np.any(itrf[3:] != 0.0):
        t.fail("station/not-at-rest", "the station is at rest in the Earth-fixed frame", case, [0, 0, 0], itrf[3:].tolist())
    # inertial velocity = omega x r (zero EOP: nominal rate); pole = z of TOD, P N z in EME2000, ~ B^T P N z in GCRF
    mjd = (datetime.date(dt[0], dt[1], dt[2]) - datetime.date(1858, 11, 17)).days
    sod = dt[3] * 3600 + dt[4] * 60 + dt[5]
    ref = er.EarthRotation(mjd, sod, er.Eop(), G["nut"])
    z = np.array([0.0, 0.0, 1.0])
    pole_eme = ref.MOD_to_EME2000() @ ref.TOD_to_MOD() @ z
    for nm, x, pole, tol in (
        ("TOD", tod, z, 64 * EPS * 465.0),
        ("EME2000", eme, pole_eme, 64 * EPS * 465.0 + 465.0 * 1e-12),
        ("GCRF", gcrf, er.frame_bias().T @ pole_eme, 465.0 * 0.1 * er.ARCSEC + 1e-9),
    ):
        exp = er.OMEGA_EARTH * np.cross(pole, x[:3])
        dv = float(np.linalg.norm(x[3:] - exp))
        if not t.margin(f"station velocity in {nm} vs omega x r [m/s / tol]", dv, tol, case):
            t.fail(f"station/inertial-velocity/{nm}", "the station moves with the Earth's rotation in inertial frames", case, exp.tolist(), x[3:].tolist(), f"{dv:.3e} m/s")
        if abs(float(np.linalg.norm(x[:3])) - R) > 16 * EPS * R:
            t.fail(f"station/inertial-radius/{nm}", "geocentric distance is frame independent", case, R, float(np.linalg.norm(x[:3])))
    t.outcome(("origin", site[0] >= 0))
    t.ev(("O", tuple(site), tuple(dt)))


# ---------------------------------------------------------------------------
# masks

TWO_PI = 2 * math.pi
MASKS = [
    [[math.pi, TWO_PI], [0.1, 0.3]],
    [[0.0, TWO_PI], [0.2, 0.2]],
    [[1.0, 2.5, TWO_PI], [0.35, 0.05, 0.25]],
    [[0.0, 3.0, TWO_PI], [0.1, 0.4, 0.1]],
    [[0.5, 1.97222205, 3.00196631, 4.71238898, TWO_PI], [0.3, 0.35255651, 0.28099801, 0.62831853, 1.3962634]],
    [[0.0, 1.0, 2.0, 5.5, TWO_PI], [0.15, 0.0, 0.5, -0.05, 0.15]],
]


def mask_queries(table):
    xs = table[0]
    base = set([0.0, TWO_PI, 1e-9, TWO_PI - 1e-9, 1e-300, 0.25, 6.0])
    knots = list(xs) + ([0.0] if xs[0] > 0 else [])
    for x in knots:
        base.update([x, x + 1e-9, x - 1e-9, float(np.nextafter(x, 10)), float(np.nextafter(x, -10))])
    ks = sorted(set(knots + [TWO_PI]))
    for a, b in zip(ks, ks[1:]):
        base.add(0.5 * (a + b))
        base.add(a + 0.1 * (b - a))
    out = set()
    for q in base:
        for k in (-2, -1, 0, 1, 3):
            out.add(q + k * TWO_PI)
    out.update([-1e-9, -1e-300, -7.0, 13.0, 100.0, -100.0])
    return sorted(out)


def check_mask(mi, q, t, site=(43.6, 1.44, 172.0)):
    from mc.ref import geodesy as gd

    table = MASKS[mi]
    case = dict(kind="mask", mask=mi, azimuth=q, site=list(site))
    key = ("masksta", mi, tuple(site))
    if _G.get("masksta_key") != key:
        _G["masksta"] = make_station("MaskSta", *site, mask=[list(table[0]), list(table[1])])
        _G["masksta_key"] = key
    sta = _G["masksta"]
    exp = gd.mask_interp(table[0], table[1], q)
    try:
        got = float(sta.get_mask(q))
    except Exception as e:
        t.fail("mask/raises", "mask value exists at any azimuth", case, exp, repr(e))
        return
    t.trans(1)
    slope = max(abs((b - a) / (x1 - x0)) for a, b, x0, x1 in zip(table[1], table[1][1:], table[0], table[0][1:]))
    first = abs(table[1][0] - table[1][-1]) / table[0][0] if table[0][0] > 0 else 0.0
    slope = max(slope, first)
    tol = 4 * EPS * (1.0 + slope * (abs(q) + TWO_PI))  # reduction mod 2 pi loses eps |q|
    d = abs(got - exp)
    where = "knot" if any(abs((q % TWO_PI) - x) < 1e-12 for x in list(table[0]) + [0.0]) else "inside"
    seg = "wrap-segment" if (table[0][0] > 0 and (q % TWO_PI) < table[0][0]) else "table-segment"
    if not t.margin("mask value vs piecewise-linear interpolation on the circle [rad / tol]", d, tol, case) or not (d == d):
        t.fail(f"mask/{seg}/{where}", "mask is the piecewise-linear interpolation of the table, the value at 2 pi serving at 0", case, exp, got,
               f"table {mi} azimuth {q!r}: got {got!r}, expected {exp!r}")
    t.outcome(("mask", mi, seg, where))
    t.ev(("M", mi, q, tuple(site)))


MASK_HIST_Q = [0.0, 0.25, 0.5, 1.0, 1.4870110250000001, 2.0, 3.0, math.pi, 4.0, 5.5, 6.0, TWO_PI - 1e-9, -1.0, 7.5]


def check_mask_history(i, j, t, site=(43.6, 1.44, 172.0)):
    """One re-used station whose table is replaced: A(table i) and B(table j) queried alternately at the same azimuths,
    then A.mask = table j, B.mask = table i, queried again, then back.  Oracle: interpolation of the CURRENT table."""
    from mc import world
    from mc.ref import geodesy as gd
    from beyond.frames import create_station

    G = _world()
    case = dict(kind="mask-history", i=int(i), j=int(j), site=list(site))
    world.restore(G["snap"])
    _G.pop("masksta_key", None)
    A = create_station("MaskA", site, mask=[list(MASKS[i][0]), list(MASKS[i][1])])
    B = create_station("MaskB", (site[0] - 10.0, site[1] + 5.0, site[2]), mask=[list(MASKS[j][0]), list(MASKS[j][1])])
    cur = {"A": i, "B": j}
    n = 0
    for step, (ta, tb) in enumerate(((i, j), (j, i), (i, j), (j, j))):
        if step:
            A.mask = np.array(MASKS[ta], dtype=float)  # the documented way to (re)define a mask: assign the 2 x n table
            B.mask = np.array(MASKS[tb], dtype=float)
            cur = {"A": ta, "B": tb}
        for q in MASK_HIST_Q:
            for nm, sta in (("A", A), ("B", B)):
                tab = MASKS[cur[nm]]
                exp = gd.mask_interp(tab[0], tab[1], q)
                try:
                    got = float(sta.get_mask(q))
                except Exception as e:
                    t.fail("mask/history/raises", "mask value exists at any azimuth", case, exp, repr(e))
                    continue
                n += 1
                if abs(got - exp) > 1e-12:
                    t.fail("mask/history/stale" if step else "mask/history/first-table", "the mask value is the interpolation of the station's current table", case, exp, got,
                           f"step {step}: station {nm} holds table {cur[nm]}, azimuth {q!r}: got {got!r}, expected {exp!r}")
    t.trans(n)
    t.ev(("MH", i, j, tuple(site)))
    t.states_add(4)
    t.outcome(("mask-history", i, j))
    world.restore(G["snap"])


PARENTS = ["PEF", "TIRF"]


def check_parent_site(site, parent, t, tier="quick"):
    """A station whose coordinates are given in PEF / TIRF (create_station(parent_frame=...)), real polar motion:
    the station sits at the geodetic point OF ITS PARENT frame, at rest there and in ITRF, and targets given in ITRF
    are seen at the azimuth / elevation / range of the parent-frame ENU model."""
    from mc.ref import geodesy as gd
    from beyond.orbits import StateVector

    G = _world()
    site = tuple(site)
    lat, lon, alt = math.radians(site[0]), math.radians(site[1]), site[2]
    try:
        sta = make_station("Sta", *site, parent=parent)
    except CreateFailed as e:
        t.fail("station/create-raises", "a station can be created on any Earth-fixed parent frame", dict(kind="parent-origin", site=list(site), parent=parent, config={"eop": "real"}), "a station", str(e))
        return
    tg = targets(tier)
    sub = tg[::7][:28]
    s_par = gd.geodetic_to_ecef(lat, lon, alt, G["a"], G["f"])
    R = float(np.linalg.norm(s_par))
    for dt in DATES:
        date = mk_date(dt)
        case = dict(kind="parent-origin", site=list(site), date=list(dt), parent=parent, config={"eop": "real"})
        o = StateVector(np.zeros(6), date, "cartesian", sta)
        try:
            in_par = np.array(o.copy(frame=parent), dtype=float)
            in_itrf = np.array(o.copy(frame="ITRF"), dtype=float)
            via = np.array(o.copy(frame=parent).copy(frame="ITRF"), dtype=float)
        except Exception as e:
            t.fail("station/origin-raises", "the station origin converts to Earth-fixed frames", case, "state", repr(e))
            continue
        t.trans(4)
        exp_itrf = parent_matrix(parent, dt).T @ s_par
        if not t.margin("parent-frame station: position in its parent frame [m / (8 eps R)]", float(np.max(np.abs(in_par[:3] - s_par))), 8 * EPS * R, case):
            t.fail("station/parent-position", "the station sits at the given geodetic point of its parent frame", case, s_par.tolist(), in_par[:3].tolist())
        if not t.margin("parent-frame station: position in ITRF vs reference polar motion [m / (32 eps R)]", float(np.max(np.abs(in_itrf[:3] - exp_itrf))), 32 * EPS * R, case):
            t.fail("station/parent-position-itrf", "station -> ITRF is the polar-motion image of the parent-frame point", case, exp_itrf.tolist(), in_itrf[:3].tolist(),
                   f"{float(np.max(np.abs(in_itrf[:3] - exp_itrf))):.3e} m")
        if float(np.max(np.abs(in_itrf[:3] - via[:3]))) > 32 * EPS * R:
            t.fail("station/parent-path", "station -> ITRF equals station -> parent -> ITRF", case, via[:3].tolist(), in_itrf[:3].tolist())
        if np.any(in_par[3:] != 0.0) or np.any(in_itrf[3:] != 0.0):
            t.fail("station/not-at-rest", "the station is at rest in the Earth-fixed frames", case, [0, 0, 0], [in_par[3:].tolist(), in_itrf[3:].tolist()])
        t.ev(("PO", site, tuple(dt), parent))
        for i, x in enumerate(sub):
            check_target(sta, site, dt, date, x, t, pidx=i, parent=parent)
        t.states_add(1 + len(sub))
        t.outcome(("parent", parent))


REBIND_SITES = [(43.6, 1.44, 172.0), (-33.45, -70.66, 520.0), (10.0, 120.0, 0.0), (-60.0, -179.9, 9000.0)]


def rebind_sequences():
    n = len(REBIND_SITES)
    seqs = [[a, b] for a in range(n) for b in range(n) if a != b]
    seqs += [[a, b, a] for a in range(n) for b in range(n) if a != b]
    return seqs


def check_rebind(seq, restore_between, t, tier="quick"):
    """The station name 'Sta' (and the second station's name 'StaB') is defined at the sites of `seq` in turn, with or
    without a registry reset in between; after each definition the origin and target checks run against the CURRENT site."""
    from mc import world
    from beyond.frames import create_station

    G = _world()
    world.restore(G["snap"])
    _G.pop("masksta_key", None)
    tg = targets(tier)
    sub = tg[::7][:28]  # odd stride: both velocity classes, every elevation and range
    dt = DATES[1]
    date = mk_date(dt)
    _G["case_extra"] = dict(rebind=[int(i) for i in seq], restore=bool(restore_between))
    try:
        for k, si in enumerate(seq):
            site = REBIND_SITES[si]
            if k and restore_between:
                world.restore(G["snap"])
            try:
                sta = create_station("Sta", site)
                _G["stb"] = create_station("StaB", (-(site[0] * 0.5) + 7.0, site[1] + 40.0, 250.0))  # after the station under test
            except Exception as e:
                t.fail("station/create-raises", "a station can be re-created under a name already in use", dict(kind="origin", site=list(site), date=list(dt), **_G["case_extra"]),
                       "a station", repr(e))
                break
            _G.pop("arg_mutated", None)
            t.trans(2)
            check_origin(sta, site, dt, date, t)
            for i, x in enumerate(sub):
                check_target(sta, site, dt, date, x, t, pidx=i, variants=(i % 6 == k))
            t.states_add(1 + len(sub))
            t.outcome(("rebind", k, bool(restore_between)))
    finally:
        _G.pop("case_extra", None)
        world.restore(G["snap"])


# ---------------------------------------------------------------------------


def targets(tier):
    A, E, R, V = (AZ_Q, EL_Q, RANGES_Q, VELS_Q) if tier == "quick" else (AZ_T, EL_T, RANGES_T, VELS_T)
    return [(az, el, rng, v) for az in A for el in E for rng in R for v in V]


def check_case(case, t):
    if case["kind"] == "mask":
        return check_mask(case["mask"], case["azimuth"], t, tuple(case["site"]))
    if case["kind"] == "mask-history":
        return check_mask_history(case["i"], case["j"], t, tuple(case["site"]))
    if case.get("rebind"):
        return check_rebind(case["rebind"], case["restore"], t)
    if case["kind"] == "parent-origin":
        return check_parent_site(case["site"], case["parent"], t)
    site = tuple(case["site"])
    try:
        sta = make_station("Sta", *site, argtype=case.get("argtype") or "tuple-float", parent=case.get("parent"))
    except CreateFailed as e:
        t.fail("station/create-raises", "a station can be created from any latitude, longitude, altitude triple", case, "a station", str(e))
        return
    date = mk_date(case["date"])
    if case["kind"] == "origin":
        return check_origin(sta, site, case["date"], date, t, argtype=case.get("argtype"))
    az, el, rng, vel = case["target"]
    check_target(sta, site, case["date"], date, (az, el, rng, tuple(vel)), t, pidx=case.get("pidx", 0), argtype=case.get("argtype"),
                 variants=case.get("variants", False), parent=case.get("parent"))


def run_unit(p, t):
    if p["part"] == "mask":
        n = 0
        for site in p["sites"]:
            for mi in p["masks"]:
                for q in mask_queries(MASKS[mi]):
                    check_mask(mi, q, t, tuple(site))
                    n += 1
        t.states_add(n)
        t.sample(dict(kind="mask", tables=len(p["masks"]), queries=n))
        return
    if p["part"] == "parent":
        for site in p["sites"]:
            for parent in PARENTS:
                check_parent_site(site, parent, t, p["tier"])
        return
    if p["part"] == "rebind":
        for seq in p["seqs"]:
            for restore_between in (False, True):
                check_rebind(seq, restore_between, t, p["tier"])
        return
    if p["part"] == "mask-history":
        for i, j in p["pairs"]:
            check_mask_history(i, j, t)
        return
    tg = targets(p["tier"])
    n = 0
    if p["part"] == "argtypes":
        sub = tg[:: max(1, len(tg) // 12)]
        for site in p["sites"]:
            site = tuple(site)
            for at in ARGTYPES:
                try:
                    sta = make_station("Sta", *site, argtype=at)
                except CreateFailed as e:
                    t.fail("station/create-raises", "a station can be created from any latitude, longitude, altitude triple",
                           dict(kind="origin", site=list(site), date=list(DATES[1]), argtype=at), "a station", str(e))
                    continue
                t.trans(1)
                dt = DATES[1]
                date = mk_date(dt)
                check_origin(sta, site, dt, date, t, argtype=at)
                for i, x in enumerate(sub):
                    check_target(sta, site, dt, date, x, t, pidx=i, argtype=at, variants=(i % 4 == 0))
                    n += 1
                t.outcome(("argtype", at))
        t.states_add(n)
        return
    for site in p["sites"]:
        site = tuple(site)
        sta = make_station("Sta", *site)
        t.trans(1)
        for dt in DATES:
            date = mk_date(dt)
            check_origin(sta, site, dt, date, t)
            n += 1
            for i, x in enumerate(tg):
                check_target(sta, site, dt, date, x, t, pidx=i, variants=(i % VARIANT_EVERY == (len(dt) + int(abs(site[2]))) % VARIANT_EVERY))
                n += 1
    t.states_add(n)
    if len(t.samples) < 1:
        t.sample(dict(kind="target", site=list(p["sites"][0]), date=list(DATES[0]), target=[tg[5][0], tg[5][1], tg[5][2], list(tg[5][3])]))


def units(tier, seed):
    cfg = {"eop": "pass"}
    lats, lons = (LATS_Q, LONS_Q) if tier == "quick" else (LATS_T, LONS_T)
    u = []
    for la in lats:
        for lo in lons:
            sites = [[la, lo, al] for al in ALTS]
            if tier == "quick":
                u.append((cfg, dict(part="sites", tier=tier, sites=sites)))
            else:
                u.append((cfg, dict(part="sites", tier=tier, sites=sites[:2])))
                u.append((cfg, dict(part="sites", tier=tier, sites=sites[2:])))
    msites = [[43.6, 1.44, 172.0]] if tier == "quick" else [[43.6, 1.44, 172.0], [-33.45, -70.66, 520.0]]
    for mi in range(len(MASKS)):
        u.append((cfg, dict(part="mask", tier=tier, sites=msites, masks=[mi])))
    pairs = [[i, j] for i in range(len(MASKS)) for j in range(len(MASKS)) if i != j]
    u.append((cfg, dict(part="mask-history", tier=tier, pairs=pairs[:15])))
    u.append((cfg, dict(part="mask-history", tier=tier, pairs=pairs[15:])))
    real = {"eop": "real"}
    psites = [list(x) for x in REBIND_SITES]
    u.append((real, dict(part="parent", tier="quick", sites=psites[:2])))
    u.append((real, dict(part="parent", tier="quick", sites=psites[2:])))
    seqs = rebind_sequences()
    for k in range(0, len(seqs), 6):
        u.append((cfg, dict(part="rebind", tier="quick", seqs=seqs[k : k + 6])))
    for k in range(0, len(INT_SITES), 2):
        u.append((cfg, dict(part="argtypes", tier=tier, sites=[list(x) for x in INT_SITES[k : k + 2]])))
    return u


def replay(case, t):
    check_case(case, t)
