"""C05 — analytical two-body (Kepler) and J2 propagation obey Kepler's laws.

Exhaustive product over finite alphabets (element form of the initial state, non-rotating frame, e, i, perigee
radius, dt, split of dt); the real `Orbit.propagate` is compared with the universal-variable reference solution
(mc/ref/twobody.py), with the conservation / composition / inverse / periodicity laws, and, for the J2 propagator,
with the first-order secular rates written from the textbook.
"""

import itertools
import math

import numpy as np

PROPERTY = "C05"
DESIGN_REF = "DESIGN.md §4 C05"
CLAIM = dict(
    text="Every initial state of the alphabet product (10 element forms x non-rotating frames x 9 eccentricities on both "
    "sides of e=1 and of the M2E start-value thresholds x 5 inclinations incl. polar and critical x 3 perigee radii) is "
    "propagated by the real Kepler propagator over 12 signed intervals from 1 s to 30 d and over every split of each "
    "interval; results are compared with an independent universal-variable solution, and the laws of the property "
    "(constant a,e,i,node,perigee; dM = n dt; composition; inverse; periodicity) are evaluated on elements re-derived "
    "from r,v by vector definitions. The J2 propagator is compared on every elliptic state with the textbook secular "
    "rates at dt, 2dt and -dt (linearity), including zero node drift at i=90 deg and zero perigee drift at i=atan 2.",
    note="Trusts mc/ref/twobody.py (universal-variable and element formulations are cross-checked against each other on "
    "every (orbit, dt) actually used; disagreement is a harness error, not a violation) and Earth.mu/J2/r as data.",
    technique="exhaustive product over finite input alphabets on the real code vs. independent reference model and algebraic laws",
)
RULE_HISTORY = (
    " History part: states = histories (sequences over {propagate and discard, propagate and continue from the result, write "
    "by index, write by name, in-place form change, in-place frame change EME2000<->G50, copy(), iter() over a range, ephem(), "
    "a directly bound propagator asked for three dates}) up to depth 3 on one Orbit object, for Kepler and J2, from every initial form; every propagation of a history, and three final "
    "ones (0, +5000, -7000 s), are compared with the reference propagation of the object's CURRENT numbers and with a brand-new "
    "Orbit of the same content. Each history is executed on a freshly built object (a case is the whole history)."
)
RULE = (
    "cases = (initial state = orbit x element form x frame, dt) for the full product; every case differs from every "
    "other in one alphabet coordinate (distinct by construction). non-trivial = dt != 0 (always) - the key is "
    "(propagator, orbit, form, frame) with the dt's counted as evaluations under it."
)
RULE = RULE + RULE_HISTORY
BOUNDS = {
    "quick": "10 forms x 2 frames (EME2000, TOD) x 9 e x 5 i x 3 perigee radii x 12 dt x (direct + 3 splits + inverse + period); J2 on all elliptic states x 20 dt; "
    "operation histories: 10 operations, depth <= 3, Kepler on an ellipse and a hyperbola, J2 on an ellipse, 4 initial forms; "
    "every (state, dt) also with the target date labelled TT / GPS / TAI (rotating)",
    "thorough": "10 forms x 4 frames (EME2000, GCRF, G50, TOD) x 9 e x 5 i x 6 perigee radii (with their node/perigee/M0) x 20 dt x (direct + 3 splits + inverse + period); J2 likewise; "
    "operation histories: 10 operations, depth <= 3, 6 (propagator, orbit) pairs x every initial form; date labels as in quick",
}
ASSUMPTIONS = [
    "hyperbolic initial states are given in the 8 forms defined for them (not TLE, not keplerian_mean_circular - see C01)",
    "hyperbolic states far from perigee: comparisons that involve writing or reading such a state through the classical "
    "elements carry the conditioning term eta = ulp(nu) sqrt(e^2-1) r/p (far_eta), derived in the code; legs that start "
    "and end near perigee keep 1e-10 x cond",
    "dt is realised as a timedelta (1 microsecond resolution); the reference uses the same rounded number of seconds",
    "the secular J2 rates are defined for bound orbits only (averaging over one revolution): J2 is not examined on hyperbolas",
    "the J2 propagator treats the given elements as mean elements; the reference does the same",
]
NOT_COVERED = "|dt| > 30 d (intermediate legs of a split beyond 30 d are excluded, too); central bodies other than the Earth (C01 varies mu)"

FRAMES = {"quick": ["EME2000", "TOD"], "thorough": ["EME2000", "GCRF", "G50", "TOD"]}
E_ELL = [1e-4, 0.1, 0.5, 0.95]
E_HYP = [1.01, 1.5, 1.7, 3.7, 10.0]
INC = [0.01, 1.1, math.atan(2.0), math.pi / 2, 2.5]  # atan 2 = 63.4349 deg: 5 cos^2 i = 1
# perigee radius with its node / perigee / initial mean anomaly (M0 < 0 and M0 > pi: both M2E start regions)
PERIGEE = [(6.7e6, 1.0, 0.7, 0.8), (7.0e6, 3.5, 5.5, -2.0), (4.2e7, 6.0, 3.0, 3.5)]
PERIGEE_MORE = [(8.0e6, 0.0, 0.0, 6.0), (2.0e7, 2.0, 4.0, -3.0), (1.0e8, 5.0, 1.5, 0.3)]  # thorough tier only
DAY = 86400.0
MAX_DT = 30 * DAY

# tolerances: see check_kepler
TOL_ELL = 1e-10
TOL_HYP = 1e-10  # x cond; DESIGN.md says 1e-8, which is > 1e4 x the observed forward error (too loose to detect anything)
TOL_EL = 1e-13  # re-derived elements: x cond x conditioning of the element (1/sin i, 1/e)
TOL_TIME = 1e-6  # s, timedelta resolution

_W = {}


def base_orbits(tier="quick"):
    out = []
    for e in E_ELL + E_HYP:
        for i in INC:
            for rp, Om, w, M0 in PERIGEE + (PERIGEE_MORE if tier == "thorough" else []):
                out.append((e, i, rp, Om, w, M0))
    return out


def dt_list(tier, n):
    """signed intervals in seconds for an orbit of mean motion n (P = 2 pi / n; characteristic time for a hyperbola)."""
    P = 2 * math.pi / n
    base = [1.0, 1000.0, P / 2, P, DAY, 30 * DAY]
    if tier == "thorough":
        base += [10.0, 3 * P / 4 if P < 20 * DAY else 3600.0, 3 * DAY, 10 * DAY]
    out = []
    for d in base:
        d = min(d, MAX_DT)
        for s in (1, -1):
            x = round(s * d * 1e6) / 1e6
            if x not in out:
                out.append(x)
    return out


def units(tier, seed):
    from mc.ref import forms_ref as fr

    cfg = {"eop": "pass"}
    u = []
    for frame in FRAMES[tier]:
        for form in fr.FORMS:
            for e in E_ELL + E_HYP:
                if e > 1 and form in ("tle", "keplerian_mean_circular"):
                    continue  # forms not defined for hyperbolas (counted as exclusions in run_unit)
                u.append((cfg, dict(frame=frame, form=form, e=e, tier=tier)))
    # operation histories: one unit per (propagator, orbit, initial form, first operation)
    for prop, orb in HK_ORBITS[tier]:
        for form in HK_FORMS[tier] or fr.FORMS:
            if orb[0] > 1 and form in ("tle", "keplerian_mean_circular"):
                continue
            for first in HK_OPS:
                u.append((cfg, dict(part="hist", propagator=prop, orbit=list(orb), form=form, first=first, depth=HK_DEPTH[tier], tier=tier)))
    u.append((cfg, dict(part="argtypes", tier=tier)))
    return u


def setup(config):
    from beyond.config import config as bc
    from beyond.dates import Date

    bc.update({"eop": {"missing_policy": "pass"}})
    _W["date"] = Date(2020, 1, 1)
    _W["ref"] = {}
    _W["uv"] = {}


def _earth():
    from beyond import constants

    return constants.Earth


def ref_orbit(orb):
    key = tuple(orb)
    r = _W["ref"].get(key)
    if r is None:
        from mc.ref import forms_ref as fr

        e, i, rp, Om, w, M0 = orb
        mu = float(_earth().mu)
        a = rp / (1 - e)
        nums, rv = fr.orbit_numbers(a, e, i, Om, w, M0, mu)
        n = math.sqrt(mu / abs(a) ** 3)
        r = dict(mu=mu, a=a, n=n, nums=nums, rv=np.asarray(rv, dtype=float), e=e, i=i, Om=Om, w=w, M0=M0,
                 conic="ell" if e < 1 else "hyp", cond=1 + 1 / abs(1 - e), rn=float(np.linalg.norm(rv[:3])),
                 vn=float(np.linalg.norm(rv[3:])))
        _W["ref"][key] = r
    return r


def oracle(orb, dt):
    """Universal-variable solution, cross-checked with the element formulation (harness error on disagreement)."""
    from mc.ref import twobody as tb

    key = (tuple(orb), dt)
    x = _W["uv"].get(key)
    if x is None:
        R = ref_orbit(orb)
        x = tb.propagate_uv(R["rv"], dt, R["mu"])
        # second formulation from the exact alphabet elements
        nu = tb.mean_to_true(R["M0"] + R["n"] * dt, R["e"])[0]
        y = tb.kep_to_cart(R["a"], R["e"], R["i"], R["Om"], R["w"], nu, R["mu"])
        d = max(np.linalg.norm(x[:3] - y[:3]) / np.linalg.norm(y[:3]), np.linalg.norm(x[3:] - y[3:]) / np.linalg.norm(y[3:]))
        if not d <= 0.1 * state_tol(R, dt):
            raise RuntimeError(f"reference formulations disagree: orbit {orb} dt {dt}: {d:.3e} vs tol {state_tol(R, dt):.3e}")
        if len(_W["uv"]) > 20000:
            _W["uv"].clear()
        _W["uv"][key] = x
    return x


def state_tol(R, dt):
    """Relative tolerance on position and velocity after propagating by dt.

    ellipse: 1e-10 x cond x (1 + n|dt|): the phase n dt inherits the relative error of n (3/2 da/a, with
    da/a ~ eps cond from the energy integral) -> grows with the number of revolutions (DESIGN.md: 1e-9 (1+n|dt|);
    one decade tighter because cond is made explicit); the floor 1e-10 cond covers the eps/e error of e at the
    quantifier's e >= 1e-4 (see C01).
    hyperbola: 1e-10 x cond, no growth: an error dM = M dn/n of the mean anomaly moves the state by
    dM / (e cosh H - 1) ~ dn/n relative, whatever |dt|."""
    if R["conic"] == "ell":
        return TOL_ELL * R["cond"] * (1 + R["n"] * abs(dt))
    return TOL_HYP * R["cond"]


EPS = 2.0 ** -53
# safety factor on the far-state conditioning terms: a chain writes the far state (1 rounding of nu), reads it back
# (arctan2 + cos + sin: ~3 more) and both sides of a comparison do so; measured on the tree with the M2E/asinh fixes:
# worst observed / (term with factor 1) = 3.4 (inverse), 1.6 (state, M), 0.4 (e, perigee)
FAR_SAFETY = 16.0


def far_eta(R, x):
    """Conditioning of a hyperbolic state far from perigee in the true-anomaly representation.

    Any chain through the classical elements (library: cartesian <-> keplerian <-> eccentric <-> mean) carries
    the radius as r = p / (1 + e cos nu).  Far out on a hyperbola 1 + e cos nu = p / r cancels: an absolute error
    d(nu) of the true anomaly (one ulp of a double in [2, 4): 4 x 2^-53; the asymptote lies in (pi/2, pi)) gives
        d(1 + e cos nu) = e sin(nu) d(nu) ~ sqrt(e^2 - 1) d(nu)       (sin nu -> sqrt(e^2-1)/e at the asymptote)
    i.e. a RELATIVE error  eta = ulp(nu) sqrt(e^2 - 1) r / p  on r (written state) and on sinh H = sin(nu) sqrt(e^2-1)
    / (1 + e cos nu) (state read back), hence
        dM = e cosh H dH = e sinh H (d sinh H / sinh H) ~ |M| eta
    on the mean anomaly recovered from such a state.  Near perigee r/p <= 1 and eta ~ eps: nothing is added there.
    (For rp = 7000 km, e = 3.7, 30 d: r/p = 980, |M| = 12400, eta = 1.5e-12, dM = 2e-8.)  Returns eta; 0 for ellipses."""
    if R["conic"] == "ell":
        return 0.0
    e = R["e"]
    p = R["a"] * (1 - e * e)
    return 4 * EPS * math.sqrt(e * e - 1) * float(np.linalg.norm(x[:3])) / p


def far_dM(R, x):
    """Error of the mean anomaly the library can recover from the hyperbolic state x: |M(x)| eta(x) (see far_eta)."""
    if R["conic"] == "ell":
        return 0.0
    H = math.asinh(float(x[:3] @ x[3:]) / (R["e"] * math.sqrt(R["mu"] * abs(R["a"]))))
    return abs(R["e"] * math.sinh(H) - H) * far_eta(R, x)


def sens(R, y):
    """Relative change of position and velocity at state y per unit of mean anomaly: dM = n dt moves the position
    by v dt and the velocity by (mu / r^2) dt."""
    r = float(np.linalg.norm(y[:3]))
    v = float(np.linalg.norm(y[3:]))
    return max(v / (R["n"] * r), R["mu"] / (r * r * R["n"] * v))


def _margin(t, name, value, tol, case):
    ok = value <= tol
    if ok:
        t.margin(name, value, tol, case)
    return ok


def _td(dt):
    from beyond.dates import timedelta

    return timedelta(microseconds=round(dt * 1e6))


def _orbit(R, form, frame, propagator):
    from beyond.orbits import Orbit

    return Orbit(R["nums"][form], _W["date"], form, frame, propagator)


def _rel(x, y):
    return max(float(np.linalg.norm(x[:3] - y[:3]) / np.linalg.norm(y[:3])), float(np.linalg.norm(x[3:] - y[3:]) / np.linalg.norm(y[3:])))


def _m_class(R, dt):
    """Input class of a hyperbolic propagation: size of the mean anomaly at the target date (the Newton iteration
    of the library starts at about |M|)."""
    if R["conic"] == "ell":
        return ""
    return "/large-mean-anomaly" if abs(R["M0"] + R["n"] * dt) > 500 else "/moderate-mean-anomaly"


def _start_class(R, x):
    """Input class of a propagation leg: hyperbolic states far from perigee (|H| > 3) are read back through
    cartesian -> keplerian -> eccentric -> mean, whose conditioning grows like exp(2|H|)."""
    if R["conic"] == "ell":
        return ""
    H = math.asinh(float(x[:3] @ x[3:]) / (R["e"] * math.sqrt(R["mu"] * abs(R["a"]))))
    return "/start-far-from-perigee" if abs(H) > 3 else "/start-near-perigee"


def _propagate(orbit, arg, t, sig, clause, case, what, cls=""):
    """One real propagation; returns the cartesian numbers or None (failure recorded)."""
    try:
        out = orbit.propagate(arg)
        t.trans()
        arr = np.array(out.copy(form="cartesian"), dtype=float)
    except Exception as ex:
        t.fail(f"{sig}/raises-{type(ex).__name__}", clause, case, "a state", repr(ex), f"{what}: {ex!r}")
        return None, None
    if not np.all(np.isfinite(arr)):
        t.fail(f"{sig}/non-finite{cls}", clause, case, "finite position and velocity", arr, f"{what}: propagate({arg}) returned {arr.tolist()}")
        return None, None
    return out, arr


SCALES = ["TT", "GPS", "TAI"]


def check_scale_label(t, o, prop, R, dt, x, case, form):
    """The same target instant labelled in another time scale (zero-EOP configuration: TT = TAI + 32.184 s,
    GPS = TAI - 19 s, UTC = TAI) must give the same state as the timedelta call that produced x."""
    scale = SCALES[(int(round(abs(dt) * 1e6)) + len(form)) % len(SCALES)]
    target = (_W["date"] + _td(dt)).change_scale(scale)
    c2 = dict(case, scale=scale)
    clause = "propagate(date) is the state at that instant, whatever time scale the date is labelled in"
    out, y = _propagate(o, target, t, f"{prop}.propagate/date-scale-label", clause, c2, f"propagate(date labelled {scale})")
    if y is None:
        return
    t.ev()
    # the relabelled date is rebuilt from a datetime: 1 microsecond of resolution -> |v| x 2 us / |r|
    tol = 2 * (state_tol(R, dt) if R["conic"] == "ell" else state_tol(R, dt) + FAR_SAFETY * far_eta(R, x)) + 2 * TOL_TIME * sens(R, x) * R["n"]
    d = _rel(y, x)
    if not _margin(t, f"{prop}: date in another scale vs timedelta [rel/tol]", d, tol, c2):
        t.fail(f"{prop}.propagate/date-scale-label", clause, c2, x, y,
               f"from {form}: propagate({target}) differs by {d:.3e} (rel) from propagate(timedelta({dt} s)) of the same instant (tol {tol:.1e})")


def check_kepler(orb, form, frame, dt, t, tier="quick"):
    from mc.ref import twobody as tb
    from mc.ref import forms_ref as fr

    R = ref_orbit(orb)
    conic = R["conic"]
    sig = f"Kepler.propagate/{conic}"
    case = dict(kind="kepler", orbit=list(orb), form=form, frame=frame, dt=dt, config={"eop": "pass"})
    t.states_add(1)
    o = _orbit(R, form, frame, "Kepler")
    clause0 = "agrees with an independent universal-variable solution of the two-body problem"
    out, x = _propagate(o, _td(dt), t, sig, clause0, case, "propagate(dt)", _m_class(R, dt))
    t.ev(("K",) + tuple(orb) + (form, frame))
    t.outcome((conic, form, "dt>0" if dt > 0 else "dt<0"))
    if x is None:
        return
    # the initial state itself must be read correctly (form conversion, property C01); a failure here is not
    # a propagation failure and gets its own signature
    x0 = np.array(o.copy(form="cartesian"), dtype=float)
    d0 = _rel(x0, R["rv"]) if np.all(np.isfinite(x0)) else float("inf")
    if not d0 <= 1e-10 * R["cond"]:
        t.fail(f"initial-state-conversion/{form}/{conic}", "initial state given in any element form", case, R["rv"], x0,
               f"{form} -> cartesian of the initial state is off by {d0:.3e} before any propagation")
        return
    # metadata
    want_date = _W["date"] + _td(dt)
    if abs((out.date - want_date).total_seconds()) > TOL_TIME or out.frame.name != frame:
        t.fail("Kepler.propagate/result-date-or-frame", "propagate(dt) is the state at date+dt in the same frame", case,
               [str(want_date), frame], [str(out.date), out.frame.name])
    # a state written far out on a hyperbola carries the relative error eta of r = p/(1 + e cos nu) (far_eta)
    tol = state_tol(R, dt) + FAR_SAFETY * far_eta(R, oracle(orb, dt))
    # (1) oracle
    ref = oracle(orb, dt)
    d = _rel(x, ref)
    if not _margin(t, f"kepler {conic}: vs universal-variable solution [rel/tol(n dt)]", d, tol, case):
        t.fail(f"{sig}/vs-universal-variable", clause0, case, ref, x, f"from {form}: |d|rel = {d:.3e} > {tol:.3e} at dt = {dt} s")
        return
    check_scale_label(t, o, "Kepler", R, dt, x, case, form)
    # (2) elements re-derived from r, v
    k = tb.cart_to_kep(x, R["mu"])
    cond = R["cond"]
    ce, ci = max(1.0, 1 / R["e"]), 1 / math.sin(R["i"])
    etol = TOL_EL * cond * (1 if conic == "ell" else 10 * max(1.0, R["e"]))  # far states: e-vector = difference of two O(e) vectors
    if conic == "hyp":
        # hyperbolic anomaly from r.v = e sqrt(mu |a|) sinh H (well conditioned for large |H|, unlike the true anomaly)
        H = math.asinh(float(x[:3] @ x[3:]) / (k["e"] * math.sqrt(R["mu"] * abs(k["a"]))))
        k["M"] = k["e"] * math.sinh(H) - H
        k["H"] = H
    # elements re-derived from a state written far out on a hyperbola: the radius is off by the relative error
    # eta along r (far_eta).  h = |r x v| scales with it -> de/e = (e^2-1)/e^2 eta, the e-vector (v x h)/mu - r/|r|
    # turns by <= eta, r.v -> sinh H -> M scales with it; the energy (v^2/2 >> mu/r) and the direction of h do
    # not: a, i and the node keep their tight tolerance
    far = FAR_SAFETY * far_eta(R, ref)
    checks = [
        ("a", abs(k["a"] / R["a"] - 1), etol),
        ("e", abs(k["e"] - R["e"]), etol * max(1.0, 0.1 / R["e"]) ** 2 + far * R["e"]),  # library: e = sqrt(1 - h^2/(a mu)): eps/e
        ("i", abs(k["i"] - R["i"]), etol * ci),
        ("node", abs(fr.wrap(k["Om"] - R["Om"])), etol * ci),
        ("perigee", abs(fr.wrap(k["w"] - R["w"])), etol * ce * ci + far),
    ]
    for name, val, tl in checks:
        if not _margin(t, f"kepler {conic}: {name} unchanged [/tol]", val, tl, case):
            t.fail(f"{sig}/{name}-changed", "Keplerian propagation leaves a, e, i, node and perigee unchanged", case,
                   R[{"node": "Om", "perigee": "w"}.get(name, name)], k[{"node": "Om", "perigee": "w"}.get(name, name)],
                   f"from {form}: {name} moved by {val:.3e} (tol {tl:.1e}) at dt = {dt} s")
    dM = k["M"] - (R["M0"] + R["n"] * dt)
    if conic == "ell":
        dM = fr.wrap(dM)
        mtol = etol * ce * (1 + R["n"] * abs(dt))
    else:
        mtol = (etol + far) * max(1.0, abs(R["M0"] + R["n"] * dt))
    if not _margin(t, f"kepler {conic}: M - (M0 + n dt) [/tol]", abs(dM), mtol, case):
        t.fail(f"{sig}/mean-anomaly-rate", "advances the mean anomaly by n*dt", case, R["M0"] + R["n"] * dt, k["M"],
               f"from {form}: M off by {dM:.3e} (tol {mtol:.1e}) at dt = {dt} s")
    # (3) composition propagate(t1) then propagate(t2) = propagate(t1 + t2)
    clause = "propagate(t1) then propagate(t2) = propagate(t1+t2)"
    for label, t1 in (("dt/3", round(dt / 3 * 1e6) / 1e6), ("-dt", -dt), ("2dt", 2 * dt)):
        t2 = round((dt - t1) * 1e6) / 1e6
        if abs(t1) > MAX_DT or abs(t2) > MAX_DT:
            t.exclude("split leg outside the property's |dt| <= 30 d")
            continue
        # first leg by Date, second by timedelta
        mid, xm = _propagate(o, _W["date"] + _td(t1), t, sig, clause, dict(case, t1=t1), f"first leg t1 = {label}", _m_class(R, t1))
        if xm is None:
            continue
        end, xe = _propagate(mid, _td(t2), t, sig, clause, dict(case, t1=t1), f"second leg after t1 = {label}", _m_class(R, dt))
        if xe is None:
            continue
        # the second leg reads its start state xm back into a mean anomaly (error far_dM(xm), felt at the end
        # state with the sensitivity sens(xe)); both end states are written with the relative error eta
        tl = (state_tol(R, t1) + state_tol(R, t2) + state_tol(R, dt)
              + FAR_SAFETY * (far_dM(R, xm) * sens(R, x) + 2 * far_eta(R, x)))
        d = _rel(xe, x)
        t.ev()
        if not _margin(t, f"kepler {conic}: composition [rel/tol]", d, tl, case):
            t.fail(f"{sig}/composition{_start_class(R, xm)}", clause, dict(case, t1=t1), x, xe, f"from {form}: t1 = {t1}, t2 = {t2}: differs by {d:.3e} (tol {tl:.1e})")
        if abs((end.date - want_date).total_seconds()) > TOL_TIME:
            t.fail("Kepler.propagate/result-date-or-frame", clause, dict(case, t1=t1), str(want_date), str(end.date))
    # (4) inverse
    clause = "propagate(-t) is the inverse"
    back, xb = _propagate(out, _td(-dt), t, sig, clause, case, "way back", _m_class(R, 0.0))
    if xb is not None:
        d = _rel(xb, R["rv"])
        t.ev()
        # the way back starts from x: its mean anomaly is recovered to far_dM(x) only, which moves the state reached
        # (the initial one) by sens(rv0) per unit of M.  Near-perigee x: far_dM ~ eps |M|, nothing added.
        tli = 2 * state_tol(R, dt) + FAR_SAFETY * far_dM(R, ref) * sens(R, R["rv"])
        if not _margin(t, f"kepler {conic}: inverse [rel/tol]", d, tli, case):
            t.fail(f"{sig}/inverse{_start_class(R, x)}", clause, case, R["rv"], xb, f"from {form}: propagate(dt) then propagate(-dt) misses the initial state by {d:.3e} (tol {tli:.1e})")
    # (5) periodicity
    if conic == "ell":
        P = round(2 * math.pi / R["n"] * 1e6) / 1e6
        for s in (1, -1):
            d2 = round((dt + s * P) * 1e6) / 1e6
            if abs(d2) > MAX_DT:
                t.exclude("dt +- P outside the property's |dt| <= 30 d")
                continue
            clause = "periodic for bound orbits"
            o2, xp = _propagate(o, _td(d2), t, sig, clause, dict(case, period_sign=s), "dt + P")
            if xp is None:
                continue
            # P is realised to 0.5 microsecond: |v| x 1 us / |r| of resolution
            tl = state_tol(R, dt) + state_tol(R, d2) + 1.5 * TOL_TIME * R["n"] * cond**1.5
            d = _rel(xp, x)
            t.ev()
            if not _margin(t, "kepler ell: periodicity [rel/tol]", d, tl, case):
                t.fail(f"{sig}/periodicity", clause, dict(case, period_sign=s), x, xp, f"from {form}: state at dt{'+' if s > 0 else '-'}P differs by {d:.3e} (tol {tl:.1e})")


# ---------------------------------------------------------------------------
# J2


def j2_rates(R):
    """First-order secular rates (Vallado, Fundamentals of Astrodynamics, secular J2 effects)."""
    E = _earth()
    J2, Re = float(E.J2), float(E.r)
    a, e, i, n = R["a"], R["e"], R["i"], R["n"]
    p = a * (1 - e * e)
    k = n * J2 * (Re / p) ** 2
    ci2 = math.cos(i) ** 2
    return -1.5 * k * math.cos(i), 0.75 * k * (5 * ci2 - 1), n + 0.75 * k * math.sqrt(1 - e * e) * (3 * ci2 - 1)


def check_j2(orb, form, frame, dt, t):
    from mc.ref import twobody as tb
    from mc.ref import forms_ref as fr

    R = ref_orbit(orb)
    case = dict(kind="j2", orbit=list(orb), form=form, frame=frame, dt=dt, config={"eop": "pass"})
    sig = "J2.propagate"
    t.states_add(1)
    o = _orbit(R, form, frame, "J2")
    clause = "J2 propagation keeps a, e, i constant and drifts node, perigee and mean anomaly linearly at the first-order secular rates"
    out, x = _propagate(o, _td(dt), t, sig, clause, case, "propagate(dt)")
    t.ev(("J",) + tuple(orb) + (form, frame))
    if x is None:
        return
    dOm, dw, dM = j2_rates(R)
    cond = R["cond"]
    ce, ci = max(1.0, 1 / R["e"]), 1 / math.sin(R["i"])
    grow = 1 + R["n"] * abs(dt)
    # expected state
    nu = tb.mean_to_true(R["M0"] + dM * dt, R["e"])[0]
    ref = tb.kep_to_cart(R["a"], R["e"], R["i"], R["Om"] + dOm * dt, R["w"] + dw * dt, nu, R["mu"])
    tol = TOL_ELL * cond * grow
    d = _rel(x, ref)
    okstate = _margin(t, "j2: state vs secular-rate model [rel/tol]", d, tol, case)
    check_scale_label(t, o, "J2", R, dt, x, case, form)
    k = tb.cart_to_kep(x, R["mu"])
    etol = TOL_EL * cond
    bad = False
    for name, val, tl in (("a", abs(k["a"] / R["a"] - 1), etol), ("e", abs(k["e"] - R["e"]), etol * max(1.0, 0.1 / R["e"]) ** 2), ("i", abs(k["i"] - R["i"]), etol * ci)):
        if not _margin(t, f"j2: {name} constant [/tol]", val, tl, case):
            bad = True
            t.fail(f"{sig}/{name}-changed", "J2 propagation keeps a, e, i constant", case, R[name], k[name], f"from {form}: {name} moved by {val:.3e} at dt = {dt}")
    for name, key, rate, x0, tl in (
        ("node", "Om", dOm, R["Om"], etol * ci * grow),
        ("perigee", "w", dw, R["w"], etol * ce * ci * grow),
        ("mean-anomaly", "M", dM, R["M0"], etol * ce * grow),
    ):
        val = abs(fr.wrap(k[key] - x0 - rate * dt))
        if not _margin(t, f"j2: {name} - (x0 + rate dt) [/tol]", val, tl, case):
            bad = True
            t.fail(f"{sig}/{name}-rate", f"{name} drifts linearly at the first-order secular J2 rate", case, (x0 + rate * dt) % (2 * math.pi), k[key],
                   f"from {form}: {name} off by {val:.3e} rad (tol {tl:.1e}) at dt = {dt} s; rate {rate:.6e} rad/s")
    if R["i"] == math.pi / 2:
        val = abs(fr.wrap(k["Om"] - R["Om"]))
        t.ev(("J-polar",) + tuple(orb) + (form, frame))
        if not _margin(t, "j2: node drift on a polar orbit [/tol]", val, etol * ci * grow, case):
            t.fail(f"{sig}/polar-node-drift", "no node drift on a polar orbit", case, R["Om"], k["Om"], f"node moved by {val:.3e} rad at dt = {dt}")
    if R["i"] == math.atan(2.0):
        val = abs(fr.wrap(k["w"] - R["w"]))
        t.ev(("J-critical",) + tuple(orb) + (form, frame))
        # 5 cos^2 i - 1 is zero to within the rounding of atan(2): |rate dt| < 1e-15 n J2 dt
        if not _margin(t, "j2: perigee drift at the critical inclination [/tol]", val, etol * ce * ci * grow, case):
            t.fail(f"{sig}/critical-perigee-drift", "no perigee drift at the critical inclination", case, R["w"], k["w"], f"perigee moved by {val:.3e} rad at dt = {dt}")
    if not okstate and not bad:
        t.fail(f"{sig}/state", clause, case, ref, x, f"from {form}: |d|rel = {d:.3e} > {tol:.3e} at dt = {dt} s")
    t.outcome(("j2", form, "dt>0" if dt > 0 else "dt<0"))


# ---------------------------------------------------------------------------


# ---------------------------------------------------------------------------
# propagation under operation histories (explicit-state part)
#
# A case is a whole short history executed on a freshly built Orbit: nothing is shared between cases.
# Operations act on the current target (the original Orbit, or the object that replaced it):
#   prop    target.propagate(+1234 s), result compared with the reference and discarded (the target is unchanged:
#           this is what initialises / re-uses the propagator bound to the object)
#   step    target = target.propagate(+600 s)     (checked, too)
#   iter    list(target.iter(start=epoch, stop=+1800 s, step=600 s)): every yielded state is checked
#   ephem   target.ephem(start=epoch, stop=+1800 s, step=600 s): every tabulated state is checked
#   direct  a propagator object bound once (P = <class>(); P.orbit = target) and asked for two dates in a row
#   idx     write the last three components by index:  target[3:] = 1.01 x target[3:]
#   name    write the first component by its name:     target.<first parameter> = 0.97 x value
#   form    in-place form change
#   frame   in-place frame change EME2000 <-> G50 (constant rotation, same centre, non-rotating)
#   copy    target = target.copy()
# After the last operation the target is propagated by 0 s, +5000 s and -7000 s; every propagation of the history is
# compared with the reference propagation (universal variables / secular J2 model) of the state the reference model
# derives from the target's CURRENT numbers, form and frame at the moment of the call.

HK_OPS = ["prop", "step", "iter", "ephem", "direct", "idx", "name", "form", "frame", "copy"]
HK_FRAMES = {"EME2000": "G50", "G50": "EME2000"}
HK_FINAL = [0.0, 5000.0, -7000.0]
HK_ORBITS = {
    "quick": [("Kepler", (0.1, 1.1, 7.0e6, 3.5, 5.5, -2.0)), ("J2", (0.1, 1.1, 7.0e6, 3.5, 5.5, -2.0)), ("Kepler", (1.5, 2.5, 6.7e6, 1.0, 0.7, 0.8))],
    "thorough": [("Kepler", (0.1, 1.1, 7.0e6, 3.5, 5.5, -2.0)), ("J2", (0.1, 1.1, 7.0e6, 3.5, 5.5, -2.0)), ("Kepler", (1.5, 2.5, 6.7e6, 1.0, 0.7, 0.8)),
                 ("Kepler", (0.5, 0.01, 4.2e7, 6.0, 3.0, 3.5)), ("J2", (0.5, 2.5, 4.2e7, 6.0, 3.0, 3.5)), ("Kepler", (3.7, 1.1, 7.0e6, 3.5, 5.5, -2.0))],
}
HK_DEPTH = {"quick": 3, "thorough": 3}
# initial forms of the history part (the history logic does not depend on the element form beyond the first conversion)
HK_FORMS = {"quick": ["cartesian", "keplerian_mean", "spherical", "tle"], "thorough": None}


def hk_histories(depth):
    out = [()]
    for d in range(1, depth + 1):
        out.extend(itertools.product(HK_OPS, repeat=d))
    return out


def _state_R(obj):
    """Reference description of the CURRENT content of a library object (numbers, form; same-centre frame)."""
    from mc.ref import forms_ref as fr
    from mc.ref import twobody as tb

    mu = float(_earth().mu)
    arr = np.array(obj, dtype=float)
    if not np.all(np.isfinite(arr)):
        return None
    rv = np.asarray(fr.to_cart(obj.form.name, arr, mu), dtype=float)
    k = tb.cart_to_kep(rv, mu)
    e = k["e"]
    if not ((1e-4 * (1 - 1e-9) <= e <= 0.95 or 1.01 <= e <= 10) and 0.01 * (1 - 1e-9) <= k["i"] <= math.pi - 0.01 * (1 - 1e-9)):
        return "outside"
    return dict(mu=mu, a=k["a"], e=e, i=k["i"], Om=k["Om"], w=k["w"], M0=k["M"], n=k["n"], rv=rv,
                conic="ell" if e < 1 else "hyp", cond=1 + 1 / abs(1 - e))


def _hk_reference(Rc, prop, dt):
    from mc.ref import twobody as tb

    if prop == "Kepler":
        return tb.propagate_uv(Rc["rv"], dt, Rc["mu"])
    dOm, dw, dM = j2_rates(Rc)
    nu = tb.mean_to_true(Rc["M0"] + dM * dt, Rc["e"])[0]
    return tb.kep_to_cart(Rc["a"], Rc["e"], Rc["i"], Rc["Om"] + dOm * dt, Rc["w"] + dw * dt, nu, Rc["mu"])


def _hk_compare(t, Rc, o, out, dt, prop, sig, clause, case, what):
    """One state `out` produced by the library for date o.date + dt vs. the reference propagation of o's content."""
    try:
        x = np.array(out.copy(form="cartesian"), dtype=float)
    except Exception as ex:
        t.fail(sig, clause, case, "a state", repr(ex), f"{what}: {ex!r}")
        return
    if not np.all(np.isfinite(x)):
        t.fail(f"{sig}/non-finite", clause, case, "finite position and velocity", x, what)
        return
    t.ev()
    if out.frame.name != o.frame.name or abs((out.date - (o.date + _td(dt))).total_seconds()) > TOL_TIME:
        t.fail(sig, "propagate(dt) is the state at date+dt in the same frame", case, [str(o.date + _td(dt)), o.frame.name], [str(out.date), out.frame.name], what)
        return
    ref = _hk_reference(Rc, prop, dt)
    tol = state_tol(Rc, dt) + FAR_SAFETY * far_eta(Rc, ref)
    d = _rel(x, ref)
    if not _margin(t, f"history {prop}: vs reference propagation of the current state [rel/tol]", d, tol, case):
        t.fail(sig, clause, case, ref, x, f"{what}: state for epoch{dt:+.0f} s is {d:.3e} (rel) away from the reference propagation of the object's current state (tol {tol:.1e})")
    return x


def _hk_propagate(t, st, dt, prop, case, what, mode="prop"):
    """target.propagate(dt) [mode prop], or the iter / ephem / direct-propagator variants, on the real code vs. the
    reference propagation of the target's current state.  Returns the library result of mode prop (or None)."""
    o = st["obj"]
    Rc = _state_R(o)
    cls = f"{'primed' if st['primed'] else 'fresh'}/after-{st['mut']}"
    sig = f"{prop}.propagate/history/{cls}" if mode == "prop" else f"{prop}.{mode}/history/{cls}"
    clause = "propagation starts from the current state of the orbit, whatever was done with the object before"
    if Rc is None:
        t.fail(f"{prop}.propagate/history/state-lost", "operations keep a valid state", case, None, np.array(o, dtype=float), what)
        return None
    if Rc == "outside" or (prop == "J2" and Rc["conic"] == "hyp"):
        t.exclude("history leaves the property's domain of e / i")
        if mode != "prop":
            return None
        try:
            return o.propagate(_td(dt))
        except Exception:
            return None
    if mode in ("iter", "ephem"):
        kw = dict(start=o.date, stop=_td(1800.0), step=_td(600.0))
        try:
            states = list(o.iter(**kw)) if mode == "iter" else list(o.ephem(**kw))
            t.trans(len(states))
        except Exception as ex:
            t.fail(f"{sig}/raises-{type(ex).__name__}", clause, case, "4 states", repr(ex), f"{what}: {ex!r}")
            return None
        st["primed"] = True
        if len(states) != 4:
            t.fail(sig, "iteration yields start, start+step, ..., stop", case, 4, len(states), what)
        for k, y in enumerate(states):
            dtk = (y.date - o.date).total_seconds()
            _hk_compare(t, Rc, o, y, dtk, prop, sig, clause, case, f"{what}, state #{k}")
        return None
    if mode == "direct":
        from beyond.propagators import get_propagator

        try:
            P = get_propagator(prop)()
            P.orbit = o
            for k, dtk in enumerate((700.0, 1400.0, -300.0)):
                y = P.propagate(o.date + _td(dtk)) if k != 1 else P.propagate(_td(dtk))
                t.trans()
                _hk_compare(t, Rc, o, y, dtk, prop, sig, clause, case, f"{what}, call #{k}")
        except Exception as ex:
            t.fail(f"{sig}/raises-{type(ex).__name__}", clause, case, "states", repr(ex), f"{what}: {ex!r}")
        return None
    out, x = _propagate(o, _td(dt), t, sig, clause, case, what)
    st["primed"] = True
    if x is None:
        return None
    x = _hk_compare(t, Rc, o, out, dt, prop, sig, clause, case, what)
    if x is None:
        return out
    # independence from the call history, sharply: a brand-new Orbit with the same numbers / form / frame / date gives
    # the same result (same code, same inputs; 1e-12 x cond leaves room for legitimate re-association only)
    try:
        from beyond.orbits import Orbit

        fresh = np.array(Orbit(np.array(o, dtype=float), o.date, o.form.name, o.frame.name, prop).propagate(_td(dt)).copy(form="cartesian"), dtype=float)
        t.trans()
    except Exception as ex:
        fresh = None
    if fresh is not None and np.all(np.isfinite(fresh)):
        d2 = _rel(x, fresh)
        if not _margin(t, f"history {prop}: vs a brand-new Orbit with the same content [rel/tol]", d2, 1e-12 * Rc["cond"], case):
            t.fail(sig, clause, case, fresh, x, f"{what}: propagate({dt} s) differs by {d2:.3e} (rel) from the propagation of a brand-new Orbit with the same numbers, form, frame and date")
    return out


def check_history(prop, orb, form, ops, t):
    from mc.ref import forms_ref as fr

    R = ref_orbit(orb)
    forms = [f for f in fr.FORMS if f in R["nums"] and not (R["conic"] == "hyp" and f == "keplerian_mean_circular")]
    case = dict(kind="history", propagator=prop, orbit=list(orb), form=form, ops=list(ops), config={"eop": "pass"})
    st = dict(obj=_orbit(R, form, "EME2000", prop), primed=False, mut="none")
    for k, op in enumerate(ops):
        o = st["obj"]
        what = f"step {k} ({op}) of {list(ops)} from {form}"
        try:
            if op == "prop":
                _hk_propagate(t, st, 1234.0, prop, case, what)
            elif op == "step":
                out = _hk_propagate(t, st, 600.0, prop, case, what)
                if out is None:
                    return
                st = dict(obj=out, primed=False, mut="propagated")
            elif op in ("iter", "ephem", "direct"):
                _hk_propagate(t, st, 0.0, prop, case, what, mode=op)
            elif op == "idx":
                o[3:] = np.array(o, dtype=float)[3:] * 1.01
                st["mut"] = "write"
            elif op == "name":
                setattr(o, o.form.param_names[0], float(np.array(o, dtype=float)[0]) * 0.97)
                st["mut"] = "write"
            elif op == "form":
                o.form = forms[(forms.index(o.form.name) + 3) % len(forms)]
                st["mut"] = "form" if st["mut"] != "write" else "write"
            elif op == "frame":
                o.frame = HK_FRAMES[o.frame.name]
                st["mut"] = "frame" if st["mut"] != "write" else "write"
            elif op == "copy":
                st = dict(obj=o.copy(), primed=False, mut="copied")
            else:
                raise ValueError(op)
        except Exception as ex:
            if op not in HK_OPS:
                raise
            t.fail(f"{prop}.propagate/history/{op}-raises", "operations on an orbit succeed", case, None, repr(ex), f"{what}: {ex!r}")
            return
        t.trans()
    t.states_add(1)
    t.ev(("hist", prop) + tuple(orb) + (form,) if ops else None)
    for dt in HK_FINAL:
        _hk_propagate(t, st, dt, prop, dict(case, final_dt=dt), f"final propagate({dt} s) after {list(ops)} from {form}")
    _hk_propagate(t, st, 0.0, prop, dict(case, final="iter"), f"final iter() after {list(ops)} from {form}", mode="iter")
    t.outcome(("hist", prop, len(ops), tuple(sorted(set(ops)))))


# the same integer-valued cartesian initial state handed to Orbit() as different Python / numpy types
ARG_STATES = [[7000000, 1200000, -300000, -1000, 5000, 5500], [6800000, -2000000, 1500000, 3000, 9000, -7000]]
def _arg_class(typ):
    """input class of an argument type (signature): all-integer / 32-bit items / anything holding a 64-bit float"""
    return "32-bit-items" if "32" in typ else "all-integer" if "int" in typ and "mixing" not in typ else "float64-or-mixed"


ARG_TYPES = {
    "list-of-float": lambda v: [float(x) for x in v],
    "list-of-int": lambda v: [int(x) for x in v],
    "tuple-of-int": lambda v: tuple(int(x) for x in v),
    "int64-array": lambda v: np.array(v, dtype=np.int64),
    "float32-array": lambda v: np.array(v, dtype=np.float32),
    "list-mixing-int-and-float": lambda v: [int(x) if k % 2 else float(x) for k, x in enumerate(v)],
    "list-of-numpy-int64": lambda v: [np.int64(x) for x in v],
}


def check_argtypes(k, typ, prop, t):
    """Orbit built from integer-valued components given as type `typ`: propagates like the one built from floats and
    like the reference."""
    from beyond.orbits import Orbit

    vals = ARG_STATES[k]
    case = dict(kind="argtypes", state=k, type=typ, propagator=prop, config={"eop": "pass"})
    sig = f"{prop}.propagate/initial-state-argument-type/{_arg_class(typ)}"
    clause = "for every initial state: the numbers given are the initial state, whatever numeric type they come in"
    t.states_add(1)
    t.ev(("arg", k, typ, prop))
    base = Orbit([float(x) for x in vals], _W["date"], "cartesian", "EME2000", prop)
    Rc = _state_R(base)
    if Rc in (None, "outside"):
        raise RuntimeError("ARG_STATES outside the domain")
    if prop == "J2" and Rc["conic"] == "hyp":
        t.exclude("J2 secular rates on a hyperbola (averaging over a revolution undefined)")
        return
    try:
        o = Orbit(ARG_TYPES[typ](vals), _W["date"], "cartesian", "EME2000", prop)
    except Exception as ex:
        t.fail(sig, clause, case, vals, repr(ex), f"Orbit({typ}) raised {ex!r}")
        return
    for dt in (1000.0, -86400.0):
        out, x = _propagate(o, _td(dt), t, sig, clause, case, f"Orbit({typ}).propagate({dt} s)")
        if x is None:
            continue
        b = np.array(base.propagate(_td(dt)).copy(form="cartesian"), dtype=float)
        ref = _hk_reference(Rc, prop, dt)
        d = _rel(x, ref)
        if not np.array_equal(x, b) or not _margin(t, f"argument types {prop}: vs reference [rel/tol]", d, state_tol(Rc, dt), case):
            t.fail(sig, clause, case, ref, x, f"Orbit({typ}).propagate({dt} s) is {d:.3e} (rel) from the reference and {'differs from' if not np.array_equal(x, b) else 'equals'} the Orbit built from floats")


def run_unit(p, t):
    if p.get("part") == "argtypes":
        for k in range(len(ARG_STATES)):
            for typ in ARG_TYPES:
                for prop in ("Kepler", "J2"):
                    check_argtypes(k, typ, prop, t)
        return
    if p.get("part") == "hist":
        orb = tuple(p["orbit"])
        if p["first"] == HK_OPS[0]:
            check_history(p["propagator"], orb, p["form"], (), t)
        for ops in hk_histories(p["depth"]):
            if ops and ops[0] == p["first"]:
                check_history(p["propagator"], orb, p["form"], ops, t)
        return
    tier = p["tier"]
    for orb in base_orbits(tier):
        if orb[0] != p["e"]:
            continue
        R = ref_orbit(orb)
        dts = dt_list(tier, R["n"])
        if R["conic"] == "hyp" and p["form"] == "keplerian_mean":
            # the hyperbolic x TLE-form states that are not generated (counted once per frame and orbit)
            t.exclude("hyperbolic initial state in the TLE form (undefined: n = sqrt(mu/a^3), a < 0)", len(dts))
            t.exclude("hyperbolic initial state in the keplerian_mean_circular form (alpha = (w + M) mod 2pi cannot carry a hyperbolic mean anomaly; see C01)", len(dts))
        for dt in dts:
            check_kepler(orb, p["form"], p["frame"], dt, t, tier)
        if R["conic"] == "ell":
            dj = list(dts)
            for dt in dts:
                if abs(2 * dt) <= MAX_DT and 2 * dt not in dj:
                    dj.append(2 * dt)  # linearity: dt, 2dt, -dt
                elif abs(2 * dt) > MAX_DT:
                    t.exclude("2 dt outside the property's |dt| <= 30 d")
            for dt in dj:
                check_j2(orb, p["form"], p["frame"], dt, t)
        else:
            t.exclude("J2 secular rates on a hyperbola (averaging over a revolution undefined)", len(dts))
        if len(t.samples) < 1:
            t.sample(dict(kind="kepler", orbit=list(orb), form=p["form"], frame=p["frame"], dts=dts))


def replay(case, t):
    if case["kind"] == "argtypes":
        return check_argtypes(case["state"], case["type"], case["propagator"], t)
    orb = tuple(case["orbit"])
    if case["kind"] == "kepler":
        check_kepler(orb, case["form"], case["frame"], case["dt"], t)
    elif case["kind"] == "j2":
        check_j2(orb, case["form"], case["frame"], case["dt"], t)
    elif case["kind"] == "history":
        check_history(case["propagator"], orb, case["form"], tuple(case["ops"]), t)
    else:
        raise ValueError(case["kind"])
