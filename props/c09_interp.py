"""C09 — ephemeris interpolation is exact at nodes and accurate between them.

Exhaustive product  order x table length x sampling x method x query  executed on the
real `beyond.utils.interp.Interp` (exactly representable abscissae, exact rational
reference) and on the real `beyond.orbits.Ephem` (dated abscissae; polynomial
trajectories, reference two-body arcs, one-hot window monitoring, frames/forms).
"""

import math
from fractions import Fraction as Fr

PROPERTY = "C09"
DESIGN_REF = "DESIGN.md §4 C09"
CLAIM = dict(
    text="Every combination of interpolation order 2..12, table length {k, k+1, k+2, 2k+1, 30}, uniform / mildly "
    "non-uniform sampling, method lagrange / linear and every query of a fixed query set (all nodes, all interval "
    "midpoints, 2^-10 s (1 ms) on both sides of every node, both table ends, just outside either end) is executed "
    "on the real Interp and Ephem classes. The window actually used is observed from outside (one-hot data return "
    "the basis functions) and compared with the centred-window rule; results are compared with exact rational "
    "Lagrange / linear interpolation (tolerance = rounding-error bound of the evaluation, no tuning), polynomials "
    "of every degree < k are reproduced, a degree-k polynomial is NOT (negative control), a reference two-body LEO "
    "arc is met within a rigorous remainder + abscissa-quantisation bound and within centimetres, dates outside "
    "are refused with ValueError and frame/form tags are kept. Explicit-state part: every history up to depth 3 (quick) / 4 (thorough) "
    "over 17 operations on ONE Ephem object (interpolate at the first / a middle node, between nodes, in the last interval, propagate, "
    "the same instants expressed in TT / GPS, in-place form / frame change and coordinate write on a RETURNED point, method = linear / lagrange, order = 4 / 7, ephem.form / "
    "ephem.frame setters, iteration over a sub-range) is replayed on a fresh object and compared with a model of the ephemeris' current "
    "settings; a returned point must never be a stored point and the table must never change through a returned point.",
    note="Trusts exact rational arithmetic (fractions), the reference two-body model (mc/ref/twobody.py, self-tested) "
    "and the Fourier/Bessel derivative bound of Kepler motion (self-checked against the reference at import of the "
    "unit). Takes beyond.constants.Earth.mu and the library's form/frame conversions (for the tag check only) as data.",
    technique="exhaustive product over finite input alphabets on the real code vs. exact rational reference model; "
    "one-hot window monitoring; rigorous error bounds",
)
RULE = (
    "part E: state = operation history on one fresh Ephem object (rebuilt by replay), all histories over the 17-operation alphabet up to "
    "the depth bound, pruned only where a mutation has no returned point to act on or where the prefix already violated; distinct by "
    "history, non-trivial when longer than one operation. Parts A-D: case = (part, order k, table length n, sampling, method, query); queries: every node, every interval midpoint, "
    "node +- 2^-10 s (Interp) / +- 1 ms (Ephem) for every node, first and last node, outside by 1 ms / 2 us / 1 ulp. "
    "Every case exercises the binary search + window selection at a distinct (bracket index, offset) position, so "
    "every case with a query strictly between two nodes is non-trivial; cases are distinct by construction."
)
BOUNDS = {
    "quick": "histories on one Ephem: depth <= 3 over 17 operations; orders 2..12 x n in {k,k+1,k+2,2k+1,30} x {uniform 60 s, cyclic 60/45/75/50 s} x {lagrange, linear}; "
    "Kepler arcs: circular + e=0.0012 LEO at 60 s and 10 s (uniform and non-uniform); 3 frame/form pairs",
    "thorough": "histories on one Ephem: depth <= 4; same product (it is already the full product of DESIGN §4 C09) plus table lengths 3k and 64, a third "
    "sampling pattern (cyclic 60/50/70/55/65 s) and a second eccentric arc (e=0.01)",
}
ASSUMPTIONS = [
    "query-label dimension: every Ephem query of parts B, D and E is repeated (B, D) or available as an operation (E) with the same instant "
    "expressed in TT / TAI / GPS (built with Date.change_scale under the zero-EOP configuration); the result must be that of the UTC-labelled "
    "query, bit-identical when both dates are the same double MJD; dates just outside are refused in every scale",
    "reference = exact rational Lagrange / linear interpolation on the expected window; rounding tolerance "
    "6k*u*sum|l_j y_j| (u=2^-53) derived from the operation count of the product form",
    "Ephem abscissae are MJD doubles: node/query instants carry <= 2^-38 d (0.314 us) of quantisation, which enters "
    "the tolerance as (sum|l_j||p'(t_j)| + |p'(x)|) * 0.3144 us",
    "Kepler-arc truth: universal-variable propagation of mc/ref/twobody.py; derivative bound of order k from the "
    "Fourier-Bessel series of Kepler motion (exact for the circular arc)",
    "EOP policy 'pass' (zero corrections): only used by the ITRF/TOD tag cases",
]
NOT_COVERED = (
    "orders > 12, tables longer than 64, strongly irregular sampling, ephemerides with mixed frames/forms, accuracy of "
    "interpolated velocities and of non-cartesian forms (the property speaks of positions), Ephem.iter (C08)"
)

U = 2.0 ** -53
EPS_T = 86400.0 * (2.0 ** -38 + 2.0 ** -54) + 1e-10  # worst-case quantisation of an MJD double near 5.8e4 d [s]
PATTERNS = {
    ("uniform", 60): [60],
    ("cyclic4", 60): [60, 45, 75, 50],
    ("cyclic5", 60): [60, 50, 70, 55, 65],
    ("uniform", 10): [10],
    ("cyclic4", 10): [10, Fr(15, 2), Fr(25, 2), Fr(17, 2)],
}
START = (2018, 4, 5, 16, 50, 0)


def lengths(k, tier):
    ns = [k, k + 1, k + 2, 2 * k + 1, 30]
    if tier != "quick":
        ns += [3 * k, 64]
    out = []
    for n in ns:
        if n >= k and n not in out:
            out.append(n)
    return out


def samplings(tier):
    return ["uniform", "cyclic4"] + (["cyclic5"] if tier != "quick" else [])


def table_times(n, sampling, h=60):
    pat = PATTERNS[(sampling, h)]
    ts = [Fr(0)]
    for i in range(n - 1):
        ts.append(ts[-1] + Fr(pat[i % len(pat)]))
    return ts


def queries(ts, delta):
    """[(kind, time)] inside the table (closed range) and just outside."""
    n = len(ts)
    q = []
    for i, x in enumerate(ts):
        q.append(("node", x))
        if i > 0:
            q.append(("below-node", x - delta))
        if i < n - 1:
            q.append(("above-node", x + delta))
            q.append(("mid", (x + ts[i + 1]) / 2))
    return q


# ---------------------------------------------------------------------------
# exact reference


def bracket(ts, x):
    """index i with ts[i] < x <= ts[i+1]  (i = 0 for x == ts[0])."""
    i = 0
    for j in range(len(ts) - 1):
        if ts[j] < x:
            i = j
    return i


def acceptable_windows(n, k, i):
    """Starts s of windows [s, s+k) that contain the bracketing pair (i, i+1) and are centred
    (|#nodes <= i  -  #nodes >= i+1| <= 1) unless clamped flush with a table end."""
    out = set()
    for left in {k // 2, k - k // 2}:  # nodes at or left of i
        s = i - left + 1
        s = max(0, min(s, n - k))
        out.add(s)
    return out


def basis(ts, s, k, x):
    ls = []
    for j in range(s, s + k):
        v = Fr(1)
        for m in range(s, s + k):
            if m != j:
                v *= (x - ts[m]) / (ts[j] - ts[m])
        ls.append(v)
    return ls


def poly_eval(coefs, tau):
    v = Fr(0)
    for c in reversed(coefs):
        v = v * tau + c
    return v


def poly_der(coefs):
    return [c * d for d, c in enumerate(coefs)][1:] or [Fr(0)]


# ---------------------------------------------------------------------------
# part A: raw Interp, exactly representable abscissae

H_A = 60


def columns_A(ts, k):
    """Exact column functions (as callables on Fraction) besides the one-hot block."""
    n = len(ts)
    c0, c1 = ts[0], ts[n // 2]
    cols = []
    for c in (c0, c1):
        for d in range(k):
            cols.append(("mono", d, (lambda x, c=c, d=d: ((x - c) / H_A) ** d)))
    dense = [Fr((-1) ** d * (d + 2), d + 1) for d in range(k)]
    cols.append(("dense", k - 1, (lambda x: poly_eval(dense, (x - c1) / H_A))))
    cols.append(("control", k, (lambda x: ((x - c1) / H_A) ** k)))
    return cols


def check_A(k, n, sampling, method, t, only=None):
    import numpy as np
    from beyond.utils.interp import Interp

    ts = table_times(n, sampling)
    xs = np.array([float(x) for x in ts])
    assert all(Fr(float(x)) == x for x in ts)
    cols = columns_A(ts, k)
    ys = np.zeros((n, n + len(cols)))
    ys[:, :n] = np.identity(n)
    for c, (_, _, f) in enumerate(cols):
        for j, x in enumerate(ts):
            ys[j, n + c] = float(f(x))
    ysF = [[Fr(v) for v in row] for row in ys.tolist()]
    f = Interp(xs, ys, method, k)
    delta = Fr(1, 1024)
    base = dict(part="A", k=k, n=n, sampling=sampling, method=method)

    qs = queries(ts, delta)
    for kind, x in qs:
        if only is not None and [x.numerator, x.denominator] != only:
            continue
        case = dict(base, qkind=kind, q=[x.numerator, x.denominator])
        t.states_add(1)
        t.trans()
        try:
            r = np.array(f(float(x)), dtype=float)
        except Exception as e:
            t.fail(f"interp/{method}/raises-inside", "every query in [first, last] yields a value", case, "value", repr(e))
            continue
        t.ev(("A", k, n, sampling, method, kind, str(x)) if kind != "node" else None)
        i = bracket(ts, x)
        hot = r[:n]
        support = [j for j in range(n) if hot[j] != 0.0]
        if kind == "node":
            j = ts.index(x)
            t.outcome(("A-node", method))
            if not np.array_equal(r, ys[j]):
                bad = [c for c in range(r.size) if r[c] != ys[j, c]]
                what = "onehot" if any(c < n for c in bad) else "data"
                t.fail(f"interp/{method}/node-not-exact/{what}", "interpolating at a node returns that point exactly",
                       case, {str(c): ys[j, c] for c in bad[:6]}, {str(c): r[c] for c in bad[:6]},
                       f"columns {bad[:6]} differ by up to {max(abs(r[c]-ys[j,c]) for c in bad):.3e}")
            continue
        if method == "linear":
            s, kk = i, 2
            ok_windows = {i}
        else:
            kk = k
            ok_windows = acceptable_windows(n, k, i)
            s = support[0] if support else -1
        # (2) window monitoring
        if support != list(range(s, s + kk)) or s not in ok_windows:
            t.fail(f"interp/{method}/window", "window = k consecutive nodes around the bracketing pair, centred unless "
                   "flush with a table end", case, sorted(ok_windows), support, f"bracket=({i},{i+1}) n={n} k={kk}")
            continue
        t.outcome(("A-window", method, "left" if s == 0 else "right" if s + kk == n else "centre", kk % 2))
        ls = basis(ts, s, kk, x)
        # basis values
        for j, l in zip(range(s, s + kk), ls):
            # product form: relative error per basis value; chord form y0 + (y1-y0)*th: absolute error u*(4|y1-y0| + max|y|)
            btol = 4 * kk * U * abs(l) if method == "lagrange" else 5 * U
            if not t.margin(f"A {method}: |basis - exact| / " + ("(4k u |l_j|)" if method == "lagrange" else "(5 u)"),
                            abs(Fr(hot[j]) - l), btol, case):
                t.fail(f"interp/{method}/basis-value", "Lagrange/linear basis value", case, float(l), hot[j], f"node {j}")
        # every data column vs the exact interpolant through the (float) data and vs the exact polynomial
        for c, (ckind, deg, fun) in enumerate(cols):
            col = n + c
            exact_interp = sum(l * ysF[j][col] for j, l in zip(range(s, s + kk), ls))
            S = sum(abs(l * ysF[j][col]) for j, l in zip(range(s, s + kk), ls))
            if method == "lagrange":
                tol, tname = 6 * kk * U * S, "(6k u S)"
            else:
                tol, tname = 5 * U * (abs(ysF[s][col]) + abs(ysF[s + 1][col])), "(5 u (|y0|+|y1|))"
            got = Fr(r[col])
            if not t.margin(f"A {method}: |result - exact interpolant| / {tname}", abs(got - exact_interp), tol, case):
                t.fail(f"interp/{method}/interpolant", "result is the degree<k interpolant on the window (resp. the "
                       "piecewise-linear one)", case, float(exact_interp), r[col], f"column {ckind} deg {deg}")
            if method == "lagrange":
                p = fun(x)
                if deg < kk:
                    if not t.margin("A lagrange: |result - p(x)| / (7k u S), deg p < k", abs(got - p), 7 * kk * U * S, case):
                        t.fail("interp/lagrange/poly-reproduction", "order k reproduces every polynomial of degree < k",
                               case, float(p), r[col], f"{ckind} degree {deg}, k={kk}")
                else:
                    # negative control: a degree-k monic polynomial differs from its interpolant by prod(x-x_j)/H^k
                    rem = Fr(1)
                    for m in range(s, s + kk):
                        rem *= (x - ts[m]) / H_A
                    t.outcome(("A-control-differs", abs(got - p) > 100 * tol))
                    if not abs((p - got) - rem) <= tol + abs(rem) * 8 * kk * U:
                        t.fail("interp/lagrange/remainder", "degree-k monomial minus interpolant = prod(x - x_j)", case,
                               float(rem), float(p - got))
    # (6) outside -> ValueError
    if only is None or only == ["outside"]:
        outs = [("delta-below", float(ts[0] - delta)), ("delta-above", float(ts[-1] + delta)),
                ("ulp-below", float(np.nextafter(xs[0], -np.inf)) if xs[0] != 0 else -5e-324),
                ("ulp-above", float(np.nextafter(xs[-1], np.inf)))]
        for name, x in outs:
            case = dict(base, qkind="outside", q=["outside"])
            t.states_add(1)
            t.trans()
            t.ev(("A-out", k, n, sampling, method, name))
            try:
                r = f(x)
            except ValueError:
                t.outcome("A-outside-ValueError")
                continue
            except Exception as e:
                t.fail(f"interp/{method}/outside-wrong-exception", "outside -> ValueError", case, "ValueError", repr(e), name)
                continue
            t.fail(f"interp/{method}/outside-extrapolated", "dates outside the table are refused, not extrapolated", case,
                   "ValueError", np.array(r, dtype=float).tolist()[:4], name)


# ---------------------------------------------------------------------------
# part B: Ephem with polynomial trajectories + one-hot monitoring through Ephem

OMEGA = Fr(11, 10000)  # rad/s
RADIUS = 6800000


def traj_coefs(k):
    """3 position polynomials of degree <= k-1 in tau = OMEGA*t (truncated cos / sin / cos+sin series, LEO magnitudes)."""
    out = []
    for pattern in ((1, 0, -1, 0), (0, 1, 0, -1), (1, 1, -1, -1)):
        out.append([Fr(RADIUS * pattern[d % 4], math.factorial(d)) for d in range(k)])
    return out


def _date(sec, scale=None):
    """Date at START + sec (Fraction of seconds, exact microseconds); optionally the same instant labelled in another time scale
    (built with the documented change_scale(); zero-EOP configuration: fixed offsets)."""
    from beyond.dates import Date, timedelta

    us = sec * 10 ** 6
    assert us.denominator == 1
    d = Date(*START) + timedelta(microseconds=int(us))
    return d if scale in (None, "UTC") else d.change_scale(scale)


SCALES = ("TT", "TAI", "GPS")


def check_label(eph, x, d, res, qi, sig, t, case, slope=None):
    """The same instant supplied as a TT / TAI / GPS date must give the result of the UTC-labelled query: bit-identical when
    the two dates are the same double MJD, else (change_scale may move the internal MJD by one ulp, <= 0.63 us) within
    slope * |dt|; the result's date is compared as an instant.  Returns the relabelled result (or None)."""
    import numpy as np

    sc = SCALES[qi % 3]
    d2 = _date(x, sc)
    try:
        r2 = eph.interpolate(d2)
    except Exception as e:
        t.fail(f"{sig}/raises", "a date inside the table is accepted whatever the time scale it is expressed in", case, "StateVector",
               repr(e), f"query {d2} ({sc}) = {d}")
        return None
    t.trans()
    a, b = np.array(res, dtype=float), np.array(r2, dtype=float)
    dt = abs(d2._mjd - d._mjd) * 86400.0
    if dt > 1e-6:
        raise AssertionError(f"change_scale moved the instant by {dt} s")  # C03's subject, not this check's
    if not (abs(r2.date._mjd - d._mjd) * 86400.0 <= 1e-6):
        t.fail(f"{sig}/date", "an interpolated point carries the instant that was asked", case, str(d), str(r2.date), f"query in {sc}")
    ok = np.array_equal(a, b) if dt == 0.0 else (slope is not None and bool(np.all(np.abs(a - b) <= slope * dt * 4 + 1e-9)))
    if dt != 0.0 and slope is None:
        ok = True
        t.exclude("relabelled date is another double MJD (1 ulp): bit-equality not applicable")
    if not ok:
        t.fail(f"{sig}/value", "the result does not depend on the time scale in which the query instant is expressed", case, a.tolist(), b.tolist(),
               f"query {d2} ({sc}) vs {d} (UTC): max difference {np.max(np.abs(a - b)):.3e}")
    return r2


def check_B(k, n, sampling, method, t, only=None):
    import numpy as np
    from beyond.orbits import Ephem, StateVector

    ts = table_times(n, sampling)
    pos = traj_coefs(k)
    # d/dt = OMEGA d/dtau
    vel = [[c * OMEGA for c in poly_der(p)] for p in pos]
    comps = pos + vel
    dcomps = [[c * OMEGA for c in poly_der(p)] for p in comps]

    def exact(x):
        return [poly_eval(c, OMEGA * x) for c in comps]

    def exact_d(x):
        return [poly_eval(c, OMEGA * x) for c in dcomps]

    dates = [_date(x) for x in ts]
    nodes = [[float(v) for v in exact(x)] for x in ts]
    nodesF = [[Fr(v) for v in row] for row in nodes]
    dnodes = [[abs(v) for v in exact_d(x)] for x in ts]
    eph = Ephem([StateVector(nodes[j], dates[j], "cartesian", "EME2000") for j in range(n)], method=method, order=k)
    # one-hot ephemerides (6 nodes per ephemeris)
    hots = []
    for g in range(0, n, 6):
        svs = []
        for j in range(n):
            v = [0.0] * 6
            if g <= j < g + 6:
                v[j - g] = 1.0
            svs.append(StateVector(v, dates[j], "cartesian", "EME2000"))
        hots.append(Ephem(svs, method=method, order=k))
    delta = Fr(1, 1000)
    base = dict(part="B", k=k, n=n, sampling=sampling, method=method)
    for kind, x in queries(ts, delta):
        if only is not None and [x.numerator, x.denominator] != only:
            continue
        case = dict(base, qkind=kind, q=[x.numerator, x.denominator])
        d = _date(x)
        t.states_add(1)
        try:
            res = eph.interpolate(d)
            res2 = eph.propagate(d)
            hot = np.concatenate([np.array(hh.interpolate(d), dtype=float) for hh in hots])[:n]
            t.trans(2 + len(hots))
        except Exception as e:
            t.fail(f"ephem/{method}/raises-inside", "every date in [first, last] yields a point", case, "StateVector", repr(e))
            continue
        t.ev(("B", k, n, sampling, method, kind, str(x)) if kind != "node" else None)
        r = np.array(res, dtype=float)
        qi = (x.numerator + x.denominator + k + n) % 3  # deterministic choice of the label (all three occur over the query set)
        check_label(eph, x, d, res, qi, "ephem/query-scale", t, case, slope=float(max(abs(v) for v in exact_d(x))) * 60.0)
        # (7) tags
        tags = (res.frame.name, res.form.name, res.date == d, type(res).__name__)
        if tags[:3] != ("EME2000", "cartesian", True):
            t.fail("ephem/tags", "an interpolated point keeps the ephemeris' frame and form (and carries the query date)",
                   case, ["EME2000", "cartesian", True], list(tags))
        if not np.array_equal(r, np.array(res2, dtype=float)):
            t.fail("ephem/propagate-alias", "Ephem.propagate is interpolate", case, r.tolist(), np.array(res2, dtype=float).tolist())
        i = bracket(ts, x)
        support = [j for j in range(n) if hot[j] != 0.0]
        if kind == "node":
            j = ts.index(x)
            t.outcome(("B-node", method))
            if not np.array_equal(r, np.array(nodes[j])):
                t.fail(f"ephem/{method}/node-not-exact/data", "interpolating an ephemeris at one of its own dates returns "
                       "that point exactly", case, nodes[j], r.tolist(),
                       f"max diff {np.max(np.abs(r-np.array(nodes[j]))):.3e}")
            if support != [j] or hot[j] != 1.0:
                t.fail(f"ephem/{method}/node-not-exact/onehot", "interpolating at a node returns that point exactly", case,
                       [j], [support, hot[j]])
            continue
        if method == "linear":
            s, kk, ok_windows = i, 2, {i}
        else:
            kk, ok_windows = k, acceptable_windows(n, k, i)
            s = support[0] if support else -1
        if support != list(range(s, s + kk)) or s not in ok_windows:
            t.fail(f"ephem/{method}/window", "window = k consecutive nodes around the bracketing pair, centred unless "
                   "flush with a table end", case, sorted(ok_windows), support, f"bracket=({i},{i+1}) n={n} k={kk}")
            continue
        t.outcome(("B-window", method, "left" if s == 0 else "right" if s + kk == n else "centre", kk % 2))
        ls = basis(ts, s, kk, x)
        lam = sum(abs(l) for l in ls)
        # basis through dated abscissae: relative perturbation sum_m eps/|x - x_m| per factor
        for j, l in zip(range(s, s + kk), ls):
            rel = sum((2 * EPS_T) / float(abs(x - ts[m])) for m in range(s, s + kk) if m != j) \
                + sum((2 * EPS_T) / float(abs(ts[j] - ts[m])) for m in range(s, s + kk) if m != j)
            tol = float(abs(l)) * (1.1 * rel + 4 * kk * U)
            if not t.margin(f"B {method}: |basis - exact| / (abscissa quantisation bound)", abs(hot[j] - float(l)), tol, case):
                t.fail(f"ephem/{method}/basis-value", "basis value on dated abscissae", case, float(l), hot[j], f"node {j}")
        ex = exact(x)
        dx = exact_d(x)
        for c in range(6):
            S = sum(abs(l * nodesF[j][c]) for j, l in zip(range(s, s + kk), ls))
            qterm = (sum(abs(l) * dnodes[j][c] for j, l in zip(range(s, s + kk), ls)) + abs(dx[c])) * Fr(EPS_T)
            tol = 7 * kk * U * S + qterm * Fr(1000001, 1000000) + Fr(1, 10 ** 9)
            if method == "lagrange":
                target = ex[c]
                name = "B lagrange: |result - p(t)| / (rounding + (sum|l_j p'_j| + |p'|) 0.314 us)"
                sig, clause = "ephem/lagrange/poly-reproduction", "order k reproduces every polynomial trajectory of degree < k"
            else:
                th = (x - ts[i]) / (ts[i + 1] - ts[i])
                target = nodesF[i][c] * (1 - th) + nodesF[i + 1][c] * th
                name = "B linear: |result - chord| / (rounding + 3 |slope| 0.314 us)"
                sig, clause = "ephem/linear/pw-linear", "linear interpolation reproduces the piecewise-linear trajectory"
                # slope of the chord instead of p'
                slope = abs((nodesF[i + 1][c] - nodesF[i][c]) / (ts[i + 1] - ts[i]))
                tol = 5 * U * (abs(nodesF[i][c]) + abs(nodesF[i + 1][c])) + 3 * slope * Fr(EPS_T) + Fr(1, 10 ** 9)
            if not t.margin(name, abs(Fr(r[c]) - target), tol, case):
                t.fail(sig, clause, case, float(target), r[c], f"component {c}, Lebesgue {float(lam):.2f}")
    if only is None or only == ["outside"]:
        for name, x in (("1ms-before", ts[0] - delta), ("2us-before", ts[0] - Fr(2, 10 ** 6)),
                        ("1ms-after", ts[-1] + delta), ("2us-after", ts[-1] + Fr(2, 10 ** 6))):
            case = dict(base, qkind="outside", q=["outside"])
            t.states_add(1)
            t.ev(("B-out", k, n, sampling, method, name))
            for fn in ("interpolate", "propagate", "TT", "TAI", "GPS"):
                t.trans()
                try:
                    r = getattr(eph, fn)(_date(x)) if fn in ("interpolate", "propagate") else eph.interpolate(_date(x, fn))
                except ValueError:
                    t.outcome("B-outside-ValueError")
                    continue
                except Exception as e:
                    t.fail(f"ephem/{method}/outside-wrong-exception", "outside -> ValueError", case, "ValueError", repr(e), name)
                    continue
                t.fail(f"ephem/{method}/outside-extrapolated/{name.split('-')[0]}", "dates outside the table are refused, "
                       "not extrapolated", case, "ValueError", np.array(r, dtype=float).tolist(), f"{fn} {name}")


# ---------------------------------------------------------------------------
# part C: accuracy on reference two-body arcs


def bessel_j(m, z, terms=40):
    s = 0.0
    for q in range(terms):
        s += (-1) ** q * (z / 2) ** (2 * q + m) / (math.factorial(q) * math.factorial(q + m))
    return s


def kepler_derivative_bound(a, e, n_mean, k, mmax=60):
    """Upper bound of |d^k r/dt^k| for Kepler motion with elements (a, e), from
    x/a = cos E - e = -3e/2 + sum_m X_m cos mM,  y/b = sin E = sum_m Y_m sin mM,
    X_m = (J_{m-1}(me) - J_{m+1}(me))/m,  Y_m = (J_{m-1}(me) + J_{m+1}(me))/m."""
    b_a = math.sqrt(1 - e * e)
    tot = 0.0
    for m in range(1, mmax + 1):
        if e == 0 and m > 1:
            break
        X = (bessel_j(m - 1, m * e) - bessel_j(m + 1, m * e)) / m
        Y = (bessel_j(m - 1, m * e) + bessel_j(m + 1, m * e)) / m * b_a
        tot += float(m) ** k * (max(abs(X), abs(Y)) if m == 1 else abs(X) + abs(Y))
    return a * n_mean ** k * tot


def _series_selfcheck():
    """The Fourier-Bessel series used for the bound reproduces the reference orbit (guards the bound)."""
    from mc.ref import twobody as tb

    for e in (0.0012, 0.01):
        for M in (0.3, 2.0, 4.4):
            nu, E = tb.mean_to_true(M, e)
            cx = -1.5 * e + sum((bessel_j(m - 1, m * e) - bessel_j(m + 1, m * e)) / m * math.cos(m * M) for m in range(1, 30))
            sy = sum((bessel_j(m - 1, m * e) + bessel_j(m + 1, m * e)) / m * math.sin(m * M) for m in range(1, 30))
            assert abs(cx - (math.cos(E) - e)) < 1e-13 and abs(sy - math.sin(E)) < 1e-13, (e, M, cx, sy)


ARCS = {
    "circular": dict(a=6778137.0, e=0.0, i=0.9, Om=1.0, w=0.0, nu=0.3),
    "iss-like": dict(a=6778137.0, e=0.0012, i=0.9006, Om=1.0, w=0.5, nu=0.3),
    "e0.01": dict(a=6878137.0, e=0.01, i=1.7, Om=4.0, w=2.0, nu=5.0),
}


def check_C(k, n, sampling, h, arc, t, only=None):
    import numpy as np
    from beyond.constants import Earth
    from beyond.orbits import Ephem, StateVector
    from mc.ref import twobody as tb

    mu = Earth.mu
    el = ARCS[arc]
    rv0 = tb.kep_to_cart(el["a"], el["e"], el["i"], el["Om"], el["w"], el["nu"], mu)
    n_mean = math.sqrt(mu / el["a"] ** 3)
    vmax = math.sqrt(mu / el["a"] * (1 + el["e"]) / (1 - el["e"]))
    dk = kepler_derivative_bound(el["a"], el["e"], n_mean, k)
    ts = table_times(n, sampling, h)
    dates = [_date(x) for x in ts]
    truth = [tb.propagate_uv(rv0, float(x), mu) for x in ts]
    eph = Ephem([StateVector(truth[j], dates[j], "cartesian", "EME2000") for j in range(n)], order=k)
    delta = Fr(1, 1000)
    base = dict(part="C", k=k, n=n, sampling=sampling, h=h, arc=arc)
    cm_claim = (h == 60 and k >= 8) or (h == 10 and k >= 4)
    for kind, x in queries(ts, delta):
        if kind == "node":
            continue
        if only is not None and [x.numerator, x.denominator] != only:
            continue
        case = dict(base, qkind=kind, q=[x.numerator, x.denominator])
        t.states_add(1)
        t.trans()
        try:
            r = np.array(eph.interpolate(_date(x)), dtype=float)
        except Exception as e:
            t.fail("ephem/kepler-arc/raises-inside", "every date in [first, last] yields a point", case, "StateVector", repr(e))
            continue
        t.ev(("C", k, n, sampling, h, arc, kind, str(x)))
        true = tb.propagate_uv(rv0, float(x), mu)
        err = float(np.linalg.norm(r[:3] - true[:3]))
        i = bracket(ts, x)
        # the library's window is the (k even: unique) centred one; for odd k take the worst acceptable window
        bound = 0.0
        for s in acceptable_windows(n, k, i):
            ls = basis(ts, s, k, x)
            lam = float(sum(abs(l) for l in ls))
            prod = 1.0
            for m in range(s, s + k):
                prod *= float(abs(x - ts[m]))
            b = dk * prod / math.factorial(k) + (lam + 1) * vmax * EPS_T + 8 * k * U * lam * el["a"] * (1 + el["e"]) * 1.01 + 1e-7
            bound = max(bound, b)
        if not t.margin("C kepler arc: |r - truth| / (remainder bound + (L+1)|v| 0.314 us + rounding)", err, bound, case):
            t.fail("ephem/kepler-arc/remainder-bound", "interpolation error within the Lagrange remainder + abscissa "
                   "quantisation bound", case, bound, err, f"order {k}, step {h} s")
        if cm_claim:
            t.outcome(("C-cm", h, k))
            if not t.margin("C kepler arc: |r - truth| / 10 cm ('within centimetres'; order>=8 @60 s, order>=4 @10 s)", err, 0.10, case):
                t.fail("ephem/kepler-arc/centimetres", "interpolated position within centimetres of the true one, near the "
                       "ends as well as in the middle", case, 0.10, err, f"order {k}, step {h} s, bracket {i}/{n-1}")
            if k == 8:
                # informative: the default order against the 1 cm of DESIGN §4 (floor: (L+1)|v| x 0.314 us of MJD quantisation)
                t.margin("C kepler arc, default order 8: |r - truth| / 1 cm", err, 0.01, case)
        else:
            t.exclude("centimetre claim not applicable: order too low for the step (sampling not 'well below' the "
                      "scale of variation for this order)")


# ---------------------------------------------------------------------------
# part D: frame / form tags and node exactness in other representations

TAG_SETS = [("cartesian", "EME2000"), ("spherical", "ITRF"), ("keplerian", "TOD")]


def check_D(k, n, method, t, only=None):
    import numpy as np
    from beyond.constants import Earth
    from beyond.orbits import Ephem, StateVector
    from mc.ref import twobody as tb

    mu = Earth.mu
    el = ARCS["iss-like"]
    rv0 = tb.kep_to_cart(el["a"], el["e"], el["i"], el["Om"], el["w"], el["nu"], mu)
    ts = table_times(n, "cyclic4", 60)
    for form, frame in TAG_SETS:
        if only is not None and only != [form, frame]:
            continue
        case = dict(part="D", k=k, n=n, method=method, q=[form, frame])
        svs = []
        for x in ts:
            sv = StateVector(tb.propagate_uv(rv0, float(x), mu), _date(x), "cartesian", "EME2000")
            svs.append(sv.copy(form=form, frame=frame))
        data = [np.array(s, dtype=float) for s in svs]
        eph = Ephem(svs, method=method, order=k)
        for kind, x in queries(ts, Fr(1, 1000)):
            if kind not in ("node", "mid"):
                continue
            t.states_add(1)
            t.trans()
            t.ev(("D", k, n, method, form, frame, str(x)))
            try:
                res = eph.interpolate(_date(x))
            except Exception as e:
                t.fail("ephem/tags/raises-inside", "every date in [first, last] yields a point", case, "StateVector", repr(e), str(x))
                continue
            check_label(eph, x, _date(x), res, (x.numerator + k + n) % 3, "ephem/query-scale", t, case)
            got = (res.frame.name, res.form.name)
            t.outcome(("D-tags",) + got)
            if got != (frame, form) or not (res.date == _date(x)):
                t.fail("ephem/tags", "an interpolated point keeps the ephemeris' frame and form", case, [frame, form], list(got), str(x))
            if kind == "node":
                j = ts.index(x)
                if not np.array_equal(np.array(res, dtype=float), data[j]):
                    t.fail(f"ephem/{method}/node-not-exact/data", "interpolating an ephemeris at one of its own dates returns "
                           "that point exactly", case, data[j].tolist(), np.array(res, dtype=float).tolist(), f"{form}/{frame} node {j}")


# ---------------------------------------------------------------------------
# part E: explicit-state histories on ONE Ephem object
#
# state = history of operations applied to a fresh ephemeris (rebuilt by replay); after the last operation of every
# history the model (table in the CURRENT form/frame, CURRENT method and order, actual MJD abscissae as data, exact
# rational Lagrange / linear interpolation) is compared with the object, and the two structural invariants are checked:
# a returned point is never a stored point, and the stored table never changes through a returned point.

E_OPS = ["in0", "inM", "inT", "im", "imG", "ie", "pr", "mf", "mr", "mw", "sl", "sg", "o4", "o7", "ef", "er", "it"]
E_N = 12
E_QUERY = {"im": Fr(655, 2), "ie": Fr(1207, 2), "pr": Fr(401)}  # seconds: mid-table, last interval, near a node
E_MIDNODE = 5


class EphemModel:
    """What the ephemeris must be after a history: settings + private copies of the points on which the same public
    form/frame setters are applied (the library's conversions are data here, C01/C02 decide them)."""

    def __init__(self):
        import numpy as np
        from beyond.constants import Earth
        from beyond.orbits import StateVector
        from mc.ref import twobody as tb

        el = ARCS["iss-like"]
        rv0 = tb.kep_to_cart(el["a"], el["e"], el["i"], el["Om"], el["w"], el["nu"], Earth.mu)
        self.ts = table_times(E_N, "cyclic4", 60)
        self.dates = [_date(x) for x in self.ts]
        self.raw = [tb.propagate_uv(rv0, float(x), Earth.mu) for x in self.ts]
        self.points = [StateVector(self.raw[j], self.dates[j], "cartesian", "EME2000") for j in range(E_N)]
        self.method, self.order, self.form, self.frame = "lagrange", 8, "cartesian", "EME2000"
        self.used = False  # interpolator built
        self.poisoned = False  # ephem.form / ephem.frame set after the first use

    def fresh_ephem(self):
        from beyond.orbits import Ephem, StateVector

        return Ephem([StateVector(self.raw[j], self.dates[j], "cartesian", "EME2000") for j in range(E_N)])

    def table(self):
        import numpy as np

        return [np.array(p, dtype=float) for p in self.points]

    def expected(self, date):
        """Exact interpolant(s) at `date` for the current settings: list of (values, tolerances), one per acceptable window."""
        xs = [Fr(d._mjd) for d in self.dates]
        x = Fr(date._mjd)
        tab = [[Fr(v) for v in row.tolist()] for row in self.table()]
        i = 0
        for j in range(E_N - 1):
            if xs[j] < x:
                i = j
        out = []
        if self.method == "linear":
            th = (x - xs[i]) / (xs[i + 1] - xs[i])
            vals = [tab[i][c] * (1 - th) + tab[i + 1][c] * th for c in range(6)]
            tols = [6 * U * (abs(tab[i][c]) + abs(tab[i + 1][c])) for c in range(6)]
            return [(vals, tols)]
        k = self.order
        for s0 in sorted(acceptable_windows(E_N, k, i)):
            ls = basis(xs, s0, k, x)
            vals = [sum(l * tab[j][c] for j, l in zip(range(s0, s0 + k), ls)) for c in range(6)]
            tols = [8 * k * U * sum(abs(l * tab[j][c]) for j, l in zip(range(s0, s0 + k), ls)) for c in range(6)]
            out.append((vals, tols))
        return out


def _e_apply(op, eph, M, last, checks, t, case):
    """Apply one operation to the real object and to the model.  Returns (new last returned point, list of results to
    check [(kind, date, node index or None, returned object)])."""
    import numpy as np
    from beyond.dates import timedelta

    res = []
    if op in ("in0", "inM", "inT"):
        j = 0 if op == "in0" else E_MIDNODE
        q = _date(M.ts[j], "TT" if op == "inT" else None)  # inT: the node instant expressed in TT
        r = eph.interpolate(q)
        res.append(("node" if q._mjd == M.dates[j]._mjd else "mid", q, j, r))
        last, M.used = r, True
    elif op in ("im", "ie", "pr", "imG"):
        d = _date(E_QUERY["im"], "GPS") if op == "imG" else _date(E_QUERY[op])
        r = eph.propagate(d) if op == "pr" else eph.interpolate(d)
        res.append(("mid", d, None, r))
        last, M.used = r, True
    elif op == "it":
        a, b = M.dates[2], M.dates[6]
        got = list(eph.iter(start=a, stop=b, step=timedelta(seconds=40)))
        d, k = a, 0
        while d <= b:
            if k >= len(got):
                break
            j = [i for i, x in enumerate(M.dates) if x == d]
            res.append(("node" if j else "mid", d, j[0] if j else None, got[k]))
            d, k = d + timedelta(seconds=40), k + 1
        if k != len(got) or d <= b:
            res.append(("count", None, None, (k, len(got))))
        own = list(eph.iter(start=a, stop=b))
        for j, r in zip(range(2, 7), own):
            res.append(("node", M.dates[j], j, r))
        if len(own) != 5:
            res.append(("count", None, None, (5, len(own))))
        last, M.used = (got[-1] if got else last), True
    elif op == "mf":  # in-place form change of a RETURNED point (normal API)
        last.form = "keplerian" if last.form.name == "cartesian" else "cartesian"
    elif op == "mr":
        last.frame = "TOD" if last.frame.name == "EME2000" else "EME2000"
    elif op == "mw":
        last[0] = last[0] + 1000.0
        last[4] = -last[4]
    elif op in ("sl", "sg"):
        eph.method = M.method = "linear" if op == "sl" else "lagrange"
    elif op in ("o4", "o7"):
        eph.order = M.order = 4 if op == "o4" else 7
    elif op == "ef":
        new = "keplerian" if M.form == "cartesian" else "cartesian"
        eph.form = new
        for p_ in M.points:
            p_.form = new
        M.form = new
        M.poisoned = M.poisoned or M.used
    elif op == "er":
        new = "TOD" if M.frame == "EME2000" else "EME2000"
        eph.frame = new
        for p_ in M.points:
            p_.frame = new
        M.frame = new
        M.poisoned = M.poisoned or M.used
    else:
        raise ValueError(op)
    return last, res


def e_valid(hist):
    """A mutation of 'the last returned point' needs a returned point."""
    have = False
    for op in hist:
        if op in ("mf", "mr", "mw") and not have:
            return False
        if op in ("in0", "inM", "inT", "im", "imG", "ie", "pr", "it"):
            have = True
    return True


def _e_class(hist):
    """Class of the most recent state-changing operation before the last one (for the signature)."""
    for op in reversed(hist[:-1] if hist[-1] in ("in0", "inM", "inT", "im", "imG", "ie", "pr", "it") else hist):
        if op in ("mf", "mr", "mw"):
            return "after-returned-point-mutation"
        if op in ("sl", "sg"):
            return "after-method-change"
        if op in ("o4", "o7"):
            return "after-order-change"
        if op in ("ef", "er"):
            return "after-ephem-form-or-frame-change"
    return "plain"


def check_E(hist, t):
    """Replay `hist` on a fresh Ephem; check everything after the LAST operation.  Returns True if no violation."""
    import numpy as np

    case = dict(part="E", hist=list(hist))
    M = EphemModel()
    eph = M.fresh_ephem()
    last, res = None, []
    for i, op in enumerate(hist):
        try:
            last, res = _e_apply(op, eph, M, last, i == len(hist) - 1, t, case)
            t.trans()
        except Exception as e:
            if isinstance(e, (AssertionError,)) or i < len(hist) - 1:
                raise
            t.fail("ephem/history/raises/" + _e_class(hist), "every operation of the public API succeeds on a valid ephemeris", case,
                   "value", repr(e), f"operation {op} after {hist[:-1]}")
            return False
    t.states_add(1)
    ok = True
    cls = _e_class(hist)
    stale = M.poisoned
    # -- results of the last operation ----------------------------------------------------------------------
    for kind, d, j, r in res:
        if kind == "count":
            t.fail("ephem/history/iter-count", "iteration over a sub-range yields the requested dates", case, r[0], r[1])
            ok = False
            continue
        # a returned point is never a stored point
        if any(r is eph[i] for i in range(E_N)) or any(np.shares_memory(np.asarray(r), np.asarray(eph[i])) for i in range(E_N)):
            t.fail("ephem/history/returned-point-is-stored-point", "a returned point is a point of its own, never the ephemeris' stored point",
                   case, "a new object", f"identical to / sharing memory with a stored point ({kind} query)", f"history {hist}")
            ok = False
        tags = [r.form.name, r.frame.name, bool(r.date == d)]
        if tags != [M.form, M.frame, True]:
            t.fail(f"ephem/history/tags/{cls}", "an interpolated point keeps the ephemeris' (current) frame and form", case,
                   [M.form, M.frame, True], tags, f"history {hist}")
            ok = False
            continue
        got = np.array(r, dtype=float)
        if kind == "node":
            want = M.table()[j]
            if not np.array_equal(got, want):
                sig = "ephem/history/value/ephem-form-or-frame-set-after-first-use" if stale else f"ephem/history/node-value/{cls}"
                t.fail(sig, "interpolating at one of its own dates returns that point exactly (in the ephemeris' current form/frame)", case,
                       want.tolist(), got.tolist(), f"node {j}, history {hist}, max diff {np.max(np.abs(got - want)):.3e}")
                ok = False
        else:
            best = None
            for vals, tols in M.expected(d):
                ratio = max((abs(Fr(got[c]) - vals[c]) / tols[c]) if tols[c] else (0 if Fr(got[c]) == vals[c] else 10 ** 9) for c in range(6))
                best = ratio if best is None or ratio < best else best
            if stale and best > 1:
                t.fail("ephem/history/value/ephem-form-or-frame-set-after-first-use", "an interpolated point is the interpolant of the table "
                       "in the ephemeris' current form and frame", case, [float(v) for v in M.expected(d)[0][0]], got.tolist(),
                       f"history {hist}: error/tolerance = {float(best):.3e}")
                ok = False
            elif not t.margin("E history: |result - exact interpolant (current settings)| / (8k u S)", float(best), 1.0, case):
                t.fail(f"ephem/history/value/{cls}", "an interpolated point is the Lagrange (order k) / linear interpolant of the table for the "
                       "ephemeris' current method, order, form and frame", case, [float(v) for v in M.expected(d)[0][0]], got.tolist(),
                       f"history {hist}: method={M.method} order={M.order} form={M.form}: error/tolerance = {float(best):.3e}")
                ok = False
    # -- invariants of the object ------------------------------------------------------------------------------
    tab = M.table()
    for j in range(E_N):
        sj = eph[j]
        if (sj.form.name, sj.frame.name) != (M.form, M.frame) or not np.array_equal(np.array(sj, dtype=float), tab[j]):
            t.fail(f"ephem/history/table-changed/{cls}", "the stored table never changes through a returned point (only through the "
                   "ephemeris' own form/frame setters)", case, [M.form, M.frame, tab[j].tolist()],
                   [sj.form.name, sj.frame.name, np.array(sj, dtype=float).tolist()], f"stored point {j} after {hist}")
            ok = False
            break
    rb = [eph.method, eph.order, eph.form.name, eph.frame.name, len(eph)]
    if rb != [M.method, M.order, M.form, M.frame, E_N]:
        t.fail("ephem/history/setting-readback", "method / order / form / frame read back what was set", case,
               [M.method, M.order, M.form, M.frame, E_N], rb, f"history {hist}")
        ok = False
    t.ev(("E", tuple(hist)) if len(hist) > 1 else None)
    t.outcome(("E", hist[-1], M.method, M.order, M.form, M.frame, bool(res)))
    return ok


def run_E(prefix, depth, t):
    def rec(hist):
        if not e_valid(hist):
            return
        if not check_E(hist, t):
            return  # violated (or form/frame set after first use): do not explore extensions of a broken state
        if len(hist) == depth and len(t.samples) < 2:
            t.sample(dict(part="E", hist=list(hist)))
        if len(hist) < depth:
            for op in E_OPS:
                rec(hist + [op])

    rec(list(prefix))


# ---------------------------------------------------------------------------
# engine interface


def units(tier, seed):
    cfg = {"eop": "pass"}
    u = []
    for k in range(2, 13):
        for method in ("lagrange", "linear"):
            u.append((cfg, dict(part="A", k=k, method=method, tier=tier)))
            u.append((cfg, dict(part="B", k=k, method=method, tier=tier)))
            u.append((cfg, dict(part="D", k=k, method=method, tier=tier)))
        u.append((cfg, dict(part="C", k=k, tier=tier)))
    # part E: histories on one Ephem object; every prefix of length 1 (quick) / 2 (thorough) is a unit, the prefixes
    # themselves are checked by the unit of their first element
    depth = 3 if tier == "quick" else 4
    for a in E_OPS:
        if tier == "quick":
            u.append((cfg, dict(part="E", prefix=[a], depth=depth, tier=tier)))
        else:
            u.append((cfg, dict(part="E", prefix=[a], depth=1, tier=tier)))
            for b in E_OPS:
                u.append((cfg, dict(part="E", prefix=[a, b], depth=depth, tier=tier)))
    if seed:
        r = seed % len(u)
        u = u[r:] + u[:r]
    return u


def setup(config):
    from beyond.config import config as bc

    bc.update({"eop": {"missing_policy": "pass"}})
    _series_selfcheck()


def run_unit(p, t):
    if p["part"] == "E":
        if len(p["prefix"]) == 2 and (not e_valid(p["prefix"][:1]) or not _e_prefix_ok(p["prefix"][:1])):
            return
        run_E(p["prefix"], p["depth"], t)
        return
    tier, k = p["tier"], p["k"]
    if p["part"] == "A":
        for n in lengths(k, tier):
            for s in samplings(tier):
                check_A(k, n, s, p["method"], t)
        t.sample(dict(part="A", k=k, method=p["method"], n=lengths(k, tier), samplings=samplings(tier)))
    elif p["part"] == "B":
        for n in lengths(k, tier):
            for s in samplings(tier):
                check_B(k, n, s, p["method"], t)
    elif p["part"] == "C":
        arcs = ["circular", "iss-like"] + (["e0.01"] if tier != "quick" else [])
        for arc in arcs:
            for h in (60, 10):
                for n in lengths(k, tier):
                    for s in ("uniform", "cyclic4"):
                        check_C(k, n, s, h, arc, t)
    elif p["part"] == "D":
        for n in (k, 30):
            check_D(k, n, p["method"], t)


def _e_prefix_ok(hist):
    """Silent evaluation of a prefix (thorough tier: units start at depth 2; a broken prefix is not extended)."""
    from mc import engine

    return check_E(hist, engine.Tally())


def replay(case, t):
    part = case["part"]
    if part == "E":
        check_E(case["hist"], t)
        return
    if part == "A":
        check_A(case["k"], case["n"], case["sampling"], case["method"], t, only=case["q"])
    elif part == "B":
        check_B(case["k"], case["n"], case["sampling"], case["method"], t, only=case["q"])
    elif part == "C":
        check_C(case["k"], case["n"], case["sampling"], case["h"], case["arc"], t, only=case["q"])
    elif part == "D":
        check_D(case["k"], case["n"], case["method"], t, only=case["q"])
