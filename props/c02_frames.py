"""C02 — frame conversions are consistent rigid motions with correct kinematics.

Exhaustive product (E2) over frames x frames x frames x dates x states x EOP
configurations on the real `StateVector.copy(frame=)` / `sv.frame = ` /
`Frame.transform` / `Orientation.convert_to`, against

* algebra: A->B->A = id, A->B->C = A->C (every ordered triple of 17 frames);
* rigid-motion structure of the 6x6 orientation matrices (every ordered pair);
* the time derivative of the converted position of ONE physical trajectory
  (5-point finite difference; Kepler arc from mc/ref/twobody.py);
* the reference Earth-rotation model mc/ref/earthrot.py (ERA-2000, GMST/GAST-82,
  IAU-76 precession, IAU-80 nutation, polar motion, frame bias) fed by its own
  fixed-column reader of the IERS files.
"""

import datetime
import logging
import math
import os

import numpy as np

PROPERTY = "C02"
CLAIM = dict(
    text="Every ordered triple of 17 frames (10 built-in, 2 stations in opposite quadrants, an orbit-attached frame in each of "
    "its three orientations, analytical Moon and Sun frames) is converted on the real code for every date of a 5/12-date "
    "alphabet (both sides of the MJD 50506 equinox switch, +-30 s around UTC midnight, first/last rows of the IERS tables, "
    "rows with blank LOD/dX) x 3-4 states x 4 EOP configurations; identities and path independence are checked at round-off "
    "level, every built-in pair's 6x6 matrix is checked for orthonormality, det +1, block structure and the Earth-rotation "
    "rate vector (magnitude from LOD to 1e-18 rad/s), velocities are checked against the 5-point derivative of the converted "
    "positions of one trajectory, and every edge of the IAU-1980 chain plus the ERA edge is compared with an independent "
    "model at 1e-12 rad (3.6e-9 rad where the library's Julian-date double limits it); the two IAU chains must agree to 0.1 arcsec.",
    note="Trusts the reference model (self-tested against Vallado's worked examples and by two formulations each), the "
    "IERS files as data (UTC-day record, no interpolation: the database's documented selection rule), the IAU-1980 coefficient "
    "table as data (anchored by Vallado ex. 3-15 in the self-test), and world snapshot/restore. CIRF->GCRF (X, Y, s series) is "
    "only covered through the 0.1 arcsec cross-agreement with the 1980 chain.",
    technique="exhaustive product over finite frame/date/state/configuration alphabets on the real code vs. independent reference model",
)
RULE = (
    "cases = (EOP configuration, date, state, ordered frame triple A,B,C with A!=B, B!=C) for identities/path independence, "
    "each unit ending with a repeat pass (every first/second leg re-executed: bit-identical; reference objects of the frames "
    "unchanged); (configuration, date, frame kind, reset?, request order) histories that bind one frame name to definitions "
    "0,1,0 in turn, oracle = freshly named twin frame; "
    "(configuration, date, ordered built-in pair) for matrix structure; (configuration, date, state, frame) for the "
    "finite-difference kinematics; (configuration, date, edge) for the Earth-rotation reference. Every case performs real "
    "conversions between distinct frames, hence is non-trivial; cases are distinct by construction (distinct tuples)"
)
BOUNDS = {
    "quick": "24 frames (10 built-in, 2 stations on ITRF + stations on PEF, TIRF and TOD + 1 equatorial station, Kepler-orbit frames None/QSW/TNW (references keplerian-EME2000 / keplerian-TEME / cartesian-MOD), plain-StateVector frames "
    "None/QSW/TNW (references cartesian-MOD / cartesian-TEME / keplerian-G50), Moon, Sun); LEO state: all 24x23x23 triples + repeat pass; GEO and ground point: all ordered pairs (round trip and "
    "as tail of a triple) + finite differences; 5 dates (real EOP) / 2 (zero) / 1+1 (missing: pass, warning); reference edges and "
    "matrix structure on 16 / 5 / 3 / 3 dates (incl. |sin Omega| ~ 1 before, inside and after 1992-02-27..1997-02-27); re-binding "
    "histories: 8 frame kinds x reset/no reset x 2 request orders x 3 bindings on 1 date (real) + 1 (zero); error policy: Date must raise",
    "thorough": "24 frames, all triples + repeat pass for 4 states (LEO, GEO, ground point, HEO perigee) x 16 dates x 4 configurations; "
    "histories on 4 + 2 + 1 + 1 dates",
}
ASSUMPTIONS = [
    "EOP selection rule = record of the UTC day of the instant (library's SimpleEopDatabase: 'without interpolation'); "
    "dates are given in UTC, at least 10 s away from midnight, never on a leap-second day",
    "Julian-date quantisation of the library (40 us) bounds the sidereal-angle comparison at omega x 50 us = 3.6e-9 rad",
    "blank LOD in IERS prediction rows: only |LOD| <= 5 ms is required of the rate (the fill rule is a data policy)",
    "frames of date (MOD, TOD, TEME, ...) are treated as non-rotating by the velocity map, as in every textbook reduction: the "
    "precession+nutation rate (0.8-2.5e-11 rad/s computed per date from the reference model, 0.1-0.7 mm/s) is allowed for in the finite-difference tolerance; the property "
    "names the Earth-rotation coupling only",
    "frames attached to a plain (non-propagating) StateVector are defined at that state's date only: they take part in all "
    "algebraic checks but not in the finite-difference check (counted as excluded)",
    "kinematic clause: frames of the property's quantifier (built-in, stations, orbit-attached); Moon/Sun frames excluded "
    "from the finite-difference check (their velocity is documented as a crude 1-day numerical difference) and counted",
]
NOT_COVERED = (
    "individual IAU-2000 X,Y,s coefficients and IAU-1980 nutation coefficients (table is data; only Vallado's example and the "
    "0.1 arcsec cross-agreement constrain them); sign of the LOD term below 1e-18 rad/s is covered, but LOD-induced effects on "
    "positions are not; G50 constant matrix only as a rigid rotation; dates within 10 s of UTC midnight or on leap-second days; "
    "EOP interpolation inside a day (the library documents none)"
)

POLE = "/repo/tests/data/pole"  # IERS tables are data; always the repository's test data
BUILTIN = ["EME2000", "MOD", "TOD", "TEME", "PEF", "ITRF", "TIRF", "CIRF", "GCRF", "G50"]
EXTRA = ["S1", "S2", "SP", "ST", "SD", "SE", "O0", "OQ", "OT", "V0", "VQ", "VT", "Moon", "Sun"]
FRAMES = BUILTIN + EXTRA
CLUSTER = dict(EME2000="80", MOD="80", TOD="80", TEME="80", G50="80", PEF="F", ITRF="F", TIRF="F", CIRF="10", GCRF="10")
ROTATING = {"PEF", "ITRF", "TIRF", "S1", "S2", "SP", "ST"}
KLASS = dict(S1="station", S2="station", SP="station", ST="station", SD="station-inertial", SE="station-eq", O0="orbit-inertial", OQ="orbit-lof", OT="orbit-lof",
             V0="sv-inertial", VQ="sv-lof", VT="sv-lof", Moon="body", Sun="body")
STATIONS = dict(S1=(43.604482, 1.443962, 172.0), S2=(-33.45, -70.66, 520.0))
# stations whose coordinates are given in another parent frame than the default ITRF (with real polar motion the
# routes station->ITRF and station->parent->ITRF must still agree); SD is fixed in TOD, i.e. does not turn with the Earth
PARENT_STATIONS = dict(SP=("PEF", (28.5, -80.6, 10.0)), ST=("TIRF", (-25.9, 27.7, 1400.0)), SD=("TOD", (5.2, -52.8, 100.0)))
LOF_KEP = [7000e3, 0.001, 0.9, 0.3, 0.2, 0.1]  # O0/OQ/OT: attached to a propagating (Kepler) Orbit
SV_KEP = [6900e3, 0.002, 1.2, 1.0, 0.4, 2.0]  # V0/VQ/VT: attached to a plain, non-propagating StateVector
SE_SITE = (18.9, -155.6, 30.0)  # SE: "equatorial" station (EME2000 axes, centre on the ground)

# (year, month, day, hour, minute, second, microsecond) UTC
DATES = [
    (1973, 3, 1, 12, 0, 0, 0),  # 0 first weeks of the tables
    (1980, 2, 10, 0, 0, 30, 0),  # 1 just after midnight
    (1988, 7, 15, 23, 59, 30, 0),  # 2 just before midnight
    (1996, 12, 1, 6, 0, 0, 0),  # 3 before the equinox switch
    (1997, 2, 26, 23, 59, 30, 0),  # 4 MJD 50505: last day without the kinematic terms, end of day
    (1997, 2, 27, 0, 0, 30, 0),  # 5 MJD 50506: first day with them, start of day
    (2000, 1, 1, 12, 0, 0, 0),  # 6 J2000
    (2004, 4, 6, 7, 51, 28, 386009),  # 7 Vallado's example instant
    (2010, 3, 1, 18, 30, 0, 0),  # 8
    (2015, 7, 15, 23, 59, 30, 0),  # 9
    (2016, 2, 9, 0, 0, 30, 0),  # 10 MJD 57427, among the last rows with LOD
    (2016, 6, 15, 12, 0, 0, 0),  # 11 MJD 57554: LOD, dPsi/dEps, dX/dY blank (prediction rows)
    # The 0.00264" sin(Om) kinematic term of the equation of the equinoxes vanishes around its own switch date
    # (Om = 180 deg on 1997-02-27), so dates 4/5 cannot see a wrong switch epoch: the next four have |sin Om| ~ 1.
    (1992, 7, 1, 9, 15, 0, 0),  # 12 Om = 270 deg: no kinematic term yet (window 1992-02-27 .. 1997-02-27 of a wrong epoch)
    (1994, 6, 15, 6, 0, 0, 0),  # 13 Om = 232 deg: no kinematic term yet
    (1983, 3, 1, 3, 0, 0, 0),  # 14 Om = 91 deg: no kinematic term
    (2001, 10, 15, 21, 0, 0, 0),  # 15 Om = 91 deg: kinematic term present at full size (+2.64 mas)
]
QUICK_DATES = {"real": [0, 4, 5, 7, 11], "zero": [2, 8], "pass": [7], "warning": [5]}
QUICK_LIGHT = {"real": list(range(16)), "zero": [2, 8, 12, 13, 15], "pass": [12, 15], "warning": [13, 14]}  # edges + matrices only
QUICK_HISTORY = {"real": [7], "zero": [12], "pass": [], "warning": []}
THOROUGH_HISTORY = {"real": [0, 5, 7, 11], "zero": [8, 12], "pass": [7], "warning": [5]}
# The property's kinematic clause quantifies over orbit-attached frames as well.  With QSW/TNW orientation the library
# converts velocities with a frozen triad (no -w x r term for the rotation of the local orbital frame), which the
# finite-difference check reports as `kinematics/orbit-lof`.  Set to False only if the property is re-read as
# "orbit-attached frames have instantaneously frozen axes"; the cases are then counted as excluded.
LOF_KINEMATICS_IN_SCOPE = True
MU_S = 50e-6  # time resolution of the Earth-rotation code (DESIGN.md §3, property texts: "50 us")

_G = {}


# ---------------------------------------------------------------------------
# configuration


class _Counter(logging.Handler):
    def __init__(self):
        super().__init__()
        self.n = 0

    def emit(self, record):
        self.n += 1


def setup(config):
    from beyond.config import config as bc
    from beyond.dates.eop import EopDb, Eop
    from mc.ref import earthrot as er

    kind = (config or {}).get("eop", "real")
    _G.clear()
    _G["kind"] = kind
    lg = logging.getLogger("beyond")
    lg.handlers[:] = []
    lg.propagate = False
    _G["warnings"] = _Counter()
    lg.addHandler(_G["warnings"])
    _G["leap"] = er.LeapSeconds(os.path.join(POLE, "tai-utc.dat"))
    if kind == "real":
        bc.update({"eop": {"missing_policy": "error", "folder": POLE, "type": "all"}})
        _G["table"] = er.IersTable(POLE)
    elif kind == "zero":
        leap = _G["leap"]

        class ZeroEop:
            """An EOP database that knows the leap seconds only."""

            def __getitem__(self, mjd):
                return Eop(x=0, y=0, dx=0, dy=0, deps=0, dpsi=0, lod=0, ut1_utc=0, tai_utc=leap.tai_utc(mjd))

        EopDb.register(ZeroEop, "verif-zero")
        bc.update({"eop": {"missing_policy": "error", "dbname": "verif-zero"}})
    elif kind in ("pass", "warning", "error"):
        bc.update({"eop": {"missing_policy": kind, "folder": "/nonexistent-eop-folder", "type": "all"}})
    else:
        raise ValueError(kind)


def _nut_table():
    if "nut" not in _G:
        from mc import engine
        from mc.ref import earthrot as er

        _G["nut"] = er.read_nutation_1980(os.path.join(engine.repo_path(), "beyond", "frames", "data", "tab5.1.txt"))
    return _G["nut"]


def ref_eop(kind, mjd):
    """The EOP record (data) the configuration provides for UTC day mjd."""
    from mc.ref import earthrot as er

    if kind == "real":
        r = _G["table"].get(mjd)
        return er.Eop(tai_utc=_G["leap"].tai_utc(mjd), **r)
    if kind == "zero":
        return er.Eop(tai_utc=_G["leap"].tai_utc(mjd))
    return er.Eop()  # missing: every value zero, TAI-UTC included


# ---------------------------------------------------------------------------
# world of one date


class LibraryRaised(Exception):
    pass


def mk_date(dt):
    from beyond.dates import Date

    return Date(*[int(v) for v in dt])


def get_ctx(dt):
    """Registries rebuilt from the pristine snapshot: stations, orbit-attached frames (epoch = date), Moon, Sun."""
    dt = tuple(int(v) for v in dt)
    cur = _G.get("ctx")
    if cur is not None and cur["dt"] == dt:
        return cur
    from mc import world
    from mc.ref import earthrot as er, geodesy as gd, twobody as tb
    from beyond.constants import Earth
    from beyond.orbits import Orbit
    from beyond.frames import create_station
    from beyond.frames.frames import orbit2frame, get_frame
    from beyond.env import solarsystem

    if "snap" not in _G:
        _G["snap"] = world.snapshot()
    world.restore(_G["snap"])
    date = mk_date(dt)
    for name, lla in STATIONS.items():
        create_station(name, lla)
    for name, (parent, lla) in PARENT_STATIONS.items():
        create_station(name, lla, parent_frame=get_frame(parent))
    from beyond.orbits import StateVector

    # references deliberately NOT all "cartesian in the parent frame (EME2000)": one object per frame, given in other
    # frames and forms, so that code working on the reference instead of a copy of it shows
    refs = {}
    for name, orientation, frame, form in (("O0", None, "EME2000", "keplerian"), ("OQ", "QSW", "TEME", "keplerian"), ("OT", "TNW", "MOD", "cartesian")):
        orb = Orbit(LOF_KEP, date, "keplerian", frame, "Kepler")
        if form != "keplerian":
            orb.form = form
        refs[name] = orb
        orbit2frame(name, orb, orientation)

    sv_rv = tb.kep_to_cart(*SV_KEP, Earth.mu)
    for name, orientation, frame, form in (("V0", None, "MOD", "cartesian"), ("VQ", "QSW", "TEME", "cartesian"), ("VT", "TNW", "G50", "keplerian")):
        ref = StateVector(np.array(sv_rv, dtype=float), date, "cartesian", frame)  # plain state, no propagator
        if form != "cartesian":
            ref.form = form
        refs[name] = ref
        orbit2frame(name, ref, orientation)
    create_station("SE", SE_SITE, equatorial=True)
    solarsystem.get_frame("Moon")
    solarsystem.get_frame("Sun")
    mu = Earth.mu
    mjd = (datetime.date(dt[0], dt[1], dt[2]) - datetime.date(1858, 11, 17)).days  # UTC day number, from the calendar
    sod = dt[3] * 3600 + dt[4] * 60 + dt[5] + dt[6] * 1e-6
    lat, lon, alt = STATIONS["S1"]
    ground = gd.geodetic_to_ecef(math.radians(lat), math.radians(lon), alt + 10e3, Earth.equatorial_radius, Earth.flattening)
    states = [
        dict(name="LEO", base="EME2000", rv0=tb.kep_to_cart(7200e3, 0.01, 1.1, 2.0, 0.5, 0.3, mu), n=math.sqrt(mu / 7200e3**3), kepler=True, fd=True),
        dict(name="GEO", base="EME2000", rv0=tb.kep_to_cart(42164e3, 0.0003, 0.05, 1.0, 2.0, 4.0, mu), n=math.sqrt(mu / 42164e3**3), kepler=True, fd=True),
        dict(name="ground+10km", base="ITRF", rv0=np.concatenate([ground, np.zeros(3)]), n=0.0, kepler=False, fd=True),
        dict(name="HEO-perigee", base="EME2000", rv0=tb.kep_to_cart(26554e3, 0.72, 1.107, 4.0, 4.7, 0.2, mu), n=0.0, kepler=True, fd=False),
    ]
    cur = dict(
        dt=dt,
        date=date,
        mjd=mjd,
        sod=sod,
        states=states,
        frames={f: get_frame(f) for f in FRAMES},
        n_lof=math.sqrt(mu / LOF_KEP[0] ** 3),
        R_origin=dict(S1=6.4e6, S2=6.4e6, SP=6.4e6, ST=6.4e6, SD=6.4e6, SE=6.4e6, O0=LOF_KEP[0] * 1.002, OQ=LOF_KEP[0] * 1.002, OT=LOF_KEP[0] * 1.002),
        mu=mu,
        memo={},
    )
    for f in ("S1", "S2", "SP", "ST", "SD", "SE"):
        refs[f] = cur["frames"][f].center.offset  # the station coordinates handed to the centre
    cur["refs"] = {k: (obj, ref_state(obj)) for k, obj in refs.items()}
    kind = _G["kind"]
    cur["ref"] = er.EarthRotation(mjd, sod, ref_eop(kind, mjd), _nut_table())
    # rate of the axes "of date" at this instant (neglected by the velocity map, see fd_plan); 1e-3 for its own differencing
    cur["slow_rate"] = 1.001 * sum(er.slow_rates(cur["ref"].T_tt, _nut_table()))  # |precession| + |nutation| + |d EqE/dt|
    _G["ctx"] = cur
    return cur


def state_at(ctx, si, dt_s):
    """Reference trajectory of state si at date + dt_s (cartesian, in its base frame)."""
    from mc.ref import twobody as tb

    s = ctx["states"][si]
    if s["kepler"] and dt_s != 0.0:
        return np.array(tb.propagate_uv(s["rv0"], dt_s, ctx["mu"]), dtype=float)
    return np.array(s["rv0"], dtype=float)


def make_sv(ctx, si, dt_s=0.0):
    from beyond.orbits import StateVector
    from beyond.dates import timedelta

    date = ctx["date"] if dt_s == 0.0 else ctx["date"] + timedelta(seconds=dt_s)
    return StateVector(state_at(ctx, si, dt_s), date, "cartesian", ctx["states"][si]["base"])


def convert(sv, frame_name, inplace=False):
    """One real conversion; library exceptions are reported as such."""
    try:
        if inplace:
            out = sv.copy()
            out.frame = frame_name
            return out
        return sv.copy(frame=frame_name)
    except Exception as e:  # the property requires a value
        raise LibraryRaised(f"{type(e).__name__}: {e}") from e


def arr(sv):
    return np.array(sv, dtype=float)


def klass(f):
    return KLASS.get(f) or ("rotating" if f in ROTATING else "inertial")


def side(f):
    return "R" if f in ROTATING else "I"


EPS = 2.220446049250313e-16


def tol_pv(vectors):
    """Round-off tolerance of a chain of affine maps through the given intermediate state vectors:
    100 eps x (largest position) for positions, 100 eps x (largest speed + omega x largest position) for velocities;
    floors 1e-6 m and 1e-9 m/s (DESIGN.md)."""
    L = max(float(np.linalg.norm(v[:3])) for v in vectors)
    V = max(float(np.linalg.norm(v[3:])) for v in vectors)
    return max(1e-6, 100 * EPS * L), max(1e-9, 100 * EPS * (V + 7.3e-5 * L))


# ---------------------------------------------------------------------------
# (a)+(b) identities and path independence


def first_leg(ctx, si, A):
    key = ("A", si, A)
    if key not in ctx["memo"]:
        sv = make_sv(ctx, si)
        ctx["memo"][key] = sv if A == ctx["states"][si]["base"] else convert(sv, A)
    return ctx["memo"][key]


def second_leg(ctx, si, A, B):
    key = ("AB", si, A, B)
    if key not in ctx["memo"]:
        ctx["memo"][key] = convert(first_leg(ctx, si, A), B)
    return ctx["memo"][key]


def check_triple(ctx, cfg, si, A, B, C, t):
    """A->B->C against A->C (C != A) or against the original (C == A)."""
    case = dict(kind="triple", config=cfg, date=list(ctx["dt"]), state=si, A=A, B=B, C=C)
    sides = side(A) + side(B) + side(C)
    try:
        xA = first_leg(ctx, si, A)
        xAB = second_leg(ctx, si, A, B)
        xABC = convert(xAB, C, inplace=True)
        ref = xA if C == A else second_leg(ctx, si, A, C)
    except LibraryRaised as e:
        t.fail(f"convert-raises/{klass(A)}-{klass(B)}-{klass(C)}", "every pair of frames is convertible", case, "a state", str(e))
        return
    if xABC.frame.name != C or xAB.frame.name != B:
        t.fail("frame-tag", "converted state carries the target frame", case, [B, C], [xAB.frame.name, xABC.frame.name])
    a, b, m, r = arr(xA), arr(xAB), arr(xABC), arr(ref)
    tp, tv = tol_pv([a, b, m])
    dp = float(np.linalg.norm(m[:3] - r[:3]))
    dv = float(np.linalg.norm(m[3:] - r[3:]))
    what = "roundtrip" if C == A else "path-independence"
    okp = t.margin(f"{what} position [m / tol]", dp, tp, case)
    okv = t.margin(f"{what} velocity [m/s / tol]", dv, tv, case)
    if not okp or not (dp == dp):
        t.fail(f"{what}/pos/{sides}", "A->B->A is the identity" if C == A else "A->B->C equals A->C", case, r.tolist(), m.tolist(),
               f"{A}->{B}->{C}: position differs by {dp:.3e} m (tol {tp:.1e})")
    elif not okv or not (dv == dv):
        t.fail(f"{what}/vel/{sides}", "A->B->A is the identity" if C == A else "A->B->C equals A->C", case, r.tolist(), m.tolist(),
               f"{A}->{B}->{C}: velocity differs by {dv:.3e} m/s (tol {tv:.1e})")
    t.outcome((what, sides, bool(okp and okv)))


def check_repeat(ctx, cfg, si, t, frames=FRAMES, a_list=None):
    """Every first and second leg executed during the triples is executed once more: bit-identical results are required
    (the conversions are pure functions of state, date and frame definitions), and the objects the orbit-attached frames
    and stations were created from must still hold their original numbers."""
    case = dict(kind="repeat", config=cfg, date=list(ctx["dt"]), state=si, a_list=list(a_list or frames))
    memo = ctx["memo"]
    base = ctx["states"][si]["base"]
    bad1 = bad2 = None
    n = 0
    try:
        for A in a_list or frames:
            sv = make_sv(ctx, si)
            xa = sv if A == base else convert(sv, A)
            old = memo.get(("A", si, A))
            if old is not None and not np.array_equal(arr(old), arr(xa)) and bad1 is None:
                bad1 = (A, arr(old), arr(xa))
            for B in frames:
                old = memo.get(("AB", si, A, B))
                if B == A or old is None:
                    continue
                xb = convert(xa, B)
                n += 1
                if not np.array_equal(arr(old), arr(xb)) and bad2 is None:
                    bad2 = (A, B, arr(old), arr(xb))
    except LibraryRaised as e:
        t.fail("repeatability/raises", "a conversion that succeeded once succeeds again", case, "a state", str(e))
    if bad1:
        A, o, x = bad1
        t.fail("repeatability/first-leg", "the same conversion gives the same result when repeated", case, o.tolist(), x.tolist(),
               f"{base}->{A} changed by {float(np.linalg.norm(o[:3] - x[:3])):.3e} m after the unit's other conversions")
    if bad2:
        A, B, o, x = bad2
        t.fail("repeatability/second-leg", "the same conversion gives the same result when repeated", case, o.tolist(), x.tolist(),
               f"{A}->{B} changed by {float(np.linalg.norm(o[:3] - x[:3])):.3e} m after the unit's other conversions")
    check_refs(ctx, case, t)
    t.trans(n + len(frames))
    t.ev((cfg["eop"], ctx["dt"], "repeat", si))
    t.states_add(1)
    t.outcome(("repeat", bool(bad1 or bad2)))


def ref_state(obj):
    """Observable content of a reference object: its six numbers, and the frame and form they are expressed in."""
    fr = getattr(getattr(obj, "frame", None), "name", None)
    fo = getattr(getattr(obj, "form", None), "name", None)
    return [np.array(obj, dtype=float).tolist(), fr, fo]


def check_refs(ctx, case, t):
    for name, (obj, snap) in ctx["refs"].items():
        now = ref_state(obj)
        if now != snap:
            t.fail("reference-mutated", "conversions leave the state a frame was created from untouched", case, snap, now,
                   f"reference of {name}: {snap[1]}/{snap[2]} -> {now[1]}/{now[2]}, numbers changed by "
                   f"{float(np.max(np.abs(np.array(now[0]) - np.array(snap[0])))):.3e}")
            ctx["refs"][name] = (obj, now)  # report each corruption once


def run_triples(ctx, cfg, si, t, frames=FRAMES, a_list=None):
    """All ordered triples (A, B, C) with A in a_list (default: every frame), then the repeatability pass."""
    n = 0
    a_list = list(a_list or frames)
    for A in a_list:
        for B in frames:
            if B == A:
                continue
            for C in frames:
                if C == B:
                    continue
                check_triple(ctx, cfg, si, A, B, C, t)
                n += 1
            t.ev((cfg["eop"], ctx["dt"], si, A, B), n=len(frames) - 1)
    t.states_add(n)
    t.trans(n + len(a_list) * len(frames))
    check_repeat(ctx, cfg, si, t, frames, a_list)
    ctx["memo"].clear()


def run_pairs(ctx, cfg, si, t, frames=FRAMES):
    """Deviation-bounded variant (quick tier, secondary states): every ordered pair (A, B) as round trip A->B->A and
    as second and third frame of the triple (base, A, B)."""
    base = ctx["states"][si]["base"]
    n = 0
    for A in frames:
        for B in frames:
            if B == A:
                continue
            check_triple(ctx, cfg, si, A, B, A, t)
            n += 1
            if A != base:
                check_triple(ctx, cfg, si, base, A, B, t)
                n += 1
            t.ev((cfg["eop"], ctx["dt"], si, A, B), n=2)
    t.states_add(n)
    t.trans(n + len(frames) * len(frames))
    check_refs(ctx, dict(kind="pairs", config=cfg, date=list(ctx["dt"]), state=si), t)
    ctx["memo"].clear()


# ---------------------------------------------------------------------------
# (c) structure of the 6x6 matrices


def expected_rate_kind(A, B):
    ca, cb = CLUSTER[A], CLUSTER[B]
    if ca == cb:
        return "zero", 0
    if "F" in (ca, cb):
        return "single", (+1 if cb == "F" else -1)
    return "double", 0


def check_matrix(ctx, cfg, A, B, t):
    from mc.ref import earthrot as er

    case = dict(kind="matrix", config=cfg, date=list(ctx["dt"]), A=A, B=B)
    fa, fb = ctx["frames"][A], ctx["frames"][B]
    try:
        M = np.array(fa.orientation.convert_to(ctx["date"], fb.orientation), dtype=float)
    except Exception as e:
        t.fail(f"matrix-raises/{CLUSTER[A]}-{CLUSTER[B]}", "orientation matrix exists", case, "6x6 matrix", repr(e))
        return
    sig = f"{CLUSTER[A]}-{CLUSTER[B]}"
    if M.shape != (6, 6):
        t.fail("rotation/shape", "6x6 matrix", case, [6, 6], list(M.shape))
        return
    R, UR, L, LR = M[:3, :3], M[:3, 3:], M[3:, :3], M[3:, 3:]
    if not t.margin("rotation: max|R R^T - I| / 1e-14", er.orth_error(R), 1e-14, case):
        t.fail(f"rotation/orthonormal/{sig}", "position map is orthonormal", case, 0.0, er.orth_error(R), f"{A}->{B}")
    det = float(np.linalg.det(R))
    if not t.margin("rotation: |det R - 1| / 1e-14", abs(det - 1.0), 1e-14, case):
        t.fail(f"rotation/det/{sig}", "det = +1", case, 1.0, det, f"{A}->{B}")
    blk = max(float(np.max(np.abs(UR))), float(np.max(np.abs(LR - R))))
    if not t.margin("6x6 blocks: upper-right = 0, lower-right = R / 1e-15", blk, 1e-15, case):
        t.fail(f"rotation/blocks/{sig}", "velocity block equals the position block; positions do not depend on velocities", case, 0.0, blk, f"{A}->{B}")
    # lower-left block = -[w]x R
    S = -L @ R.T
    sym = float(np.max(np.abs(S + S.T)))
    if not t.margin("6x6 lower-left: symmetric part of -L R^T [rad/s] / 1e-18", sym, 1e-18, case):
        t.fail("rate/not-a-cross-product", "lower-left block is -[w]x R", case, 0.0, sym, f"{A}->{B}")
    w = er.vee(S)
    wn = float(np.linalg.norm(w))
    kind, sgn = expected_rate_kind(A, B)
    ref = ctx["ref"]
    if kind == "zero":
        if wn > 1e-18:  # exactly 0 on the unchanged tree (no rate-carrying edge on the path)
            t.fail("rate/spurious", "no rate between frames that do not rotate w.r.t. each other", case, 0.0, w.tolist(), f"{A}->{B}")
    elif kind == "double":
        # 1980 side <-> 2010 side passes through the Earth-fixed frames, where both chains share the pole up to the
        # third-order commutator of the polar-motion angles (x^2 y < 3e-17): the two Earth-rotation vectors cancel
        if not t.margin("rate residual 1980 side <-> 2010 side [rad/s] / 1e-18", wn, 1e-18, case):
            t.fail("rate/chains-disagree", "inertial frames of the two chains do not rotate w.r.t. each other", case, 0.0, w.tolist(), f"{A}->{B}")
    else:
        if ref.rate is not None:
            ok = t.margin("Earth rate |w| vs omega(1 - LOD/86400) [rad/s] / 1e-18", abs(wn - ref.rate), 1e-18, case)
            exp = ref.rate
        else:
            ok = t.margin("Earth rate |w| vs nominal, LOD blank [rad/s] / (omega x 5 ms/day)", abs(wn - er.OMEGA_EARTH), er.OMEGA_EARTH * 5e-3 / 86400, case)
            exp = er.OMEGA_EARTH
        if not ok:
            t.fail("rate/magnitude", "Earth-rotation coupling uses omega (1 - LOD/86400)", case, exp, wn, f"{A}->{B}")
        # direction: +z of the intermediate pole when going inertial -> Earth-fixed; checked where an end frame has that pole as z
        zaxis = {"TOD", "TEME", "PEF", "TIRF", "CIRF"}
        wz = None
        if B in zaxis:
            wz = w
        elif A in zaxis:
            wz = R.T @ w
        if wz is not None:
            dev = float(np.linalg.norm(wz - np.array([0.0, 0.0, sgn * wn])))
            if not t.margin("Earth rate direction: |w - (+-)|w| z| [rad/s] / 1e-18", dev, 1e-18, case):
                t.fail("rate/direction", "w is parallel to z, positive from inertial to Earth-fixed", case, [0, 0, sgn * wn], wz.tolist(), f"{A}->{B}")
    t.outcome(("matrix", sig, kind))
    # the matrix is what conversions of states apply (same-centre frames): x_B = M x_A, norms preserved
    for si in (0, 1):
        try:
            xA = first_leg(ctx, si, A)
            xB = arr(fa.transform(xA, fb))
        except LibraryRaised as e:
            t.fail(f"convert-raises/{klass(A)}-{klass(B)}", "every pair of frames is convertible", case, "a state", str(e))
            return
        except Exception as e:
            t.fail(f"transform-raises/{klass(A)}-{klass(B)}", "Frame.transform returns a state", case, "a state", repr(e))
            return
        a = arr(xA)
        tp, tv = tol_pv([a, xB])
        d = M @ a - xB
        # same arithmetic as the library's own M @ x (observed difference: exactly 0), so no margin is reported
        okp = float(np.linalg.norm(d[:3])) <= tp
        okv = float(np.linalg.norm(d[3:])) <= tv
        if not (okp and okv):
            t.fail(f"transform-vs-matrix/{sig}", "same-centre conversion is x -> M x", case, (M @ a).tolist(), xB.tolist(), f"{A}->{B} state {si}")
        nr = abs(float(np.linalg.norm(xB[:3])) - float(np.linalg.norm(a[:3])))
        if not t.margin("norm preserved [m / tol]", nr, tp, case):
            t.fail(f"rotation/norm/{sig}", "norms preserved between frames sharing a centre", case, float(np.linalg.norm(a[:3])), float(np.linalg.norm(xB[:3])), f"{A}->{B}")
        t.trans(1)
    t.trans(1)
    t.ev((cfg["eop"], ctx["dt"], "M", A, B))
    t.states_add(1)


# ---------------------------------------------------------------------------
# (d) velocity = d/dt of the converted position of one trajectory


def fd_plan(ctx, si, B):
    """Step and tolerance of the 5-point derivative in frame B for state si.

    truncation <= h^4/30 |f^(5)|, |f^(5)| <= L W^5 with L the sum of the geocentric radii involved and W the sum of the
    angular rates that compose (orbit, orbit of the frame's origin, Earth rotation); doubled for eccentricity harmonics.
    quantisation: positions that went through the Earth-rotation angle carry |omega x r| x 50 us of noise, which the
    stencil (sum |c_k| = 1.5 / h) turns into velocity noise.  round-off: 8 eps L x 1.5 / h.
    slow: frames "of date" (MOD, TOD, TEME and everything built on them) are treated by the library - as by every
    textbook reduction - as non-rotating: the precession (7.7e-12 rad/s) + nutation (< 4e-12 rad/s) rate is not part
    of the velocity map; the property names the Earth-rotation coupling only.  Allowance = (|precession rate| +
    |nutation rate| + |rate of the equation of the equinoxes|) at this date, from the reference model (0.8 .. 2.5e-11 rad/s), x r
    (triangle inequality over the edges MOD, TOD, TEME/PEF).
    The stencil stays inside one UTC day (EOP records are per-day constants: the position map jumps at midnight).
    """
    s = ctx["states"][si]
    # SE: inertial axes, but its origin is carried by the Earth's rotation
    crossing = ((s["base"] in ROTATING) != (B in ROTATING)) or B == "SE"
    r_state = max(float(np.linalg.norm(s["rv0"][:3])), ctx["R_origin"]["SE"] if B == "SE" else 0.0)
    L = float(np.linalg.norm(s["rv0"][:3])) + ctx["R_origin"].get(B, 0.0)
    W = s["n"] + (ctx["n_lof"] if B in ("O0", "OQ", "OT") else 0.0) + (7.2921e-5 if crossing else 0.0)
    best = None
    for h in (120.0, 30.0, 10.0):
        if not (2 * h < ctx["sod"] < 86400.0 - 2 * h):
            continue
        trunc = 2.0 * h**4 / 30.0 * L * W**5
        floor = (7.2921e-5 * r_state * MU_S * 1.5 / h) if crossing else 0.0
        ro = 8 * EPS * max(L, 1.0) * 1.5 / h
        slow = ctx["slow_rate"] * r_state
        tol = trunc + floor + ro + slow + 1e-9
        if best is None or tol < best[1]:
            best = (h, tol)
    return best


def check_fd(ctx, cfg, si, B, t):
    case = dict(kind="fd", config=cfg, date=list(ctx["dt"]), state=si, B=B)
    h, tol = fd_plan(ctx, si, B)
    ys = {}
    try:
        for k in (-2, -1, 0, 1, 2):
            sv = make_sv(ctx, si, k * h)
            ys[k] = arr(convert(sv, B)) if B != ctx["states"][si]["base"] else arr(sv)
    except LibraryRaised as e:
        t.fail(f"convert-raises/{klass(ctx['states'][si]['base'])}-{klass(B)}", "every pair of frames is convertible", case, "a state", str(e))
        return
    t.trans(5)
    fd = (ys[-2][:3] - 8 * ys[-1][:3] + 8 * ys[1][:3] - ys[2][:3]) / (12 * h)
    err = float(np.linalg.norm(fd - ys[0][3:]))
    base_side = side(ctx["states"][si]["base"])
    ok = t.margin(f"velocity vs 5-point d/dt of position, {klass(B)} frames [m/s / tol]", err, tol, case)
    if not ok or not (err == err):
        t.fail(f"kinematics/{klass(B)}", "converted velocity equals the time derivative of the converted position", case,
               fd.tolist(), ys[0][3:].tolist(), f"state {ctx['states'][si]['name']} in {B}: |v - dr/dt| = {err:.4e} m/s (h={h:g} s, tol {tol:.2e})")
    t.outcome(("fd", klass(B), base_side, bool(ok)))
    t.ev((cfg["eop"], ctx["dt"], "fd", si, B))
    t.states_add(1)


# ---------------------------------------------------------------------------
# (e) Earth rotation against the reference model

ANALYTIC_TOL = 1e-12  # rad: arguments up to 1e3 rad x 2e-16, amplitudes <= 0.5 rad, 3-4 matrix products
SIDEREAL_TOL = 7.292115e-5 * MU_S  # rad: 50 us of Earth rotation


def check_edges(ctx, cfg, t):
    from mc.ref import earthrot as er

    ref = ctx["ref"]
    date = ctx["date"]
    fr = ctx["frames"]

    def lib(a, b):
        return np.array(fr[a].orientation.convert_to(date, fr[b].orientation), dtype=float)[:3, :3]

    edges = [
        ("MOD", "EME2000", ref.MOD_to_EME2000(), ANALYTIC_TOL, "IAU-76 precession", "analytic edge vs reference [rad / 1e-12]"),
        ("TOD", "MOD", ref.TOD_to_MOD(), ANALYTIC_TOL, "IAU-80 nutation", "analytic edge vs reference [rad / 1e-12]"),
        ("ITRF", "PEF", ref.ITRF_to_PEF(), ANALYTIC_TOL, "polar motion (1980 chain)", "analytic edge vs reference [rad / 1e-12]"),
        ("ITRF", "TIRF", ref.ITRF_to_TIRF(), ANALYTIC_TOL, "polar motion (2010 chain)", "analytic edge vs reference [rad / 1e-12]"),
        ("PEF", "TOD", ref.PEF_to_TOD(), SIDEREAL_TOL, "GAST-82 (GMST-82 + equation of the equinoxes)", "sidereal edge vs reference [rad / (omega x 50 us)]"),
        ("TIRF", "CIRF", ref.TIRF_to_CIRF(), SIDEREAL_TOL, "Earth rotation angle", "sidereal edge vs reference [rad / (omega x 50 us)]"),
        ("PEF", "TEME", ref.PEF_to_TEME(), SIDEREAL_TOL + ref.trunc4, "GMST-82 (TEME)", "PEF->TEME vs R3(-GMST82) [rad / (truncation bound + omega x 50 us)]"),
        ("ITRF", "EME2000", ref.ITRF_to_EME2000(), SIDEREAL_TOL + 4 * ANALYTIC_TOL, "complete 1980 chain", "ITRF->EME2000 vs reference chain [rad / tol]"),
    ]
    for a, b, Rref, tol, what, mname in edges:
        case = dict(kind="edge", config=cfg, date=list(ctx["dt"]), A=a, B=b)
        try:
            R = lib(a, b)
        except Exception as e:
            t.fail(f"matrix-raises/{CLUSTER[a]}-{CLUSTER[b]}", "orientation matrix exists", case, "matrix", repr(e))
            continue
        ang = er.rot_diff(R, Rref)
        if not t.margin(mname, ang, tol, case) or not (ang == ang):
            t.fail(f"earth-rotation/{a}-{b}", f"{a}->{b} agrees with independently computed {what}", case, Rref.tolist(), R.tolist(),
                   f"rotation differs by {ang:.3e} rad = {ang / er.ARCSEC:.5f} arcsec (tol {tol:.2e} rad)")
        t.trans(1)
        t.ev((cfg["eop"], ctx["dt"], "edge", a, b))
        t.states_add(1)
        t.outcome(("edge", a, b))
    # the two chains: EME2000 -> (1980 chain) -> ITRF -> (2010 chain) -> GCRF must be the constant frame bias within 0.1"
    case = dict(kind="edge", config=cfg, date=list(ctx["dt"]), A="EME2000", B="GCRF")
    R = lib("EME2000", "GCRF")
    ang = er.rot_diff(R, er.frame_bias().T)
    if not t.margin("IAU-1980 vs IAU-2010 chain (EME2000->GCRF vs frame bias) [arcsec / 0.1]", ang / er.ARCSEC, 0.1, case):
        t.fail("earth-rotation/1980-vs-2010", "the two chains agree to < 0.1 arcsec", case, er.frame_bias().T.tolist(), R.tolist(),
               f"EME2000->GCRF differs from the frame bias by {ang / er.ARCSEC:.4f} arcsec")
    t.trans(1)
    t.ev((cfg["eop"], ctx["dt"], "edge", "EME2000", "GCRF"))
    t.states_add(1)


def check_error_policy(cfg, dt, t):
    """EOP missing with policy 'error': the lookup must raise (no silent zero)."""
    from beyond.errors import EopError

    case = dict(kind="policy-error", config=cfg, date=list(dt))
    try:
        d = mk_date(dt)
    except (EopError, KeyError) as e:
        t.outcome(("policy-error", type(e).__name__))
    else:
        t.fail("eop/error-policy-not-raised", "missing EOP with policy 'error' raises", case, "EopError", repr(d.eop))
    t.trans(1)
    t.ev((cfg["eop"], tuple(dt), "policy"))
    t.states_add(1)


# ---------------------------------------------------------------------------
# (f) histories: a frame name re-bound to another definition, request order of conversions, repeated calls

HIST_KINDS = ["lof-QSW", "lof-TNW", "orbit-inertial", "sv-QSW", "sv-TNW-kep", "sv-inertial", "station", "station-eq"]
# frame and form in which the reference of each kind is given, per definition number (never "cartesian in EME2000" twice)
HIST_REF = {
    "lof-QSW": [("TEME", "keplerian"), ("MOD", "cartesian")],
    "lof-TNW": [("MOD", "cartesian"), ("EME2000", "keplerian")],
    "orbit-inertial": [("EME2000", "keplerian"), ("G50", "cartesian")],
    "sv-QSW": [("TEME", "cartesian"), ("G50", "cartesian")],
    "sv-TNW-kep": [("TOD", "keplerian"), ("EME2000", "keplerian")],
    "sv-inertial": [("MOD", "cartesian"), ("EME2000", "cartesian")],
}
HIST_GROUP = {"lof-QSW": "lof", "lof-TNW": "lof", "sv-QSW": "lof", "sv-TNW-kep": "lof", "orbit-inertial": "translation", "sv-inertial": "translation",
              "station": "station", "station-eq": "translation"}
HIST_KEPS = [[7100e3, 0.003, 0.6, 1.1, 0.9, 0.4], [7600e3, 0.02, 1.45, 4.0, 2.2, 3.3]]
HIST_SITES = [(48.35, 11.78, 450.0), (-25.89, 27.69, 1400.0)]
HIST_SEQUENCE = [0, 1, 0]  # definition bound to the name at each step


def hist_create(name, hkind, d, date):
    """Register frame `name` of the given kind with definition number d."""
    from mc.ref import twobody as tb
    from beyond.constants import Earth
    from beyond.orbits import Orbit, StateVector
    from beyond.frames import create_station
    from beyond.frames.frames import orbit2frame

    if hkind in ("station", "station-eq"):
        return create_station(name, HIST_SITES[d], equatorial=(hkind == "station-eq")), None
    frame, form = HIST_REF[hkind][d]
    if hkind.startswith("sv-"):
        ref = StateVector(np.array(tb.kep_to_cart(*HIST_KEPS[d], Earth.mu), dtype=float), date, "cartesian", frame)
    else:
        ref = Orbit(np.array(tb.kep_to_cart(*HIST_KEPS[d], Earth.mu), dtype=float), date, "cartesian", frame, "Kepler")
    if form != "cartesian":
        ref.form = form
    orientation = {"lof-QSW": "QSW", "lof-TNW": "TNW", "sv-QSW": "QSW", "sv-TNW-kep": "TNW"}.get(hkind)
    return orbit2frame(name, ref, orientation, exists_warning=False), ref


def run_history(cfg, dt, hkind, restore_between, order, t):
    """One scenario, from the pristine registries: the name 'H' is bound to HIST_SEQUENCE's definitions in turn (with or
    without a registry reset in between); after each binding a freshly named frame with the same definition is the
    oracle (differential), and the usual identities are required.  `order` selects whether the direct conversion or
    the one through an intermediate frame is requested first; every conversion is requested twice."""
    from mc import world
    from mc.ref import twobody as tb
    from beyond.orbits import StateVector

    dt = tuple(int(v) for v in dt)
    if "snap" not in _G:
        get_ctx(dt)
    _G["ctx"] = None  # the date world is discarded
    world.restore(_G["snap"])
    date = mk_date(dt)
    case = dict(kind="history", config=cfg, date=list(dt), hkind=hkind, restore=bool(restore_between), order=int(order))
    grp = HIST_GROUP[hkind]
    from beyond.constants import Earth

    probes = {
        "EME2000": np.array(tb.kep_to_cart(7200e3, 0.01, 1.1, 2.0, 0.5, 0.3, Earth.mu), dtype=float),
        "ITRF": np.array([4.6e6, 1.2e5, 4.5e6, 10.0, -20.0, 5.0]),
        "TOD": np.array([-2.0e7, 3.0e7, 1.0e7, -2000.0, -1500.0, 800.0]),
    }
    nconv = 0

    def twice(sv, f):
        a = convert(sv, f)
        b = convert(sv, f)
        if not np.array_equal(arr(a), arr(b)):
            t.fail(f"history/repeat/{grp}", "the same conversion gives the same result when repeated", case, arr(a).tolist(), arr(b).tolist(),
                   f"{sv.frame.name}->{f} twice in a row differs by {float(np.linalg.norm(arr(a)[:3] - arr(b)[:3])):.3e} m")
        return a

    try:
        for k, d in enumerate(HIST_SEQUENCE):
            if k and restore_between:
                world.restore(_G["snap"])
            _, ref = hist_create("H", hkind, d, date)
            _, ref_f = hist_create(f"F{k}", hkind, d, date)
            snaps = [(r, ref_state(r)) for r in (ref, ref_f) if r is not None]

            def outward():
                """A state given in the new frame itself, converted outwards (twice, and against the twin)."""
                loc = np.array([100.0, 200.0, -50.0, 0.1, -0.2, 0.3])
                a = arr(twice(StateVector(loc.copy(), date, "cartesian", "H"), "EME2000"))
                b = arr(twice(StateVector(loc.copy(), date, "cartesian", f"F{k}"), "EME2000"))
                tp, tv = tol_pv([a, b])
                if not (float(np.linalg.norm(a[:3] - b[:3])) <= tp and float(np.linalg.norm(a[3:] - b[3:])) <= tv):
                    t.fail(f"history/differential/{grp}", "a frame behaves according to its current definition, whatever was registered under its name before",
                           case, b.tolist(), a.tolist(), f"binding {k} (definition {d}) H->EME2000 differs from the twin by {float(np.linalg.norm(a[:3] - b[:3])):.3e} m")

            if order == 0:  # very first use of the frame is a conversion out of it
                outward()
                nconv += 4
            for X, rv in probes.items():
                x = StateVector(rv.copy(), date, "cartesian", X)
                vias = [c for c in ("MOD", "ITRF") if c != X]
                if order == 0:
                    direct = twice(x, "H")
                    via = [twice(twice(x, c), "H") for c in vias]
                else:
                    via = [twice(twice(x, c), "H") for c in vias]
                    direct = twice(x, "H")
                fresh = twice(x, f"F{k}")
                back = twice(direct, X)
                nconv += 2 * (3 + 2 * len(vias))
                xd, xf, xb, x0 = arr(direct), arr(fresh), arr(back), arr(x)
                tp, tv = tol_pv([x0, xd, xf])
                what = f"binding {k} (definition {d}) {X}->H"
                dp, dv = float(np.linalg.norm(xd[:3] - xf[:3])), float(np.linalg.norm(xd[3:] - xf[3:]))
                t.margin("history: re-bound name vs freshly named frame [m / tol]", dp, tp, case)
                if not (dp <= tp and dv <= tv):
                    t.fail(f"history/differential/{grp}", "a frame behaves according to its current definition, whatever was registered under its name before",
                           case, xf.tolist(), xd.tolist(), f"{what}: differs from the freshly named twin by {dp:.3e} m, {dv:.3e} m/s")
                for c, v in zip(vias, via):
                    xv = arr(v)
                    dp, dv = float(np.linalg.norm(xd[:3] - xv[:3])), float(np.linalg.norm(xd[3:] - xv[3:]))
                    t.margin("history: path independence [m / tol]", dp, tp, case)
                    if not (dp <= tp and dv <= tv):
                        t.fail(f"history/path/{grp}", "A->C->B equals A->B whatever the request order", case, xd.tolist(), xv.tolist(),
                               f"{what} vs through {c}: {dp:.3e} m, {dv:.3e} m/s")
                dp, dv = float(np.linalg.norm(xb[:3] - x0[:3])), float(np.linalg.norm(xb[3:] - x0[3:]))
                t.margin("history: round trip [m / tol]", dp, tp, case)
                if not (dp <= tp and dv <= tv):
                    t.fail(f"history/roundtrip/{grp}", "A->B->A is the identity", case, x0.tolist(), xb.tolist(), f"{what}->{X}: {dp:.3e} m, {dv:.3e} m/s")
            if order == 1:
                outward()
                nconv += 4
            for r, snap in snaps:
                if ref_state(r) != snap:
                    now = ref_state(r)
                    t.fail("reference-mutated", "conversions leave the state a frame was created from untouched", case, snap, now,
                           f"history {hkind} binding {k}: {snap[1]}/{snap[2]} -> {now[1]}/{now[2]}")
    except LibraryRaised as e:
        t.fail(f"history/raises/{grp}", "re-created frames convert like any other", case, "a state", str(e))
    finally:
        world.restore(_G["snap"])
        _G["ctx"] = None
    t.trans(nconv)
    t.ev((cfg["eop"], dt, "history", hkind, bool(restore_between), int(order)))
    t.states_add(len(HIST_SEQUENCE))
    t.outcome(("history", hkind, bool(restore_between), int(order)))


def check_forms(ctx, cfg, t):
    """A state held in a non-cartesian form keeps its meaning through a frame change: converting in keplerian /
    spherical form equals converting in cartesian form and changing form afterwards (with the NEW frame's central
    body), and the round trip gives the elements back."""
    from beyond.orbits import StateVector

    for form in ("keplerian", "spherical"):
        for F in ("Moon", "Sun", "S1", "O0", "MOD"):
            case = dict(kind="forms", config=cfg, date=list(ctx["dt"]), form=form, B=F)
            cart = make_sv(ctx, 0)
            try:
                x = cart.copy(form=form)
                direct = x.copy(frame=F)
                two_step = arr(cart.copy(frame=F).copy(form="cartesian"))
                back = arr(direct.copy(frame="EME2000"))
                d_cart = arr(direct.copy(form="cartesian"))
            except Exception as e:
                t.fail(f"forms/raises/{klass(F)}", "a state in any form can change frame", case, "a state", repr(e))
                continue
            t.trans(5)
            tp, tv = tol_pv([arr(cart), two_step])
            tp, tv = 100 * tp, 100 * tv  # element <-> cartesian conversions: conditioning of the forms (C01's subject), kept loose here
            dp, dv = float(np.linalg.norm(d_cart[:3] - two_step[:3])), float(np.linalg.norm(d_cart[3:] - two_step[3:]))
            if direct.form.name != form or direct.frame.name != F:
                t.fail("forms/tag", "form and frame tags after a frame change", case, [form, F], [direct.form.name, direct.frame.name])
            if not (dp <= tp and dv <= tv):
                t.fail(f"forms/frame-change/{klass(F)}", "changing frame in keplerian/spherical form equals changing it in cartesian form", case,
                       two_step.tolist(), d_cart.tolist(), f"{form} EME2000->{F}: {dp:.3e} m, {dv:.3e} m/s")
            x0 = arr(x)
            scale = np.maximum(np.abs(x0), 1.0)
            rel = float(np.max(np.abs(back - x0) / scale)) if form == "keplerian" else float(np.max(np.abs(back - x0) / scale))
            # round-off of the two affine maps relative to the state, times the conditioning of the element set
            # (argument of perigee / anomaly: 1 / e, e = 0.01 for this state)
            c0 = arr(cart)
            rtol = 4.0 * (tp / 100 / float(np.linalg.norm(c0[:3])) + tv / 100 / float(np.linalg.norm(c0[3:]))) * (100.0 if form == "keplerian" else 4.0) + 64 * EPS
            if not t.margin("forms: round trip of the elements through another frame [relative / tol]", rel, rtol, case):
                t.fail(f"forms/roundtrip/{klass(F)}", "A->B->A is the identity in any form", case, x0.tolist(), back.tolist(), f"{form} EME2000->{F}->EME2000: {rel:.3e}")
            t.ev((cfg["eop"], ctx["dt"], "forms", form, F))
            t.states_add(1)


def run_light(cfg, dt, t):
    """Per-date checks only: reference edges and matrix structure."""
    ctx = get_ctx(dt)
    ctx["memo"].clear()
    check_edges(ctx, cfg, t)
    check_forms(ctx, cfg, t)
    for A in BUILTIN:
        for B in BUILTIN:
            if A != B:
                check_matrix(ctx, cfg, A, B, t)
    check_refs(ctx, dict(kind="light", config=cfg, date=list(ctx["dt"])), t)
    ctx["memo"].clear()


# ---------------------------------------------------------------------------
# (g) frame attached to an SGP4 orbit, used exactly at the TLE epoch and one second around it

TLE_TEXT = """ISS (ZARYA)
1 25544U 98067A   16333.80487076  .00003660  00000-0  63336-4 0  9996
2 25544  51.6440 317.1570 0006082 266.5744 156.9779 15.53752683 30592"""


def check_tle_frame(cfg, t):
    from mc import world
    from beyond.io.tle import Tle
    from beyond.dates import timedelta
    from beyond.orbits import StateVector
    from beyond.frames.frames import orbit2frame

    if "snap" not in _G:
        get_ctx(DATES[7])
    _G["ctx"] = None
    world.restore(_G["snap"])
    case = dict(kind="tle", config=cfg)
    try:
        orb = Tle(TLE_TEXT).orbit()
        orbit2frame("T0", orb, None)
        orbit2frame("TQ", orb, "QSW")
        centres = {}
        for k in (-1, 0, 1):
            date = orb.date if k == 0 else orb.date + timedelta(seconds=k)
            truth = orb.propagate(date)  # SGP4 osculating state (TEME) = where the frame's origin has to be
            t_eme = arr(convert(truth.copy(form="cartesian"), "EME2000"))
            for F in ("T0", "TQ"):
                at_origin = arr(convert(truth.copy(form="cartesian"), F))
                d = float(np.linalg.norm(at_origin[:3]))
                if not t.margin("SGP4-orbit frame: reference orbit at the origin [m / 1e-6]", d, 1e-6, case):
                    t.fail("tle-frame/origin", "a frame attached to an orbit is centred on that orbit at every date, the epoch included", case, 0.0, d,
                           f"{F} at epoch{k:+d} s: the propagated reference orbit is {d:.3e} m from the origin")
                c = arr(convert(StateVector(np.zeros(6), date, "cartesian", F), "EME2000"))
                centres[(F, k)] = c
                dc = float(np.linalg.norm(c[:3] - t_eme[:3]))
                if dc > 1e-6:
                    t.fail("tle-frame/centre", "the frame centre is the propagated orbit", case, t_eme[:3].tolist(), c[:3].tolist(), f"{F} at epoch{k:+d} s: {dc:.3e} m")
                probe = StateVector(t_eme + np.array([500.0, -300.0, 200.0, 0.1, 0.2, -0.3]), date, "cartesian", "EME2000")
                a, b = arr(convert(probe, F)), arr(convert(convert(probe, "MOD"), F))
                tp, tv = tol_pv([arr(probe), a])
                if float(np.linalg.norm(a[:3] - b[:3])) > tp or float(np.linalg.norm(a[3:] - b[3:])) > tv:
                    t.fail("tle-frame/path", "A->C->B equals A->B", case, a.tolist(), b.tolist(), f"{F} at epoch{k:+d} s")
                t.trans(6)
        for F in ("T0", "TQ"):
            v = float(np.linalg.norm(centres[(F, 0)][3:]))  # the origin is at rest in its frame: this is the orbit's speed
            for k in (-1, 1):
                jump = float(np.linalg.norm(centres[(F, 0)][:3] - centres[(F, k)][:3]))
                # |c(t0 +- 1 s) - c(t0)| = |v| x 1 s within the curvature term a/2 x (1 s)^2 = 4.5 m
                if not t.margin("SGP4-orbit frame: centre displacement over 1 s around the epoch, minus |v| x 1 s [m / 10 m]", abs(jump - v), 10.0, case):
                    t.fail("tle-frame/continuity", "the frame centre moves continuously through the TLE epoch", case, v, jump, f"{F}: centre moves {jump:.1f} m between epoch and epoch{k:+d} s")
    except LibraryRaised as e:
        t.fail("tle-frame/raises", "frames attached to a TLE orbit convert like any other", case, "a state", str(e))
    finally:
        world.restore(_G["snap"])
        _G["ctx"] = None
    t.ev((cfg["eop"], "tle"))
    t.states_add(6)
    t.outcome(("tle",))


# ---------------------------------------------------------------------------
# (h) two EOP databases in one process, selected through config eop.dbname: results follow the CURRENT database


def check_eop_switch(cfg, t):
    from mc.ref import earthrot as er
    from beyond.config import config as bc
    from beyond.dates.eop import EopDb, Eop
    from beyond.frames import orient

    if cfg["eop"] != "real":
        raise ValueError("eop-switch runs in the real-EOP worker group")
    leap = _G["leap"]
    if not _G.get("switch_db"):

        class ShiftedEop:
            """Second database: no polar motion, UT1-UTC = +0.25 s, leap seconds as usual."""

            def __getitem__(self, mjd):
                return Eop(x=0, y=0, dx=0, dy=0, deps=0, dpsi=0, lod=0, ut1_utc=0.25, tai_utc=leap.tai_utc(mjd))

        EopDb.register(ShiftedEop, "verif-shifted")
        _G["switch_db"] = True
    saved = dict(bc["eop"])
    try:
        for order in (("default", "verif-shifted", "default"), ("verif-shifted", "default", "verif-shifted")):
            for di in (7, 12, 8):
                dt = DATES[di]
                mjd = (datetime.date(dt[0], dt[1], dt[2]) - datetime.date(1858, 11, 17)).days
                sod = dt[3] * 3600 + dt[4] * 60 + dt[5] + dt[6] * 1e-6 + (0 if order[0] == "default" else 7)  # distinct instants per order
                for step, db in enumerate(order):
                    case = dict(kind="eop-switch", config=cfg, date=list(dt), order=list(order), step=step)
                    bc["eop"] = dict(saved, dbname=db)
                    date = mk_date(dt)
                    if order[0] != "default":
                        from beyond.dates import timedelta

                        date = date + timedelta(seconds=7)
                    eop = ref_eop("real", mjd) if db == "default" else er.Eop(ut1_utc=0.25, tai_utc=leap.tai_utc(mjd))
                    ref = er.EarthRotation(mjd, sod, eop, _nut_table())
                    for a, b, Rref, tol in (("PEF", "TOD", ref.PEF_to_TOD(), SIDEREAL_TOL), ("ITRF", "EME2000", ref.ITRF_to_EME2000(), SIDEREAL_TOL + 4 * ANALYTIC_TOL),
                                            ("TIRF", "CIRF", ref.TIRF_to_CIRF(), SIDEREAL_TOL), ("ITRF", "TIRF", ref.ITRF_to_TIRF(), ANALYTIC_TOL)):
                        try:
                            R = np.array(getattr(orient, a).convert_to(date, getattr(orient, b)), dtype=float)[:3, :3]
                        except Exception as e:
                            t.fail("eop-switch/raises", "conversions work under either registered EOP database", case, "matrix", repr(e))
                            continue
                        ang = er.rot_diff(R, Rref)
                        t.trans(1)
                        if not t.margin("EOP database switched in-process: edge vs reference of the current database [rad / tol]", ang, tol, case):
                            t.fail(f"eop-switch/{a}-{b}", "Earth rotation follows the EOP of the currently selected database", case, Rref.tolist(), R.tolist(),
                                   f"database {db!r} (step {step} of {order}): {a}->{b} differs by {ang:.3e} rad (tol {tol:.2e})")
                    t.ev((cfg["eop"], "switch", tuple(dt), order, step))
                    t.states_add(1)
    finally:
        bc["eop"] = saved
    t.outcome(("eop-switch",))


# ---------------------------------------------------------------------------
# dispatch


def check_case(case, t):
    cfg = case["config"]
    if case["kind"] == "policy-error":
        return check_error_policy(cfg, case["date"], t)
    if case["kind"] == "history":
        return run_history(cfg, case["date"], case["hkind"], case["restore"], case["order"], t)
    if case["kind"] == "tle":
        return check_tle_frame(cfg, t)
    if case["kind"] == "eop-switch":
        return check_eop_switch(cfg, t)
    if case["kind"] == "light":
        return run_light(cfg, case["date"], t)
    ctx = get_ctx(case["date"])
    ctx["memo"].clear()
    k = case["kind"]
    if k == "triple":
        check_triple(ctx, cfg, case["state"], case["A"], case["B"], case["C"], t)
    elif k == "matrix":
        check_matrix(ctx, cfg, case["A"], case["B"], t)
    elif k == "fd":
        check_fd(ctx, cfg, case["state"], case["B"], t)
    elif k == "edge":
        check_edges(ctx, cfg, t)
    elif k == "forms":
        check_forms(ctx, cfg, t)
    elif k == "repeat":
        run_triples(ctx, cfg, case["state"], t, FRAMES, case.get("a_list"))
    elif k == "pairs":
        run_pairs(ctx, cfg, case["state"], t)
    else:
        raise ValueError(k)
    ctx["memo"].clear()


def run_unit(p, t):
    cfg = p["config"]
    if p["part"] == "policy-error":
        for dt in p["dates"]:
            check_error_policy(cfg, dt, t)
        return
    if p["part"] == "light":
        for dt in p["dates"]:
            run_light(cfg, dt, t)
        return
    if p["part"] == "tle":
        return check_tle_frame(cfg, t)
    if p["part"] == "eop-switch":
        return check_eop_switch(cfg, t)
    if p["part"] == "history":
        for hkind in HIST_KINDS:
            for restore_between in (True, False):
                for order in (0, 1):
                    run_history(cfg, p["date"], hkind, restore_between, order, t)
        return
    ctx = get_ctx(p["date"])
    ctx["memo"].clear()
    before = _G["warnings"].n
    if p.get("per_date"):
        check_edges(ctx, cfg, t)
        check_forms(ctx, cfg, t)
        for A in BUILTIN:
            for B in BUILTIN:
                if A != B:
                    check_matrix(ctx, cfg, A, B, t)
        ctx["memo"].clear()
    for si in p.get("fd_states", []):
        if not ctx["states"][si]["fd"]:
            continue
        for B in FRAMES:
            if klass(B) == "body":
                t.exclude("finite-difference kinematics in Moon/Sun-centred frames (not in the quantifier's frame list)")
                continue
            if klass(B) in ("sv-inertial", "sv-lof"):
                t.exclude("finite-difference kinematics in frames attached to a fixed StateVector (such a frame is defined at the date of that state only)")
                continue
            if klass(B) == "orbit-lof" and not LOF_KINEMATICS_IN_SCOPE:
                t.exclude("finite-difference kinematics in QSW/TNW orbit-attached frames (frozen-axes reading)")
                continue
            check_fd(ctx, cfg, si, B, t)
    for si in p.get("pair_states", []):
        run_pairs(ctx, cfg, si, t)
    if p.get("a_list") is not None:
        run_triples(ctx, cfg, p["state"], t, FRAMES, p["a_list"])
    if len(t.samples) < 2:
        t.sample(dict(config=cfg, date=list(ctx["dt"]), state=ctx["states"][p["state"]]["name"], frames=FRAMES, a_list=p.get("a_list"),
                      eop=dict(ut1_utc=ctx["ref"].eop.ut1_utc, x=ctx["ref"].eop.x, lod=ctx["ref"].eop.lod, tai_utc=ctx["ref"].eop.tai_utc)))
    if cfg["eop"] == "warning":
        t.outcome(("warnings-logged", _G["warnings"].n > before))
    elif cfg["eop"] in ("real", "zero", "pass"):
        t.outcome(("warnings-logged", cfg["eop"], _G["warnings"].n > before))


def units(tier, seed):
    u = []
    kinds = ["real", "zero", "pass", "warning"]
    for kind in kinds:
        cfg = {"eop": kind}
        idx = QUICK_DATES[kind] if tier == "quick" else range(len(DATES))
        for i in idx:
            d = list(DATES[i])
            if tier == "quick":
                # LEO state: all triples, split by first frame into two units; GEO and ground point: finite differences
                # and all ordered pairs (deviation bound: identities are linear in the state)
                u.append((cfg, dict(part="main", config=cfg, date=d, state=0, per_date=True, fd_states=[0, 1, 2], pair_states=[1, 2], a_list=FRAMES[:4])))
                u.append((cfg, dict(part="main", config=cfg, date=d, state=0, a_list=FRAMES[4:13])))
                u.append((cfg, dict(part="main", config=cfg, date=d, state=0, a_list=FRAMES[13:])))
            else:
                for si in range(4):
                    u.append((cfg, dict(part="main", config=cfg, date=d, state=si, per_date=(si == 0), fd_states=[si], a_list=list(FRAMES))))
        if tier == "quick":
            light = [list(DATES[i]) for i in QUICK_LIGHT[kind] if i not in QUICK_DATES[kind]]
            for k in range(0, len(light), 6):
                u.append((cfg, dict(part="light", config=cfg, dates=light[k : k + 6])))
        for i in (QUICK_HISTORY if tier == "quick" else THOROUGH_HISTORY)[kind]:
            u.append((cfg, dict(part="history", config=cfg, date=list(DATES[i]))))
        if kind in ("real", "zero"):
            u.append((cfg, dict(part="tle", config=cfg)))
        if kind == "real":
            u.append((cfg, dict(part="eop-switch", config=cfg)))
    cfg = {"eop": "error"}
    u.append((cfg, dict(part="policy-error", config=cfg, dates=[list(DATES[i]) for i in (QUICK_DATES["real"] if tier == "quick" else range(len(DATES)))])))
    return u


def replay(case, t):
    check_case(case, t)
