"""C14 — covariance frame changes are pure, path-independent rotations.

Explicit-state search (E1) on the real `beyond.orbits.cov.Cov` / `StateVector`:
a state is the history of frame-changing operations that reaches it, rebuilt by
replaying the history on fresh objects.  The canonical state contains the hidden
fields that decide the future (frame and coordinates of the private state copy
`cov.orb`, `cov._orb_frame`), so two histories are merged only if they really have
the same futures.  In every state the covariance is compared with R C0 R^T where R
depends only on (start frame, frame the covariance reports) and is built without
any code of beyond/orbits/cov.py.
"""

import math

import numpy as np

PROPERTY = "C14"
CLAIM = dict(
    text="Explicit-state model checking of the real Cov / StateVector objects: from every start frame x orbit x matrix, "
    "breadth-first search over histories of the four frame-changing operations (cov.frame = t, cov.copy(frame=t), "
    "orb.frame = t, orb.copy(frame=t)) with 12 / 10 targets each, plus in-place edits of the matrix and re-attachment of the "
    "covariance to the same state expressed in another frame in dedicated sub-searches, deduplicated on the complete canonical state "
    "including the hidden private state copy and _orb_frame. In every reached state the matrix is compared with the "
    "history-independent oracle R C0 R^T (R from the frame code applied to basis states, resp. textbook QSW/TNW triads "
    "of the inertial r, v), and symmetry, positive semi-definiteness, position-block spectrum, frame labels and purity "
    "of the copying operations are asserted. States in which the invariant fails are reported and not expanded.",
    note="Trusts Frame.transform (property C02) for the 6x6 map between two built-in frames at the fixed date; "
    "trusts that iau2010._xysxy2 is a pure function of the date (cached per process for speed, verified at setup).",
    technique="explicit-state search over operation histories on the real objects, canonical state incl. hidden fields, "
    "independent R C R^T oracle",
)
RULE = (
    "states = canonical (cov.frame, rounded cov, frame+coordinates of private cov.orb, cov._orb_frame, attached state's "
    "frame) reached by replaying a history of operations on fresh objects; every operation of the alphabet is applied in "
    "every state that satisfies the invariant; a case = (root, history, operation); root = (start frame, orbit, matrix, "
    "epoch), and collision chains run roots that differ in exactly one of these in one process, in both orders. non-trivial = the operation really "
    "converts (target differs from the frame the covariance had); distinct by (root, canonical source state, operation)"
)
BOUNDS = {
    "quick": "EOP zero, epoch d0: 7 start frames x 3 (orbit, matrix) pairings, histories of length <= 3 for one pairing "
    "per start frame (= fixpoint on a tree where the property holds), length <= 2 for the other two; + 48 collision "
    "chains (one process each, both orders, histories of length <= 2 per root): 4 epochs for each start frame, 3 orbits "
    "/ 3 matrices for each start frame, 7 start frames for each pairing; + depth-1 check of Cov built with a frame name; "
    "+ per start frame: in-place edits (<= 1 edit, 12 targets, length <= 3, 3 pairings), re-attachment to the state in each "
    "of the 7 non-rotating frames (length <= 3 for one pairing, <= 2 for the others), one covariance built on the state "
    "in another frame / given in QSW or TNW axes (length <= 2)",
    "thorough": "EOP zero: 7 start frames x 3 orbits x 3 matrices at epoch d0 and real IERS tables: 7 start frames, "
    "breadth-first to depth 5 (the property's bound; the search reaches its fixpoint at depth 3 resp. 4, so histories "
    "of every length are covered); collision chains in both orders with histories of length <= 3 per root: 4 epochs for "
    "7 start frames x 3 pairings, 3 orbits / 3 matrices per start frame, 7 start frames per pairing; epoch chains also "
    "with real IERS tables (length <= 2); per start frame: in-place edits (<= 2 edits, length <= 5 for one pairing; <= 1 edit, "
    "length <= 4 for the others), re-attachment searches to their fixpoint for 3 pairings, covariances built on the state "
    "in another frame and given in S / QSW / TNW axes to depth 5",
}
ASSUMPTIONS = [
    "the 6x6 map of a state between two Earth-centred built-in frames at one date is linear and is what "
    "Frame.transform applies to basis states (frame code is property C02's business)",
    "for Earth-fixed targets 'R' is the full 6x6 kinematic map (rotation + omega coupling) of the state, whose position "
    "block is a pure rotation; for QSW/TNW it is blockdiag(T, T) with the textbook triad of the inertial r, v",
    "a state in which the invariant fails is reported and not expanded (its futures are meaningless)",
    "four epochs (2012-06-15T08:30:17.25 UTC, +6 h, +3 d, 2004-02-29T21:15:40); the oracle always uses the frame map at "
    "the root's own epoch; covariance attached as Cov(orb, C, orb.frame)",
    "in-place edits of the matrix (x4, + PSD position block, + one symmetric position-velocity pair of cells) are made in "
    "the covariance's current frame; the model matrix (kept in the start frame) follows them through R^-1; positive "
    "semi-definiteness is then required to be no worse than the model's",
    "re-attachment: `other.cov = cov` with other = the same state copied into another non-rotating frame; the covariance "
    "may also be BUILT on the state expressed in another frame and given in QSW/TNW axes; none of this changes what the "
    "covariance is, so the oracle R C R^T is unchanged",
    "the outcome of a unit is a deterministic function of the units executed before it in the same process and of the "
    "unit itself (collision chains exist precisely to expose state the library keeps between conversions)",
]
NOT_COVERED = (
    "covariances initially given in a regular frame other than the state's, re-attachment to a state in a rotating frame, "
    "non-Earth centres, dates other than the four epochs, histories longer than the depth bound unless the "
    "search reached its fixpoint (reported in notes)"
)

FRAMES = ["EME2000", "MOD", "TOD", "TEME", "PEF", "ITRF", "TIRF", "CIRF", "GCRF", "G50"]
LOCAL = ["QSW", "TNW"]
STARTS = ["EME2000", "MOD", "TOD", "TEME", "GCRF", "CIRF", "G50"]
ROTATING = {"PEF", "ITRF", "TIRF"}
OPS = (
    [("set", x) for x in FRAMES + LOCAL]
    + [("ccopy", x) for x in FRAMES + LOCAL]
    + [("drag", x) for x in FRAMES]
    + [("ocopy", x) for x in FRAMES]
)
# epochs: hours, days and years apart (all inside the span of the IERS tables used by the 'real' configuration)
EPOCHS = {
    "d0": (2012, 6, 15, 8, 30, 17, 250000),
    "d1": (2012, 6, 15, 14, 30, 17, 250000),
    "d2": (2012, 6, 18, 8, 30, 17, 250000),
    "d3": (2004, 2, 29, 21, 15, 40, 0),
}
DATE_ARGS = EPOCHS["d0"]
MU = 3.986004418e14

# (a, e, i, Om, w, nu) — LEO, GTO (r not perpendicular to v), retrograde
ORBITS = {
    "LEO": dict(kep=(6.878e6, 0.0012, math.radians(51.6), math.radians(40.0), math.radians(70.0), math.radians(25.0)), form="cartesian"),
    "GTO": dict(kep=(2.44e7, 0.73, math.radians(7.0), math.radians(200.0), math.radians(178.0), math.radians(60.0)), form="keplerian"),
    "RETRO": dict(kep=(7.4e6, 0.05, math.radians(140.0), math.radians(300.0), math.radians(10.0), math.radians(250.0)), form="cartesian"),
}

_G = np.array(
    [
        [3, 1, -2, 1, 0, 2],
        [1, 4, 1, -1, 2, 0],
        [-2, 1, 5, 0, 1, -1],
        [1, -1, 0, 3, 1, 1],
        [0, 2, 1, 1, 4, -2],
        [2, 0, -1, 1, -2, 5],
    ],
    dtype=float,
)
_H = np.array([[2, 1, 0], [-1, 3, 1], [1, 0, 2], [1, -1, 1], [0, 2, -1], [2, 1, 1]], dtype=float)
_D = np.diag([200.0, 200.0, 200.0, 0.25, 0.25, 0.25])


def matrix(name):
    if name == "diag":
        return np.diag([250.0 ** 2, 400.0 ** 2, 150.0 ** 2, 0.3 ** 2, 0.5 ** 2, 0.2 ** 2])
    if name == "dense":
        a = _D @ _G / 4.0
        return a @ a.T
    if name == "rank3":
        b = _D @ _H / 2.0
        return b @ b.T
    raise ValueError(name)


MATRICES = ["diag", "dense", "rank3"]

# tolerances (dimensionless, on the matrix scaled by the block sigmas s_r, s_v):
#   one conversion is M C M^T with M a product of <= 6 edge matrices: <= ~40 floating operations per entry, each
#   2^-53 relative, entries of the scaled matrix O(1), |M| O(1) (omega*s_r/s_v <= 0.1); a history has <= 6 conversions
#   and the oracle one more -> <= 7*40*1.1e-16 = 3e-14.  TOL = 1e-12 leaves x30; the smallest defect this must see is a
#   forgotten EME2000<->GCRF frame bias (1e-7).
TOL_ORACLE = 1e-12
TOL_SYM = 1e-13
TOL_PSD = 1e-12
TOL_SPEC = 1e-12

_W = {}


# ---------------------------------------------------------------------------
# configuration


def setup(config):
    from beyond.config import config as bc

    if config["eop"] == "real":
        bc.update({"eop": {"folder": "/repo/tests/data/pole", "type": "all", "missing_policy": "error"}})
    else:
        bc.update({"eop": {"missing_policy": "pass"}})
    _speed_cache()
    _W["config"] = config
    _W["R"] = {}


def _speed_cache():
    """iau2010._xysxy2(date) costs 10 ms and is not memoised by the library; every call here uses the same date.
    Wrap it in a cache keyed by the exact date and verify once that cached == recomputed (bit for bit)."""
    from beyond.frames import iau2010

    if getattr(iau2010._xysxy2, "_verif_cached", False):
        return
    orig = iau2010._xysxy2
    cache = {}

    def cached(date):
        k = (str(date.scale), date.d, date.s)
        if k not in cache:
            cache[k] = orig(date)
        return cache[k]

    cached._verif_cached = True
    cached._orig = orig
    iau2010._xysxy2 = cached
    d = _date()
    if cached(d) != orig(d) or cached(d) != orig(d):
        raise RuntimeError("iau2010._xysxy2 is not a pure function of the date")


def _date(epoch="d0"):
    from beyond.dates import Date

    k = ("date", epoch)
    if k not in _W:
        _W[k] = Date(*EPOCHS[epoch])
    return _W[k]


def root_rv(orbit):
    from mc.ref.twobody import kep_to_cart

    return np.array(kep_to_cart(*ORBITS[orbit]["kep"], MU), dtype=float)


# ---------------------------------------------------------------------------
# oracle (no code of beyond/orbits/cov.py, no code of beyond/frames/local.py)


def triad(kind, rv):
    r, v = rv[:3], rv[3:]
    w = np.cross(r, v)
    w = w / math.sqrt(w @ w)
    if kind == "QSW":
        a = r / math.sqrt(r @ r)
    else:
        a = v / math.sqrt(v @ v)
    b = np.cross(w, a)
    m = np.array([a, b, w])
    out = np.zeros((6, 6))
    out[:3, :3] = m
    out[3:, 3:] = m
    return out


def frame_map(src, dst, epoch="d0"):
    """6x6 linear map of a cartesian state from frame src to frame dst at the date of `epoch`, from Frame.transform
    on basis states (fresh StateVector objects carrying that date)."""
    key = (epoch, src, dst)
    if key in _W["R"]:
        return _W["R"][key]
    from beyond.frames.frames import get_frame
    from beyond.orbits import StateVector

    fs, fd = get_frame(src), get_frame(dst)
    if src == dst:
        m = np.identity(6)
    else:
        cols = []
        zero = np.array(fs.transform(StateVector([0.0] * 6, _date(epoch), "cartesian", fs), fd), dtype=float)
        for k in range(6):
            e = [0.0] * 6
            e[k] = 1.0
            cols.append(np.array(fs.transform(StateVector(e, _date(epoch), "cartesian", fs), fd), dtype=float) - zero)
        m = np.array(cols).T
        # sanity of the trusted ingredient (a failure here is not a C14 matter: harness error)
        r3 = m[:3, :3]
        if (
            np.max(np.abs(zero)) > 0
            or np.max(np.abs(r3 @ r3.T - np.identity(3))) > 1e-12
            or np.max(np.abs(m[:3, 3:])) > 0
            or np.max(np.abs(m[3:, 3:] - r3)) > 1e-13
        ):
            raise RuntimeError(f"Frame.transform {src}->{dst} is not a linear rigid map")
    _W["R"][key] = m
    return m


def rmap(root, target):
    """6x6 map from the root's start frame S to `target` (frame name or QSW/TNW)."""
    if target in LOCAL:
        return triad(target, root_rv(root["orbit"]))
    return frame_map(root["S"], target, root.get("epoch", "d0"))


def oracle(root, target, model=None):
    """Expected covariance in `target` for the root (S, orbit, matrix): R C R^T, C = the model matrix expressed in S
    (the root matrix, followed through the in-place edits of the history)."""
    c = matrix(root["matrix"]) if model is None else model
    r = rmap(root, target)
    return r @ c @ r.T


def root_model(root):
    """The root matrix is given in the frame root['cov0'] (default: S itself); the model keeps it expressed in S."""
    c0 = matrix(root["matrix"])
    f0 = root.get("cov0", "S")
    if f0 == "S":
        return c0.copy()
    ri = np.linalg.inv(rmap(root, f0))
    return ri @ c0 @ ri.T


Q_EDIT = np.array([[900.0, 120.0, -60.0], [120.0, 400.0, 30.0], [-60.0, 30.0, 625.0]])  # PSD position block [m^2]
EDITS = ["scale", "addQ", "pair"]


def edit_delta(root, w, what):
    """In-place edit of the covariance in its CURRENT frame; returns (function applied to the real object, new model)."""
    cf = fname(w.cov.frame)
    r = rmap(root, cf)
    ri = np.linalg.inv(r)
    if what == "scale":
        def do(cov):
            cov *= 4.0
        return do, w.model * 4.0
    d = np.zeros((6, 6))
    if what == "addQ":
        d[:3, :3] = Q_EDIT

        def do(cov):
            cov[:3, :3] += Q_EDIT
    else:  # one symmetric pair of cells (position-velocity correlation)
        ct = r @ w.model @ r.T
        v = 0.25 * math.sqrt(ct[0, 0] * ct[4, 4])
        d[0, 4] = d[4, 0] = v

        def do(cov):
            cov[0, 4] += v
            cov[4, 0] += v
    return do, w.model + ri @ d @ ri.T


# ---------------------------------------------------------------------------
# the real objects


class World:
    __slots__ = ("orb", "cov", "model", "edits", "reattached")

    def __init__(self, orb, cov, model=None, edits=0, reattached=False):
        self.orb = orb  # None when the observed covariance is a detached copy
        self.cov = cov
        self.model = model  # the covariance as a plain matrix expressed in the root's start frame
        self.edits = edits
        self.reattached = reattached

    def succ(self, orb, cov, **kw):
        return World(orb, cov, kw.get("model", self.model), kw.get("edits", self.edits), kw.get("reattached", self.reattached))


def build_root(root):
    from beyond.orbits import StateVector
    from beyond.orbits.cov import Cov
    from beyond.frames.frames import get_frame

    orb = StateVector(root_rv(root["orbit"]), _date(root.get("epoch", "d0")), "cartesian", root["S"])
    if ORBITS[root["orbit"]]["form"] != "cartesian":
        orb.form = ORBITS[root["orbit"]]["form"]
    fr = orb.frame if root.get("ctor", "frame") == "frame" else root["S"]
    if root.get("cov0", "S") != "S":
        fr = root["cov0"]
    # the state the covariance is BUILT on may be the same physical state expressed in another non-rotating frame
    sv = orb if not root.get("built_on") else orb.copy(frame=root["built_on"])
    orb.cov = Cov(sv, matrix(root["matrix"]), fr)
    return World(orb, orb.cov, root_model(root))


def fname(f):
    return f if isinstance(f, str) else f.name


def apply(w, op):
    """Execute one operation of the alphabet on the real objects; returns the successor world (the same object for
    in-place operations)."""
    kind, tgt = op
    if kind == "set":
        w.cov.frame = tgt
        return w
    if kind == "ccopy":
        return w.succ(None, w.cov.copy(frame=tgt))
    if kind == "drag":
        w.orb.frame = tgt
        return w
    if kind == "ocopy":
        o2 = w.orb.copy(frame=tgt)
        return w.succ(o2, o2.cov)
    if kind == "edit":
        do, model = edit_delta(_W["root"], w, tgt)
        do(w.cov)
        w.model = model
        w.edits += 1
        return w
    if kind == "reattach":
        # the same covariance object attached to the same physical state expressed in another non-rotating frame
        other = w.orb.copy(frame=tgt)
        other.cov = w.cov
        return w.succ(other, w.cov, reattached=True)
    raise ValueError(kind)


def applicable(w, op):
    # orb.frame / orb.copy / re-attachment act on the covariance attached to the state; a detached copy has no state
    return w.orb is not None or op[0] in ("set", "ccopy", "edit")


def hidden(cov):
    return fname(cov.orb.frame), fname(cov._orb_frame)


def scales(e):
    return np.array([math.sqrt(np.trace(e[:3, :3]) / 3)] * 3 + [math.sqrt(np.trace(e[3:, 3:]) / 3)] * 3)


def canon(w, root):
    cov = w.cov
    c = np.array(cov, dtype=float)
    s = _root_scales(root)
    q = np.round(c / np.outer(s, s) * 1e6).astype(int)
    p = np.array(cov.orb, dtype=float)
    key = (
        fname(cov.frame),
        type(cov.frame).__name__,
        tuple(q.flatten().tolist()),
        fname(cov.orb.frame),
        str(cov.orb.form),
        tuple(np.round(p[:3], 2).tolist()) + tuple(np.round(p[3:], 5).tolist()),
        fname(cov._orb_frame),
    )
    if w.orb is not None:
        key += (fname(w.orb.frame), str(w.orb.form), w.orb.cov is cov)
    else:
        key += (None,)
    return key


def exact(w):
    """Bit-exact image of everything a pure operation must leave alone."""
    cov = w.cov
    out = [np.array(cov, dtype=float).tobytes(), np.array(cov.orb, dtype=float).tobytes(), fname(cov.frame),
           fname(cov.orb.frame), fname(cov._orb_frame), str(cov.orb.form)]
    if w.orb is not None:
        out += [np.array(w.orb, dtype=float).tobytes(), fname(w.orb.frame), str(w.orb.form), w.orb.cov is cov]
    return out


def _root_scales(root):
    k = ("scales", root["matrix"])
    if k not in _W:
        _W[k] = scales(matrix(root["matrix"]))
    return _W[k]


def cls(name):
    return "local" if name in LOCAL else "rotating" if name in ROTATING else "inertial"


# ---------------------------------------------------------------------------
# one transition = one case


def step(root, w, op, case, t):
    """Apply `op` in world `w` and evaluate the invariant in the successor.  Returns (ok, successor)."""
    kind, tgt = op
    cov = w.cov
    pre_frame = fname(cov.frame)
    pre_priv, pre_of = hidden(cov)
    pre_orb = fname(w.orb.frame) if w.orb is not None else None
    pre_key = canon(w, root)
    pre_exact = exact(w) if kind in ("ccopy", "ocopy") else None
    if pre_priv != pre_of:
        hid = "stale-orb-frame"
    elif cls(pre_priv) == "rotating":
        hid = "private-state-in-rotating-frame"
    else:
        hid = "consistent"
    involves_local = tgt in LOCAL or pre_frame in LOCAL
    if root.get("ctor", "frame") == "name":
        base = "Cov.new/frame-name-not-resolved"
    elif hid != "consistent" and involves_local:
        base = f"Cov.frame/{hid}/" + ("to-local" if tgt in LOCAL else "from-local")
    else:
        tag = ("after-inplace-edit/" if w.edits else "") + ("after-reattach/" if w.reattached else "")
        tag += ("built-on-other-frame/" if root.get("built_on") else "")
        base = f"Cov/{kind}/{tag}{cls(pre_frame)}->{cls(tgt if kind not in ('edit', 'reattach') else pre_frame)}"
    _W["root"] = root
    where = f"{kind}({tgt}) in state cov.frame={pre_frame} private={pre_priv} _orb_frame={pre_of} orb.frame={pre_orb}"

    try:
        w2 = apply(w, op)
    except Exception as e:  # the property requires a value
        t.trans()
        t.fail(base + "/raises", "expressing the covariance in the target frame yields R C R^T", case, "a covariance",
               repr(e), where)
        return False, None
    t.trans()
    ok = True
    c = np.array(w2.cov, dtype=float)
    cf = fname(w2.cov.frame)

    # labels
    if kind in ("set", "ccopy"):
        exp_label = tgt
    elif kind in ("edit", "reattach"):
        exp_label = pre_frame
    elif kind == "drag":
        exp_label = tgt if pre_frame == pre_orb else pre_frame
    else:  # ocopy: the copy's state goes to tgt, its covariance follows iff it was in the state's frame
        exp_label = tgt if pre_frame == pre_orb else pre_frame
    if kind in ("drag", "ocopy", "reattach") and fname(w2.orb.frame) != tgt:
        t.fail(base + "/state-frame", "the state ends in the requested frame", case, tgt, fname(w2.orb.frame), where)
        ok = False
    if cf != exp_label:
        clause = (
            "a covariance expressed in its state's frame follows that state when the state changes frame"
            if kind in ("drag", "ocopy")
            else "the covariance ends in the target frame"
        )
        t.fail(base + "/label", clause, case, exp_label, cf, where)
        ok = False
    if cf not in FRAMES + LOCAL:
        return False, w2

    # purity of the copying operations: the receiver is untouched (incl. hidden fields)
    if kind in ("ccopy", "ocopy"):
        post_key = canon(w, root)
        if post_key != pre_key or exact(w) != pre_exact:
            t.fail(base + "/receiver-changed", "copy(frame=) returns a new object and leaves the receiver unchanged",
                   case, repr(pre_key)[:300], repr(post_key)[:300], where)
            ok = False

    # invariants on the matrix
    e = oracle(root, cf, w2.model)
    s = scales(e)
    ss = np.outer(s, s)
    cs, es = c / ss, e / ss
    if not np.all(np.isfinite(c)):
        t.fail(base + "/nonfinite", "R C R^T is finite", case, None, c, where)
        return False, w2
    err = float(np.max(np.abs(cs - es)))
    if err <= TOL_ORACLE:
        t.margin("cov vs R C0 R^T (scaled), states satisfying the property", err, TOL_ORACLE, case)
    else:
        t.fail(base + "/value", "the result is R C R^T and depends only on the target frame, not on the frames visited before",
               case, e, c, f"{where}: scaled max error {err:.3e} (tol {TOL_ORACLE:g})")
        ok = False
    asym = float(np.max(np.abs(cs - cs.T)))
    if not t.margin("asymmetry (scaled)", asym, TOL_SYM, case):
        t.fail(base + "/asymmetric", "the matrix stays symmetric", case, 0.0, asym, where)
        ok = False
    ev = np.linalg.eigvalsh((cs + cs.T) / 2)
    ev_model = np.linalg.eigvalsh((es + es.T) / 2)  # an in-place edit may itself leave the PSD cone: no worse than the model
    neg = float(max(0.0, min(0.0, ev_model[0]) - ev[0]) / ev[-1])
    if not t.margin("negative eigenvalue / max eigenvalue", neg, TOL_PSD, case):
        t.fail(base + "/not-psd", "the matrix stays positive semi-definite", case, ">= 0", float(ev[0]), where)
        ok = False
    c0 = w2.model
    sp0 = np.linalg.eigvalsh((c0[:3, :3] + c0[:3, :3].T) / 2)
    sp = np.linalg.eigvalsh((c[:3, :3] + c[:3, :3].T) / 2)
    dsp = float(np.max(np.abs(sp - sp0)) / sp0[-1])
    if not t.margin("position-block spectrum change (relative)", dsp, TOL_SPEC, case):
        t.fail(base + "/position-spectrum", "the eigenvalues of the position block are unchanged", case, sp0, sp, where)
        ok = False
    t.outcome((cf, hidden(w2.cov), ok))
    return ok, w2


def rebuild(root, hist, t):
    _W["root"] = root
    w = build_root(root)
    for op in hist:
        w = apply(w, tuple(op))
        t.trans()
    return w


def check_case(case, t):
    root = case["root"]
    hist = [tuple(x) for x in case["history"]]
    w = rebuild(root, hist[:-1], t)
    return step(root, w, hist[-1], case, t)


# ---------------------------------------------------------------------------
# exploration


REATTACH_OPS = [("reattach", x) for x in STARTS]
REATTACH_LEVEL_OPS = [("set", x) for x in FRAMES + LOCAL] + REATTACH_OPS + [("drag", x) for x in ("ITRF", "EME2000", "MOD")]
EDIT_LEVEL_OPS = [("set", x) for x in FRAMES + LOCAL] + [("edit", x) for x in EDITS] + [("drag", "ITRF"), ("drag", "EME2000")]


def explore(root, depth, t, config, level="main", max_edits=0):
    ops_all = {"main": OPS, "edit": EDIT_LEVEL_OPS, "reattach": REATTACH_LEVEL_OPS}[level]
    rid = (config["eop"], root["S"], root["orbit"], root["matrix"], root.get("ctor", "frame"), root.get("epoch", "d0"),
           root.get("built_on"), root.get("cov0"), level)
    w0 = build_root(root)
    k0 = canon(w0, root)
    seen = {k0}
    t.state((rid, k0))
    frontier = [[]]
    reached_fixpoint = False
    for d in range(depth):
        nxt = []
        for hist in frontier:
            w = rebuild(root, hist, t)
            k_src = canon(w, root)
            fresh = True
            n_edits = sum(1 for o in hist if o[0] == "edit")
            attached = w.orb is not None
            for op in ops_all:
                if not (attached or op[0] in ("set", "ccopy", "edit")) or (op[0] == "edit" and n_edits >= max_edits):
                    continue
                if not fresh:
                    w = rebuild(root, hist, t)
                case = dict(config=config, root=root, history=[list(x) for x in hist] + [list(op)])
                ok, w2 = step(root, w, op, case, t)
                nontrivial = op[1] != k_src[0]
                t.ev((rid, k_src, op) if nontrivial else None)
                # in-place operations consumed the objects; pure ones did not (verified by step) unless they failed
                fresh = ok and op[0] in ("ccopy", "ocopy")
                if not ok or w2 is None:
                    continue
                k = canon(w2, root)
                if k not in seen:
                    seen.add(k)
                    t.state((rid, k))
                    nxt.append(hist + [op])
                    if len(hist) + 1 >= 3 and len(t.samples) < 2:
                        t.sample(case)
        frontier = nxt
        if not frontier:
            reached_fixpoint = True
            break
    t.note("roots explored", 1)
    if reached_fixpoint:
        t.note("roots whose search reached its fixpoint (all history lengths covered)", 1)
    else:
        t.note("roots cut at the depth bound with unexpanded states", 1)
        t.note("unexpanded states at the depth bound", len(frontier))


def _chains(depth, epoch_pairings, single):
    """Units that visit, in ONE process and in both orders, roots that collide on everything except one coordinate
    (epoch / orbit / matrix / start frame): any state kept between conversions that is keyed without that coordinate
    (a memoised rotation without the date, a local triad without the orbit, ...) makes the later root disagree with
    the oracle of its own (S, orbit, date, matrix)."""
    pair = {"LEO": "dense", "GTO": "diag", "RETRO": "rank3"}
    orbs, eps = list(pair), list(EPOCHS)
    out = []

    def both(kind, roots):
        out.append(dict(chain=kind, roots=roots, depth=depth))
        out.append(dict(chain=kind + "-reversed", roots=roots[::-1], depth=depth))

    for k, s in enumerate(STARTS):
        for j in range(epoch_pairings):
            o = orbs[(k + j) % 3]
            both("epoch", [dict(S=s, orbit=o, matrix=pair[o], epoch=e) for e in eps])
        if single:
            both("orbit", [dict(S=s, orbit=o, matrix=MATRICES[k % 3], epoch=eps[k % 4]) for o in orbs])
            both("matrix", [dict(S=s, orbit=orbs[(k + 1) % 3], matrix=m, epoch=eps[(k + 1) % 4]) for m in MATRICES])
    if single:
        for j, o in enumerate(orbs):
            both("start-frame", [dict(S=s, orbit=o, matrix=pair[o], epoch=eps[(j + 2) % 4]) for s in STARTS])
    return out


def _extra(tier):
    """In-place edits of the matrix, re-attachment to the same state in another frame, covariance built on the state
    expressed in another frame / given in local axes."""
    pair = {"LEO": "dense", "GTO": "diag", "RETRO": "rank3"}
    orbs = list(pair)
    out = []
    for k, s in enumerate(STARTS):
        main = dict(S=s, orbit=orbs[k % 3], matrix=pair[orbs[k % 3]])
        others = [dict(S=s, orbit=o, matrix=pair[o]) for o in orbs if o != main["orbit"]]
        if tier == "quick":
            out.append(dict(roots=[main] + others, depth=3, level="edit", max_edits=1))
            out.append(dict(roots=[main], depth=3, level="reattach"))
            out.append(dict(roots=others, depth=2, level="reattach"))
        else:
            out.append(dict(roots=[main], depth=5, level="edit", max_edits=2))
            out.append(dict(roots=others, depth=4, level="edit", max_edits=1))
            out.append(dict(roots=[main] + others, depth=5, level="reattach"))
        built = [dict(main, built_on=STARTS[(k + 1 + j) % len(STARTS)], cov0=c0) for j, c0 in enumerate(("S", "QSW", "TNW"))]
        if tier == "quick":
            out.append(dict(roots=[built[k % 3]], depth=2))
        else:
            out.append(dict(roots=built, depth=5))
    out.sort(key=lambda p: -len(p["roots"]) * p["depth"] ** 3)
    return out


def units(tier, seed):
    """Cost per root (CPU, measured): on a tree where the property holds the search reaches its fixpoint at depth 3
    (132 states x 44 operations, 8 s; depth 2: 1.6 s); on the tree with the stale-_orb_frame defect depth 2 = 2 s,
    depth 3 = 30 s, fixpoint at depth 4 (~1250 states) = 115 s.  Units are ordered by decreasing cost."""
    pair = {"LEO": "dense", "GTO": "diag", "RETRO": "rank3"}
    rot = lambda lst: lst[seed % len(lst):] + lst[: seed % len(lst)] if lst else lst
    named = [
        dict(root=dict(S="EME2000", orbit="LEO", matrix="dense", ctor="name"), depth=1),
        dict(root=dict(S="TEME", orbit="GTO", matrix="diag", ctor="name", epoch="d1"), depth=1),
    ]
    if tier == "quick":
        cfg = {"eop": "pass"}
        orbs = list(pair)
        big, small = [], []
        for k, s in enumerate(STARTS):
            for j, o in enumerate(orbs):
                p = dict(root=dict(S=s, orbit=o, matrix=pair[o]), depth=3 if j == k % 3 else 2)
                (big if p["depth"] == 3 else small).append((cfg, p))
        chains = [(cfg, p) for p in _chains(2, 1, True)]
        chains.sort(key=lambda x: -len(x[1]["roots"]))
        return rot(big) + [(cfg, p) for p in _extra("quick")] + chains + rot(small) + [(cfg, p) for p in named]
    u = []
    cfg = {"eop": "pass"}
    cfg2 = {"eop": "real"}
    orbs = list(pair)
    u += [(cfg, p) for p in _chains(3, 3, True)]
    u += [(cfg, p) for p in _extra("thorough")]
    u += rot([(cfg, dict(root=dict(S=s, orbit=o, matrix=m), depth=5)) for s in STARTS for o in ORBITS for m in MATRICES])
    u += rot([(cfg2, dict(root=dict(S=s, orbit=orbs[k % 3], matrix=pair[orbs[k % 3]]), depth=5)) for k, s in enumerate(STARTS)])
    u += [(cfg2, p) for p in _chains(2, 1, False)]
    u += [(c, p) for c in (cfg, cfg2) for p in named]
    return u


def run_unit(p, t):
    level, me = p.get("level", "main"), p.get("max_edits", 0)
    if "roots" in p:
        for root in p["roots"]:
            explore(root, p["depth"], t, _W["config"], level, me)
        if p.get("chain"):
            t.note("collision chains (roots differing in one coordinate, explored in one process)", 1)
        return
    explore(p["root"], p["depth"], t, _W["config"], level, me)


def replay(case, t):
    check_case(case, t)
