"""C08 — propagation / iteration contract and independence from call history.

Part A (contract): exhaustive product  propagator x start x span x step x request form  on the real iterators,
compared with an integer-microsecond model of the date range and with direct propagation on fresh objects.

Part B (history independence): explicit-state search over every sequence of calls (propagate, full iteration,
abandoned iteration with listeners, iteration with listeners, ephem) on SHARED orbit / propagator / listener
objects; after every history the observation on the shared objects must equal the observation on fresh objects
and the initial orbit must be untouched.  The canonical state includes the hidden fields (propagator._orbit,
Listener.prev, Ephem cursor).
"""

import math

import numpy as np

PROPERTY = "C08"
CLAIM = dict(
    text="Part A executes every (propagator, start, span, step, request form, entry point) of a finite alphabet that contains the "
    "corners named by the property (start before/at/after the epoch, backward ranges, steps that do not divide the span, spans shorter "
    "than the 8-point interpolation order) and every calling form documented in Propagator.iter / Ephem.iter (stop as Date or as "
    "timedelta, start given / omitted / None, explicitly negative step, dates= as DateRange / list / generator, real_steps, through "
    "Orbit.iter / ephem / ephemeris / Station.visibility) on 10 propagator fixtures, two of which (ClohessyWiltshire, KeplerNum) carry an "
    "impulse dated exactly at the epoch, an impulse inside the range and a continuous burn. The yielded dates are compared with an exact "
    "integer-microsecond range model, every yielded state with a direct propagate() on a fresh object, and the initial orbit as well as "
    "the propagator's bound copy must be bit-identical afterwards; no yielded state may BE a stored / bound object. Part P asks every fixture for "
    "the dates exactly k = 1..7 propagator steps before and after the epoch, as propagate() target and as iteration start, against a stream "
    "anchored 8 steps before the epoch. Part B is an explicit-state search: all call sequences up to depth 3 "
    "(quick) / 4 (thorough) over 9 operations (propagate to two dates, full iteration, iteration abandoned after two items with listeners, "
    "iteration with listeners over (start, stop, step) and over explicit dates, ephem(), propagation of a SECOND orbit bound to the same "
    "propagator object, in-place conversion / overwriting of everything an iteration and a derived ephemeris yielded) on one shared orbit, "
    "its propagator and two listener objects; for the ephemeris 11 operations including own-step iterations and the resumption of a "
    "suspended iterator. Library exceptions raised inside fixture / oracle / observation calls are reported as violations, not as harness errors. Each history is re-executed from scratch on the real objects; the observation "
    "(propagate(t*), listened streams with events over (start, stop, step), dates=DateRange and dates=list, bytes and metadata of the "
    "initial orbit) must equal that of fresh objects, and the three listened streams must equal each other.",
    note="Trusts the integer range model, direct propagate() of a fresh object as the state oracle (its own correctness is the "
    "subject of C05/C06/C07/C09/C16), and that the canonical state (observation + propagator._orbit + Listener.prev + "
    "Ephem cursor + number of suspended generators) determines future behaviour.",
    technique="exhaustive input product + explicit-state search over call histories on the real objects, integer range model as reference",
)
RULE = (
    "part A: one case = (propagator, start, span, step, form, entry); non-trivial when the expected stream has >= 2 dates or the range is "
    "backward / degenerate; distinct by the tuple. part B: one state = one call history (sequence of operations) re-executed from "
    "fresh objects; canonical states (observation, hidden fields) are hashed for the distinct-state count; non-trivial = history of length >= 1"
)
BOUNDS = {
    "quick": "part A: 13 fixtures (incl. ephemerides with a linear and a 2- / 3-point Lagrange interpolator whose table ends where the ranges of part B end) x 3 starts x 6 spans x 3 steps x 10 request forms through iter() (non-distinct combinations not generated), forms "
    "{Date stop, timedelta stop} through ephem(), ephemeris() and (Sgp4, Kepler, KeplerNum) Station.visibility(); part X: two orbits created by propagator NAME used interleaved (zip, propagate inside an iteration, "
    "alternating next()), the initial orbit given in mean-element / TLE form and converted in place between iterations, requests dated in TT / TAI / GPS; "
    "part E: 4 ephemerides (Lagrange 8 / 3 / 2, linear) x 12 requests touching exactly "
    "the first / last recorded date; part P: 9 fixtures x k = +-1..7 steps from the epoch (propagate target, "
    "iteration start); part B: all histories of depth <= 3 over 9 operations (820 per orbit propagator, 9 fixtures) / 11 operations (1 464, ephemeris)",
    "thorough": "part A: all forms through iter(), ephemeris() and ephem(); part B: depth <= 4 for Sgp4, Kepler, KeplerNum, CW with maneuvers "
    "(7 381 histories each) and the ephemeris (16 105), depth <= 3 for the variant fixtures",
}
ASSUMPTIONS = [
    "expected dates: start + k*step (k = 0, 1, ...) not beyond stop, the sign of step following the direction of the range; start == stop yields one date; "
    "start omitted or None = the orbit's epoch (first node for an ephemeris); stop as timedelta = start + stop",
    "state oracle = direct propagate(date) of a freshly built object (cached per process); tolerance 1e-6 m (analytical), |v| x 3.3 us + 1e-6 m for the "
    "re-sampled numerical propagator / ephemeris (Date/MJD double resolution amplified by the interpolation stencils, see C06)",
    "numerical propagator of part A/B: KeplerNum(rk4, 60 s) on a 26 600 km orbit, where the truncation error of a step (1e-5 m) is far below the "
    "tolerance, so that differently anchored grids agree; KeplerNum(dopri54, 60 s) on a LEO orbit is added to exercise accepted steps shorter than the nominal one",
    "KeplerNum with maneuvers: only epoch-anchored grids with outputs on the nodes are compared with the direct propagation (an off-grid date is interpolated "
    "across the velocity jump, and the node at which an impulse is applied is grid-relative by design, C17); ClohessyWiltshire with maneuvers: everything",
    "for an Ephem 'own step' means its nodes inside [start, stop]; an Ephem shorter than the interpolation order is outside the property (documented ValueError)",
    "analytical propagators have no own step: step=None is outside the quantifier (counted as excluded)",
    "Station.visibility keeps the points above the horizon: the expected dates are filtered with the elevation of the direct propagation (points within 1e-7 rad "
    "of the horizon are undecidable); the station sits under the orbit at its epoch",
    "listeners are two instances of a Listener subclass defined in the harness (zero crossing of a cartesian coordinate), usable in every frame; their thresholds "
    "are crossed once inside the observed range so that Listener.prev is left on either side of zero by the operations of part B",
]
NOT_COVERED = (
    "interleaved consumption of two live iterators of an orbit propagator (only the ephemeris' suspended own-step iterator is resumed); "
    "SoINumerical; the library's own listeners (C10); ranges outside an ephemeris (documented ValueError); histories longer than the depth bound; "
    "numerical propagation with maneuvers on grids not anchored at the epoch"
)

DELTA = 60_000_000  # us
LIBERR = (ValueError, AttributeError, TypeError, RuntimeError, KeyError, IndexError, ArithmeticError, StopIteration)
PROPS = ["Sgp4", "Kepler", "J2", "NonePropagator", "KeplerNum", "KeplerNumA", "KeplerNumMan", "CW", "CWman", "Ephem", "EphemLin", "EphemL2", "EphemL3"]
# ephemerides with a linear / low-order Lagrange interpolator: their table ends exactly where the ranges of part B end (12 steps after the epoch)
EPHEM_VARIANTS = {"Ephem": (None, None, -12, 18), "EphemLin": ("linear", None, -9, 12), "EphemL2": ("lagrange", 2, -9, 12), "EphemL3": ("lagrange", 3, -9, 12)}
STARTS = [("before", -2 * DELTA), ("at", 0), ("after", int(2.5 * DELTA))]
SPANS = [("+10D", 10 * DELTA), ("+9.3D", int(9.3 * DELTA)), ("+3.3D", int(3.3 * DELTA)), ("+3D", 3 * DELTA), ("0", 0), ("-7D", -7 * DELTA)]
STEPS = [("D", DELTA), ("0.45D", int(0.45 * DELTA)), ("own", None)]
# request forms (every calling form documented in Propagator.iter / Ephem.iter):
#   sss         start=Date, stop=Date[, step]            sss-td      stop given as a timedelta
#   sss-neg     backward range with an explicitly negative step
#   nostart     start omitted (stop Date)                nostart-td  start omitted, stop timedelta
#   startNone   start=None
#   range       dates=Date.range(...)   list  dates=[...]   gen  dates=<generator>
#   real        real_steps=True (numerical propagator, fixed step): the nodes of the march
FORMS = ["sss", "sss-td", "sss-neg", "nostart", "nostart-td", "startNone", "range", "list", "gen", "real"]
NOSTART = ("nostart", "nostart-td", "startNone")
KWFORMS = ("sss", "sss-td", "sss-neg", "real") + NOSTART

ISS = """ISS (ZARYA)
1 25544U 98067A   18124.55610684  .00001524  00000-0  30197-4 0  9997
2 25544  51.6421 236.2139 0003381  47.8509  47.6767 15.54198229111731"""
MEO = (2.66e7, 0.01, 0.96, 1.0, 0.5, 0.3)
LEO = (7.0e6, 1e-3, 0.9, 0.3, 0.2, 0.1)

_G = {}


def setup(config):
    from beyond.config import config as bc

    bc.update({"eop": {"missing_policy": "pass"}})
    from beyond.dates import Date
    from beyond.env.solarsystem import get_body
    from beyond.propagators.listeners import Listener, Event

    _G["earth"] = get_body("Earth")
    _G["mu"] = float(_G["earth"].mu)
    _G["date0"] = Date(2020, 1, 1)

    class CoordListener(Listener):
        """Zero crossing of (cartesian coordinate `idx`) - value."""

        def __init__(self, idx, value, name):
            self.idx = idx
            self.value = value
            self.name = name

        def info(self, orb):
            return Event(self, self.name)

        def __call__(self, orb):
            return float(np.array(orb.copy(form="cartesian"), dtype=float)[self.idx]) - self.value

    _G["CoordListener"] = CoordListener


def A(x):
    return np.array(x, dtype=float)


# ---------------------------------------------------------------------------
# fixtures: every call builds brand-new objects


class Fix:
    """obj: the object iterated (Orbit or Ephem); epoch: its reference date."""

    def __init__(self, pname):
        from datetime import timedelta
        from beyond.dates import Date
        from beyond.orbits import Orbit, Ephem
        from mc.ref import twobody

        self.pname = pname
        mu = _G["mu"]
        self.own = None
        self.numerical = False
        self.is_ephem = False
        self.has_man = False
        self.speed = 0.0
        if pname == "Sgp4":
            from beyond.io.tle import Tle

            self.obj = Tle(ISS).orbit()
        elif pname in ("Kepler", "J2", "NonePropagator"):
            self.obj = Orbit(twobody.kep_to_cart(*MEO, mu), _G["date0"], "cartesian", "EME2000", pname)
        elif pname in ("KeplerNum", "KeplerNumA", "KeplerNumMan"):
            from beyond.propagators.keplernum import KeplerNum

            el, meth = (LEO, "dopri54") if pname == "KeplerNumA" else (MEO, "rk4")
            self.obj = Orbit(twobody.kep_to_cart(*el, mu), _G["date0"], "cartesian", "EME2000",
                             KeplerNum(timedelta(microseconds=DELTA), _G["earth"], method=meth))
            self.own = DELTA
            self.numerical = True
            self.speed = math.sqrt(mu * (2 / (el[0] * (1 - el[1])) - 1 / el[0]))
            if pname == "KeplerNumMan":
                from beyond.orbits.man import ImpulsiveMan, ContinuousMan

                d0 = _G["date0"]
                self.obj.maneuvers = [
                    ImpulsiveMan(d0, [1.0, 0.0, 0.0], frame="TNW"),  # dated exactly at the epoch
                    ImpulsiveMan(d0 + timedelta(microseconds=int(4.3 * DELTA)), [0.5, 0.0, -0.2], frame="TNW"),
                    ContinuousMan(d0 + timedelta(microseconds=6 * DELTA), timedelta(microseconds=2 * DELTA), dv=[0.0, 0.4, 0.3], frame="QSW"),
                ]
                self.has_man = True
        elif pname in ("CW", "CWman"):
            from beyond.propagators.cw import ClohessyWiltshire

            prop = ClohessyWiltshire(6800000.0)
            self.obj = Orbit([-600.0, -1500.0, 20.0, 0.01, 1.5 * prop.n * 600, -0.02], _G["date0"], "cartesian", "Hill", prop)
            if pname == "CWman":
                from beyond.orbits.man import ImpulsiveMan, ContinuousMan

                d0 = _G["date0"]
                self.obj.maneuvers = [
                    ImpulsiveMan(d0, [0.0, 0.1, 0.0]),  # dated exactly at the epoch
                    ImpulsiveMan(d0 + timedelta(microseconds=int(4.3 * DELTA)), [0.05, 0.0, -0.02]),
                    ContinuousMan(d0 + timedelta(microseconds=6 * DELTA), timedelta(microseconds=2 * DELTA), dv=[0.0, 0.08, 0.01]),
                ]
                self.has_man = True
        elif pname in EPHEM_VARIANTS:
            method, order, k0, k1 = EPHEM_VARIANTS[pname]
            src = Orbit(twobody.kep_to_cart(*MEO, mu), _G["date0"], "cartesian", "EME2000", "Kepler")
            self.obj = Ephem([src.propagate(_G["date0"] + timedelta(microseconds=k * DELTA)) for k in range(k0, k1 + 1)], method=method, order=order)
            self.is_ephem = True
            self.nodes_us = [k * DELTA for k in range(k0, k1 + 1)]
            self.speed = math.sqrt(mu * (2 / (MEO[0] * (1 - MEO[1])) - 1 / MEO[0]))
        else:
            raise ValueError(pname)
        self.epoch = _G["date0"] if self.is_ephem else self.obj.date
        # state tolerance [m]
        from props.c06_keplernum import QUANT

        self.tol = 1e-6 + (self.speed * QUANT if (self.numerical or self.is_ephem) else 0.0)

    def at(self, us):
        from datetime import timedelta

        return self.epoch + timedelta(microseconds=int(us))

    def us(self, date):
        d = date - self.epoch
        return d.days * 86400_000_000 + d.seconds * 1_000_000 + d.microseconds

    def initial_orbits(self):
        return list(self.obj._orbits) if self.is_ephem else [self.obj]

    def bound(self):
        """Canonical dump of the orbit the propagator is bound to (None for an ephemeris / unbound propagator)."""
        po = getattr(getattr(self.obj, "propagator", None), "orbit", None)
        return None if po is None else dump_data(po)


def direct(pname, u):
    """State oracle: propagate(date) of a brand-new object (cached per process: a fresh object is a pure function of the date).
    Returns (cartesian array, None) or (None, reason): a direct propagation that raises or returns a state dated otherwise
    is itself a violation ('each yielded state equals what a direct propagation to that date returns' presupposes that it returns)."""
    cache = _G.setdefault("direct", {})
    k = (pname, u)
    if k not in cache:
        ref = Fix(pname)
        try:
            d = ref.obj.propagate(ref.at(u))
            got = ref.us(d.date)
            if got != u:
                cache[k] = (None, f"wrong-date: propagate({u*1e-6} s) returned a state dated {got*1e-6} s")
            else:
                cache[k] = (A(d if str(d.form) == "cartesian" else d.copy(form="cartesian")), None)
        except LIBERR as e:
            cache[k] = (None, f"raises-{type(e).__name__}: {str(e)[:160]}")
    return cache[k]


def raised_in_library(exc):
    """True when the innermost frame of the exception lies in the tree under test (not in the harness / numpy / stdlib)."""
    import os
    from mc import engine

    root = os.path.join(os.path.realpath(engine.repo_path()), "beyond") + os.sep
    tb = exc.__traceback__
    inner = None
    while tb is not None:
        inner = tb.tb_frame.f_code.co_filename
        tb = tb.tb_next
    return inner is not None and os.path.realpath(inner).startswith(root)


def guarded(fn):
    """Every library call made for an oracle / fixture / observation is a call of the real code: an exception raised INSIDE the
    library there is a violation of the same clause (own signature), never a harness crash; anything else propagates."""

    def wrapper(case, t):
        try:
            return fn(case, t)
        except Exception as e:  # noqa: BLE001 - filtered by origin below
            if not raised_in_library(e):
                raise
            import traceback

            where = traceback.extract_tb(e.__traceback__)[-1]
            t.fail(f"{case.get('prop', '?')}/library-exception-in-oracle-or-fixture-call/{type(e).__name__}",
                   "fixtures, direct propagations and observations on fresh objects succeed", case, "no exception", repr(e)[:200],
                   f"{type(e).__name__} raised in {where.filename.split('beyond/')[-1]}:{where.lineno} ({where.name}): {str(e)[:150]}")

    wrapper.__name__ = fn.__name__
    return wrapper


def fresh_bound(pname):
    """Dump of the propagator-bound orbit right after binding a brand-new orbit (nothing propagated yet)."""
    cache = _G.setdefault("fresh_bound", {})
    if pname not in cache:
        fr = Fix(pname)
        if fr.is_ephem:
            cache[pname] = None
        else:
            fr.obj.propagator.orbit = fr.obj
            cache[pname] = fr.bound()
    return cache[pname]


def expected_dates(fx, start, stop, step):
    """Integer-microsecond model of the contract."""
    if step is None:
        if fx.is_ephem:
            lo, hi = min(start, stop), max(start, stop)
            nodes = [u for u in fx.nodes_us if lo <= u <= hi]
            return nodes if stop >= start else nodes[::-1]
        step = fx.own
    step = abs(step)
    if stop >= start:
        return list(range(start, stop + 1, step))
    return list(range(start, stop - 1, -step))


def dump_data(sv):
    """Canonical, address-free dump of a StateVector/Orbit: values bit-for-bit + meaningful metadata.
    Lazily created, semantically empty cache entries (infos, cov=None, maneuvers=[], event=None) are ignored."""
    d = sv._data
    out = [np.asarray(sv.base if sv.base is not None else sv, dtype=float).tobytes().hex()]
    for k in sorted(d):
        v = d[k]
        if k == "infos" or (k in ("cov", "event") and v is None) or (k == "maneuvers" and not v):
            continue
        if k == "date":
            out.append(("date", v._d, v._s, str(v.scale)))
        elif k in ("form", "frame"):
            out.append((k, getattr(v, "name", str(v))))
        elif k == "propagator":
            out.append((k, type(v).__name__))
        elif k == "tle":
            out.append((k, v.text))
        elif k == "maneuvers":
            out.append((k, tuple((type(m).__name__, m.date._d, m.date._s, np.asarray(m._dv, dtype=float).tobytes().hex(), str(m.frame)) for m in v)))
        elif isinstance(v, (int, float, str, type(None), bool)):
            out.append((k, v))
        else:
            out.append((k, type(v).__name__))
    return tuple(out)


# ---------------------------------------------------------------------------
# part A


def input_class(fx, start, span, step, form):
    direction = "backward" if span < 0 else ("zero-span" if span == 0 else "forward")
    short = ""
    if fx.numerical and span >= 0:
        nodes = math.ceil(span / DELTA) + 1
        interpolated = not (form in KWFORMS and step is None)
        if nodes < 8 and interpolated:
            short = "short-span"
    return direction, short


def build_kwargs(fx, start, stop, step, form):
    from datetime import timedelta
    from beyond.dates import Date

    span = stop - start
    if form in KWFORMS:
        kw = {}
        if form == "startNone":
            kw["start"] = None
        elif form not in NOSTART:
            kw["start"] = fx.at(start)
        kw["stop"] = timedelta(microseconds=span) if form in ("sss-td", "nostart-td") else fx.at(stop)
        if step is not None:
            kw["step"] = timedelta(microseconds=-step if form == "sss-neg" else step)
        if form == "real":
            kw["real_steps"] = True
    elif form == "range":
        st = step if span >= 0 else -step
        kw = dict(dates=Date.range(fx.at(start), fx.at(stop), timedelta(microseconds=st), inclusive=True))
    elif form == "list":
        kw = dict(dates=[fx.at(u) for u in expected_dates(fx, start, stop, step)])
    elif form == "gen":
        kw = dict(dates=(fx.at(u) for u in expected_dates(fx, start, stop, step)))
    else:
        raise ValueError(form)
    return kw


def station_for(pname):
    """A ground station under the orbit at its epoch (test data, chosen with the library's own conversions; created once)."""
    cache = _G.setdefault("stations", {})
    if pname not in cache:
        from beyond.frames import create_station

        fx = Fix(pname)
        sph = fx.obj.copy(frame="ITRF", form="spherical")
        cache[pname] = create_station("C08" + pname, (math.degrees(float(sph.phi)), math.degrees(float(sph.theta)), 0.0))
    return cache[pname]


def elevation(pname, y, date):
    from beyond.orbits import StateVector

    fx = Fix(pname)
    sv = StateVector(y, date, "cartesian", fx.obj.frame)
    return float(sv.copy(frame=station_for(pname), form="spherical").phi)


def call_iter(fx, start, stop, step, form, entry="iter"):
    kw = build_kwargs(fx, start, stop, step, form)
    if entry == "visibility":
        return station_for(fx.pname).visibility(fx.obj, **kw)
    return getattr(fx.obj, entry)(**kw)


def applicable(pname, sname, spname, stname, form, entry):
    """Static filter used by units(): combinations that are not a distinct request are not generated."""
    span = dict(SPANS)[spname]
    if form == "sss-neg" and (span >= 0 or stname == "own"):
        return False
    if form in NOSTART and sname != "at":
        return False
    if form == "gen" and stname != "D":
        return False
    if form in ("range", "list", "gen") and stname == "own":
        return False
    if form == "real" and (stname != "own" or pname not in ("KeplerNum", "KeplerNumMan")):
        return False
    if entry == "visibility" and (stname != "D" or form not in ("sss", "sss-td")):
        return False
    return True


@guarded
def check_contract(case, t):
    pname, sname, spname, stname, form = case["prop"], case["start"], case["span"], case["step"], case["form"]
    entry = case.get("entry", "iter")
    fx = Fix(pname)
    start = dict(STARTS)[sname]
    span = dict(SPANS)[spname]
    step = dict(STEPS)[stname]
    if form in NOSTART and fx.is_ephem:
        start = fx.nodes_us[0]  # "keeps the same property as the generating ephemeris"
    stop = start + span
    key = ("A", pname, sname, spname, stname, form, entry)
    if step is None and fx.own is None and not fx.is_ephem:
        t.exclude("step=None on a propagator without a step of its own (outside 'every (start, stop, step)')")
        return
    if fx.has_man and fx.numerical and (start % DELTA or step not in (None, DELTA)):
        t.exclude("numerical propagation through impulses: a date off the march grid is interpolated across the velocity jump and the "
                  "impulse is applied at the first node after its date (grid-relative by design, C17): only epoch-anchored grids compared")
        return
    if fx.is_ephem and (min(start, stop) < fx.nodes_us[0] or max(start, stop) > fx.nodes_us[-1]):
        t.exclude("range outside the ephemeris (documented ValueError)")
        return
    exp = expected_dates(fx, start, stop, step)
    direction, short = input_class(fx, start, span, step, form)
    # all entry points (iter / ephemeris / ephem / visibility) share the stream: one signature per defect, entry kept in the case
    site = ("Ephem" if fx.is_ephem else "KeplerNum" if fx.numerical else "CW" if pname == "CWman" else pname) + ".iter"
    if entry == "ephem":
        exp = sorted(exp)  # an Ephem object is a table ordered by date, not a stream
    cls = short or direction
    t.ev(key if (len(exp) >= 2 or span <= 0) else None)
    t.state(key)
    clause = "iteration yields exactly start + k*step, first to last inclusive, none beyond stop, forward and backward"
    what = f"{pname}.{entry} start={sname} span={spname} step={stname} form={form}"
    if entry == "visibility":
        # the station only keeps the points above its horizon: filter the expected dates with the direct propagation
        keep = []
        for u in exp:
            y, why = direct(pname, u)
            if y is None:
                t.fail(f"{site}/direct-propagate-{why.split(':')[0]}", "a direct propagation to a requested date returns the state of that date", case,
                       u * 1e-6, why, f"{what}: direct propagate on a fresh object: {why}")
                return
            el = elevation(pname, y, fx.at(u))
            if abs(el) < 1e-7:
                t.exclude("visibility: a point within 1e-7 rad of the horizon (undecidable)")
                return
            if el > 0:
                keep.append(u)
        exp = keep
    # ---- execute ----------------------------------------------------------------------------------
    try:
        it = call_iter(fx, start, stop, step, form, entry)
        got = list(it)
        t.trans(len(got) + 1)
    except LIBERR as e:
        t.outcome(("A", pname, "raises", type(e).__name__))
        if form in ("list", "gen") and isinstance(e, AttributeError):
            cls = "dates-list"
        elif form == "startNone":
            cls = "start-None"
        t.fail(f"{site}/{cls}/raises-{type(e).__name__}", clause, case, [u * 1e-6 for u in exp], repr(e)[:200],
               f"{what}: {type(e).__name__}: {str(e)[:150]}")
        return
    got_us = [fx.us(o.date) for o in got]
    if entry == "ephem" and span < 0:
        # compare in the (descending) order of the request so that the symptom classification below applies
        got, got_us, exp = got[::-1], got_us[::-1], exp[::-1]
    t.outcome(("A", pname, "n", len(got_us) == len(exp)))
    if got_us != exp:
        grid = set(exp) | (set(range(exp[0], exp[0] + 40 * abs(exp[1] - exp[0]) + 1, abs(exp[1] - exp[0]))) if len(exp) > 1 and span > 0 else set())
        if not got_us:
            sym = "empty"
        elif not exp:
            sym = "wrong-dates"
        elif got_us[0] != exp[0]:
            sym = "wrong-first"
        elif span > 0 and len(exp) > 1 and any(u not in grid for u in got_us):
            sym = "irregular-dates"  # dates that are not start + k*step at all
        elif (span >= 0 and max(got_us) > stop) or (span < 0 and min(got_us) < stop):
            sym = "beyond-stop"
        elif got_us == exp[: len(got_us)]:
            sym = "ends-early"
        else:
            sym = "wrong-dates"
        t.fail(f"{site}/{cls}/{sym}", clause, case, [u * 1e-6 for u in exp], [u * 1e-6 for u in got_us],
               f"{what}: expected {len(exp)} dates " + (f"[{exp[0]*1e-6}..{exp[-1]*1e-6}] s" if exp else "") +
               f", got {len(got_us)}" + (f" [{got_us[0]*1e-6}..{got_us[-1]*1e-6}] s" if got_us else ""))
    # ---- states: equal to a direct propagation on a fresh object ----------------------------------
    worst = None
    direct_failed = False
    tol = fx.tol + (1e-5 if entry == "visibility" else 0.0)
    for o, u in zip(got, got_us):
        yd, why = direct(pname, u)
        if yd is None:
            if not direct_failed:
                direct_failed = True
                t.fail(f"{site}/direct-propagate-{why.split(':')[0]}", "a direct propagation to a requested date returns the state of that date", case,
                       u * 1e-6, why, f"{what}: direct propagate on a fresh object: {why}")
            continue
        t.trans()
        if entry == "visibility":
            yo = A(o.copy(frame=fx.obj.frame, form="cartesian"))
        else:
            yo = A(o if str(o.form) == "cartesian" else o.copy(form="cartesian"))
        # velocity weighted by 1000 s (orbits), 1 s (relative motion, states of metres) or 10 s (through the station frame and back:
        # the round trip through a rotating frame is C02's subject)
        wv = 10.0 if entry == "visibility" else 1.0 if fx.pname.startswith("CW") else 1e3
        err = max(float(np.linalg.norm(yo[:3] - yd[:3])), float(np.linalg.norm(yo[3:] - yd[3:])) * wv)
        lab = "re-sampled" if fx.tol > 1e-5 else "analytical"
        if fx.has_man:
            lab += ", maneuvers"
        if not t.margin(f"A: yielded state vs direct propagate / tol ({lab})", err, tol):
            if worst is None or err > worst[0]:
                worst = (err, u, yo, yd)
    if worst is not None:
        err, u, yo, yd = worst
        suffix = ""
        if fx.has_man:
            suffix = "/maneuvers/march-crossing-the-epoch-dated-impulse" if (fx.numerical and start < 0 <= max(got_us)) else "/maneuvers"
        t.fail(f"{site}/{cls}/state-differs-from-direct-propagate" + suffix,
               "each yielded state equals a direct propagation to that date", case,
               [float(x) for x in yd], [float(x) for x in yo], f"{what}: at {u*1e-6} s deviation {err:.3e} (tol {tol:.2e})")
    # ---- a yielded state is never one of the stored / bound objects ----------------------------------
    stored = fx.initial_orbits() + ([fx.obj.propagator.orbit] if (not fx.is_ephem and getattr(fx.obj.propagator, "orbit", None) is not None) else [])
    if any(o is x for o in got for x in stored):
        t.fail(f"{site}/yielded-state-aliases-source", "yielded states are new objects: changing them cannot change the source", case, "new objects",
               "a yielded state IS a stored / bound orbit", what)
    # ---- the initial orbit and the orbit bound to the propagator are untouched ------------------------
    fresh = Fix(pname)
    if [dump_data(x) for x in fx.initial_orbits()] != [dump_data(x) for x in fresh.initial_orbits()]:
        t.fail(f"{site}/initial-orbit-modified", "the initial orbit object is never modified", case, "unchanged", "changed", what)
    if not fx.is_ephem and fx.bound() is not None and fx.bound() != fresh_bound(pname):
        t.fail(f"{site}/bound-orbit-modified", "propagation is a pure function of (initial orbit, date): the propagator's copy of the orbit is not altered by use",
               case, str(fresh_bound(pname))[:300], str(fx.bound())[:300], what)


# ---------------------------------------------------------------------------
# part P : dates exactly k propagator steps from the epoch, k = 1..6 before and after (propagate target and iteration start)

P_PROPS = ["Sgp4", "Kepler", "J2", "NonePropagator", "KeplerNum", "KeplerNumA", "CW", "CWman", "Ephem"]


@guarded
def check_near_epoch(case, t):
    from datetime import timedelta

    pname, k = case["prop"], case["k"]
    fx = Fix(pname)
    site = ("Ephem" if fx.is_ephem else "KeplerNum" if fx.numerical else "CW" if pname == "CWman" else pname)
    step = timedelta(microseconds=DELTA)
    key = ("P", pname, k)
    t.ev(key)
    t.state(key)
    # reference stream anchored 8 steps before the epoch (a start that far away is not a 'near' date), cached per process
    cache = _G.setdefault("refstream", {})
    if pname not in cache:
        try:
            ref = Fix(pname)
            items = list(ref.obj.iter(start=ref.at(-8 * DELTA), stop=ref.at(16 * DELTA), step=step))
            cache[pname] = {ref.us(o.date): A(o if str(o.form) == "cartesian" else o.copy(form="cartesian")) for o in items}
        except LIBERR as e:
            cache[pname] = f"{type(e).__name__}: {str(e)[:160]}"
    ref = cache[pname]
    if isinstance(ref, str):
        t.fail(f"{site}/near-epoch-grid/reference-stream-raises", "iteration over [epoch - 8 steps, epoch + 16 steps] yields states", case, "states", ref)
        return
    if sorted(ref) != [j * DELTA for j in range(-8, 17)]:
        t.fail(f"{site}/near-epoch-grid/reference-stream-dates", "iteration yields exactly start + k*step", case, "25 dates every 60 s", [u * 1e-6 for u in sorted(ref)][:30])
        return
    wv = 1.0 if pname.startswith("CW") else 1e3
    clause = "a date a whole number of steps from the epoch is an ordinary date: same state whatever the request"
    # ---- propagate(epoch + k steps) ---------------------------------------------------------------------------------------
    u = k * DELTA
    try:
        p = fx.obj.propagate(fx.at(u))
        t.trans()
        got = fx.us(p.date)
        if got != u:
            t.fail(f"{site}/near-epoch-grid/propagate-wrong-date", clause, case, u * 1e-6, got * 1e-6, f"{pname}: propagate(epoch {k:+d} steps) returned a state dated {got*1e-6} s")
        else:
            y = A(p if str(p.form) == "cartesian" else p.copy(form="cartesian"))
            err = max(float(np.linalg.norm(y[:3] - ref[u][:3])), float(np.linalg.norm(y[3:] - ref[u][3:])) * wv)
            if not t.margin("P: propagate(epoch + k steps) vs stream anchored 8 steps before the epoch / tol", err, fx.tol):
                t.fail(f"{site}/near-epoch-grid/propagate-state", clause, case, [float(x) for x in ref[u]], [float(x) for x in y],
                       f"{pname}: propagate(epoch {k:+d} steps) deviates by {err:.3e} (tol {fx.tol:.2e})")
    except LIBERR as e:
        t.fail(f"{site}/near-epoch-grid/propagate-raises-{type(e).__name__}", clause, case, "state", repr(e)[:200], f"{pname}: propagate(epoch {k:+d} steps)")
    # ---- iteration STARTING at epoch + k steps (9 steps long: no short-span re-sampling issue) ---------------------------------
    fx = Fix(pname)
    try:
        items = list(fx.obj.iter(start=fx.at(u), stop=fx.at(u + 9 * DELTA), step=step))
        t.trans(len(items))
    except LIBERR as e:
        t.fail(f"{site}/near-epoch-grid/iter-raises-{type(e).__name__}", clause, case, "states", repr(e)[:200], f"{pname}: iter(start=epoch {k:+d} steps)")
        return
    got = [fx.us(o.date) for o in items]
    exp = [u + j * DELTA for j in range(10)]
    if got != exp:
        t.fail(f"{site}/near-epoch-grid/iter-dates", "iteration yields exactly start + k*step", case, [x * 1e-6 for x in exp], [x * 1e-6 for x in got],
               f"{pname}: iter(start=epoch {k:+d} steps, 9 steps) yielded {len(got)} dates [{got[0]*1e-6 if got else None}..{got[-1]*1e-6 if got else None}] s")
        return
    worst = 0.0
    for o, uu in zip(items, got):
        y = A(o if str(o.form) == "cartesian" else o.copy(form="cartesian"))
        worst = max(worst, float(np.linalg.norm(y[:3] - ref[uu][:3])), float(np.linalg.norm(y[3:] - ref[uu][3:])) * wv)
    if not t.margin("P: iteration started at epoch + k steps vs stream anchored 8 steps before the epoch / tol", worst, fx.tol):
        t.fail(f"{site}/near-epoch-grid/iter-state", clause, case, "reference stream", worst, f"{pname}: iter(start=epoch {k:+d} steps) deviates by {worst:.3e} (tol {fx.tol:.2e})")


# ---------------------------------------------------------------------------
# part E : requests touching exactly the first / last recorded date of an ephemeris (every interpolator)


@guarded
def check_ephem_edges(case, t):
    from datetime import timedelta
    from beyond.dates import Date

    pname, req = case["prop"], case["req"]
    fx = Fix(pname)
    first, last = fx.nodes_us[0], fx.nodes_us[-1]
    n = len(fx.nodes_us) - 1
    node_state = {u: A(o) for u, o in zip(fx.nodes_us, fx.obj._orbits)}
    key = ("E", pname, req)
    t.ev(key)
    t.state(key)
    clause = "dates from the first to the last recorded one, both included, are propagated / yielded"
    div = next(d for d in (3, 4, 5, 7, 2) if n % d == 0)  # a step dividing the whole table
    mid = fx.nodes_us[n // 2] + DELTA // 3
    td = lambda us: timedelta(microseconds=us)
    try:
        if req == "propagate-first":
            got, exp = [fx.obj.propagate(fx.at(first))], [first]
        elif req == "propagate-last":
            got, exp = [fx.obj.propagate(fx.at(last))], [last]
        elif req == "iter-native":
            got, exp = list(fx.obj.iter()), list(fx.nodes_us)
        elif req == "iter-native-to-last":
            got, exp = list(fx.obj.iter(start=fx.at(0), stop=fx.at(last))), [u for u in fx.nodes_us if u >= 0]
        elif req == "iter-step-dividing":
            got, exp = list(fx.obj.iter(start=fx.at(first), stop=fx.at(last), step=td(div * DELTA))), list(range(first, last + 1, div * DELTA))
        elif req == "iter-step-node":
            got, exp = list(fx.obj.iter(start=fx.at(0), stop=fx.at(last), step=td(DELTA))), list(range(0, last + 1, DELTA))
        elif req == "iter-step-half":
            got, exp = list(fx.obj.iter(stop=fx.at(last), step=td(DELTA // 2))), list(range(first, last + 1, DELTA // 2))
        elif req == "iter-stop-timedelta":
            got, exp = list(fx.obj.iter(start=fx.at(0), stop=td(last), step=td(DELTA))), list(range(0, last + 1, DELTA))
        elif req == "dates-list":
            ds = [first, mid, last]
            got, exp = list(fx.obj.iter(dates=[fx.at(u) for u in ds])), ds
        elif req == "dates-list-reversed":
            ds = [last, mid, first]
            got, exp = list(fx.obj.iter(dates=[fx.at(u) for u in ds])), ds
        elif req == "dates-range":
            got = list(fx.obj.iter(dates=Date.range(fx.at(first), fx.at(last), td(div * DELTA), inclusive=True)))
            exp = list(range(first, last + 1, div * DELTA))
        elif req == "ephem-subset":
            got, exp = list(fx.obj.ephem(start=fx.at(0), stop=fx.at(last), step=td(2 * DELTA))), list(range(0, last + 1, 2 * DELTA))
        else:
            raise ValueError(req)
        t.trans(len(got))
    except LIBERR as e:
        t.fail(f"Ephem.iter/table-edges/raises-{type(e).__name__}", clause, case, "states", repr(e)[:200],
               f"{pname} (method {fx.obj.method}, order {fx.obj.order}) {req}: {type(e).__name__}: {str(e)[:150]}")
        return
    got_us = [fx.us(o.date) for o in got]
    t.outcome(("E", pname, req, got_us == exp))
    if got_us != exp:
        t.fail("Ephem.iter/table-edges/wrong-dates", clause, case, [u * 1e-6 for u in exp][:40], [u * 1e-6 for u in got_us][:40],
               f"{pname} {req}: expected {len(exp)} dates [{exp[0]*1e-6}..{exp[-1]*1e-6}] s, got {len(got_us)}")
        return
    worst = 0.0
    for o, u in zip(got, got_us):
        if u in node_state:  # an interpolator reproduces its nodes
            worst = max(worst, float(np.linalg.norm((A(o) - node_state[u])[:3])))
    if not t.margin("E: state yielded at a recorded date vs the recorded state / 1e-6 m", worst, 1e-6):
        t.fail("Ephem.iter/table-edges/node-state", "at a recorded date the recorded state is returned", case, 0.0, worst, f"{pname} {req}: {worst:.3e} m")
    if any(o is x for o in got for x in fx.obj._orbits):
        t.fail("Ephem.iter/yielded-state-aliases-source", "yielded states are new objects: changing them cannot change the source", case, "new objects",
               "a yielded state IS a stored orbit", f"{pname} {req}")


E_REQS = ["propagate-first", "propagate-last", "iter-native", "iter-native-to-last", "iter-step-dividing", "iter-step-node", "iter-step-half",
          "iter-stop-timedelta", "dates-list", "dates-list-reversed", "dates-range", "ephem-subset"]


# ---------------------------------------------------------------------------
# part X : interleaved use of two orbits created by propagator NAME, in-place change of the INITIAL orbit between iterations,
#          request dates labelled in another time scale

X_NAMED = ["Sgp4", "Kepler", "J2", "NonePropagator"]
X_MEANFORM = {"Kepler": "keplerian_mean", "J2": "keplerian_mean", "Sgp4": "TLE", "KeplerNum": "keplerian_mean"}
X_SCALE = ["Sgp4", "Kepler", "J2", "NonePropagator", "KeplerNum", "CW", "Ephem", "EphemLin"]


def _named_pair(pname):
    """Two different orbits, each created with the propagator given by NAME (a string)."""
    from beyond.orbits import Orbit
    from mc.ref import twobody

    if pname == "Sgp4":
        from beyond.io.tle import Tle

        o1, o2 = Tle(ISS).orbit(), Tle(ISS).orbit()
        o2[4] = o2[4] + 0.3
        return o1, o2
    mu = _G["mu"]
    o1 = Orbit(twobody.kep_to_cart(*MEO, mu), _G["date0"], "cartesian", "EME2000", pname)
    o2 = Orbit(twobody.kep_to_cart(2.0e7, 0.05, 0.5, 2.0, 1.5, 1.0, mu), _G["date0"], "cartesian", "EME2000", pname)
    return o1, o2


def _cart(o):
    return A(o if str(o.form) == "cartesian" else o.copy(form="cartesian"))


@guarded
def check_extra(case, t):
    from datetime import timedelta

    kind, pname = case["kind"], case["prop"]
    key = ("X", kind, pname, case.get("variant"))
    t.ev(key)
    t.state(key)
    step = timedelta(microseconds=DELTA)
    site = "Ephem" if pname in EPHEM_VARIANTS else pname
    if kind == "named-pair":
        variant = case["variant"]
        clause = "each yielded state equals a direct propagation of ITS orbit, whatever other orbits do in between"
        epoch = _named_pair(pname)[0].date
        at = lambda u: epoch + timedelta(microseconds=u)
        us = lambda d: (lambda x: x.days * 86400_000_000 + x.seconds * 1_000_000 + x.microseconds)(d - epoch)
        want = []
        for i in (0, 1):
            want.append({u: _cart(_named_pair(pname)[i].propagate(at(u))) for u in range(0, 8 * DELTA + 1, DELTA)})
        o1, o2 = _named_pair(pname)
        got = [[], []]
        if variant == "zip":
            for a, b in zip(o1.iter(start=at(0), stop=at(8 * DELTA), step=step), o2.iter(start=at(0), stop=at(8 * DELTA), step=step)):
                got[0].append(a)
                got[1].append(b)
        elif variant == "propagate-inside-iter":
            for a in o1.iter(start=at(0), stop=at(8 * DELTA), step=step):
                got[0].append(a)
                got[1].append(o2.propagate(a.date))
        else:  # alternate next() by hand, the second iterator created after the first has started
            g1 = o1.iter(start=at(0), stop=at(8 * DELTA), step=step)
            got[0].append(next(g1))
            g2 = o2.iter(start=at(0), stop=at(8 * DELTA), step=step)
            for a in g1:
                got[1].append(next(g2))
                got[0].append(a)
            got[1].extend(g2)
        t.trans(len(got[0]) + len(got[1]))
        for i in (0, 1):
            dates = [us(o.date) for o in got[i]]
            if dates != sorted(want[i]):
                t.fail(f"{pname}/interleaved-orbits-by-name/dates", clause, case, [u * 1e-6 for u in sorted(want[i])], [u * 1e-6 for u in dates], f"{pname} {variant}: orbit {i+1}")
                return
            worst = max(float(np.linalg.norm((_cart(o) - want[i][u])[:3])) for o, u in zip(got[i], dates))
            if not t.margin("X: interleaved orbits created by name vs direct propagate / 1e-6 m", worst, 1e-6):
                t.fail(f"{pname}/interleaved-orbits-by-name/state-of-the-other-orbit", clause, case, "own states", worst,
                       f"{pname} {variant}: orbit {i+1} yields states {worst:.3e} m from its own direct propagation")
                return
    elif kind == "initial-orbit-converted-in-place":
        clause = "results are a function of the (physical) initial orbit: converting it in place between two uses changes nothing"
        fx = Fix(pname)
        form0 = X_MEANFORM[pname]
        if str(fx.obj.form) != form0:
            fx.obj.form = form0  # the fixture's initial orbit is GIVEN in the mean-element / TLE form
        dates = [fx.at(u) for u in range(0, 8 * DELTA + 1, DELTA)]
        first = [_cart(o) for o in fx.obj.iter(dates=list(dates))] if not fx.numerical else [_cart(o) for o in fx.obj.iter(start=dates[0], stop=dates[-1])]
        for newform in case["variant"]:
            fx.obj.form = newform
        second = [_cart(o) for o in fx.obj.iter(dates=list(dates))] if not fx.numerical else [_cart(o) for o in fx.obj.iter(start=dates[0], stop=dates[-1])]
        third = [_cart(fx.obj.propagate(d)) for d in dates[1::3]]
        t.trans(len(first) + len(second) + len(third))
        ref = [direct(pname, fx.us(d))[0] for d in dates]
        if any(r is None for r in ref) or len(first) != len(ref) or len(second) != len(ref):
            t.fail(f"{site}/initial-orbit-converted-in-place/stream", clause, case, len(ref), [len(first), len(second)], f"{pname}")
            return
        tol = fx.tol + 1e-5  # + element <-> cartesian conversions of the initial orbit (C01's subject)
        w1 = max(float(np.linalg.norm((a - b)[:3])) for a, b in zip(first, ref))
        w2 = max(float(np.linalg.norm((a - b)[:3])) for a, b in zip(second + third, ref + ref[1::3]))
        t.margin("X: initial orbit given in mean-element / TLE form vs direct propagate / tol", w1, tol)
        if not t.margin("X: after converting the initial orbit in place vs direct propagate / tol", max(w1, w2), tol):
            t.fail(f"{site}/initial-orbit-converted-in-place/state", clause, case, "unchanged states", dict(before=w1, after=w2),
                   f"{pname}: initial orbit given as {form0}, converted in place to {case['variant']}: deviation before {w1:.3e} m, after {w2:.3e} m (tol {tol:.1e})")
    elif kind == "dates-in-another-scale":
        clause = "a date designates an instant whatever the time scale it is labelled in"
        scale = case["variant"]
        fx = Fix(pname)
        conv = lambda u: fx.at(u).change_scale(scale)
        lo, hi = DELTA, 9 * DELTA
        got = list(fx.obj.iter(start=conv(lo), stop=conv(hi), step=step))
        got.append(fx.obj.propagate(conv(4 * DELTA + 7_000_000)))
        t.trans(len(got))
        dates = [fx.us(o.date) for o in got]
        exp = list(range(lo, hi + 1, DELTA)) + [4 * DELTA + 7_000_000]
        if dates != exp:
            t.fail(f"{site}/dates-in-another-scale/dates", clause, case, [u * 1e-6 for u in exp], [u * 1e-6 for u in dates], f"{pname} scale {scale}")
            return
        worst = 0.0
        for o, u in zip(got, dates):
            r, why = direct(pname, u)
            if r is None:
                t.fail(f"{site}/direct-propagate-{why.split(':')[0]}", "a direct propagation to a requested date returns the state of that date", case, u * 1e-6, why)
                return
            worst = max(worst, float(np.linalg.norm((_cart(o) - r)[:3])))
        if not t.margin("X: request dated in another time scale vs the same instants in UTC / tol", worst, fx.tol):
            t.fail(f"{site}/dates-in-another-scale/state", clause, case, "same states", worst, f"{pname}: dates labelled {scale}: {worst:.3e} m (tol {fx.tol:.1e})")
    else:
        raise ValueError(kind)


def extra_cases():
    c = [dict(part="X", kind="named-pair", prop=p, variant=v) for p in X_NAMED for v in ("zip", "propagate-inside-iter", "alternate-next")]
    c += [dict(part="X", kind="initial-orbit-converted-in-place", prop=p, variant=v) for p in X_MEANFORM
          for v in (["cartesian"], ["keplerian"], ["cartesian", "keplerian_mean"], ["spherical", "cartesian"])]
    c += [dict(part="X", kind="dates-in-another-scale", prop=p, variant=sc) for p in X_SCALE for sc in ("TT", "TAI", "GPS")]
    return c


# ---------------------------------------------------------------------------
# part B

OPS_ORBIT = ["p1", "p2", "it1", "ab2", "itL", "itD", "eph", "q1", "mut"]
OPS_EPHEM = ["p1", "p2", "it1", "ab2", "itL", "itD", "eph", "itN", "abN", "res", "mut"]
T1, T2, TSTAR = 7 * DELTA + 13_000_000, -3 * DELTA, 5 * DELTA + 1_500_000
R1 = (0, 12 * DELTA, DELTA)
R2 = (-2 * DELTA, 9 * DELTA, int(0.7 * DELTA))
RSTAR = (DELTA, 11 * DELTA, int(1.25 * DELTA))


def ops_of(pname):
    return OPS_EPHEM if pname in EPHEM_VARIANTS else OPS_ORBIT


class HistoryViolation(Exception):
    def __init__(self, what, expected, observed):
        super().__init__(what)
        self.what, self.expected, self.observed = what, expected, observed


def thresholds(pname):
    """Listener thresholds (computed once per propagator on separate fresh objects): the watched cartesian coordinate
    crosses the threshold once inside R* wherever it is monotonic there, so that the observation contains events and
    a listener left over from an earlier iteration (prev far away, opposite sign) would produce a spurious one."""
    key = ("thr", pname)
    if key not in _G:
        span = RSTAR[1] - RSTAR[0]
        ys = [direct(pname, RSTAR[0] + int(f * span))[0] for f in (0.32, 0.41, 0.66, 0.77)]
        if any(y is None for y in ys):
            # the direct propagation itself is broken (reported by parts A / P): fall back to the initial coordinates
            y0 = A(Fix(pname).initial_orbits()[0].copy(form="cartesian"))
            ys = [y0, y0, y0, y0]
        _G[key] = (0.5 * (ys[0][0] + ys[1][0]), 0.5 * (ys[2][1] + ys[3][1]))
    return _G[key]


class World:
    """The shared objects of one history: one orbit (or ephemeris), its propagator, two listeners, a second orbit
    attached to the SAME propagator object, and the generators left suspended by earlier operations."""

    def __init__(self, pname):
        self.fx = Fix(pname)
        CL = _G["CoordListener"]
        th = thresholds(pname)
        self.L = [CL(0, float(th[0]), "L0"), CL(1, float(th[1]), "L1")]
        self.suspended = []  # [generator, expected remaining dates]
        self.other = None
        if not self.fx.is_ephem:
            o2 = Fix(pname).obj
            if pname == "Sgp4":
                o2[4] = o2[4] + 0.3  # mean anomaly of the TLE-form orbit
            elif pname.startswith("CW"):
                o2[0] = o2[0] + 150.0
            else:
                o2[:] = A(o2) * np.array([1.0, 1.0, 1.0, 1.001, 0.999, 1.0])
            o2.propagator = self.fx.obj.propagator
            self.other = o2

    def it(self, rng, listeners=None, own=False):
        from datetime import timedelta

        kw = dict(start=self.fx.at(rng[0]), stop=self.fx.at(rng[1]))
        if not own:
            kw["step"] = timedelta(microseconds=rng[2])
        if listeners is not None:
            kw["listeners"] = listeners
        return self.fx.obj.iter(**kw)

    def it_dates(self, rng, listeners, kind):
        from datetime import timedelta
        from beyond.dates import Date

        fx = self.fx
        if kind == "range":
            dates = Date.range(fx.at(rng[0]), fx.at(rng[1]), timedelta(microseconds=rng[2]), inclusive=True)
        else:
            dates = [fx.at(u) for u in range(rng[0], rng[1] + 1, rng[2])]
        return fx.obj.iter(dates=dates, listeners=listeners)

    def apply(self, op):
        fx = self.fx
        n = 0
        if op == "p1":
            fx.obj.propagate(fx.at(T1)); n = 1
        elif op == "p2":
            fx.obj.propagate(fx.at(T2)); n = 1
        elif op == "it1":
            n = len(list(self.it(R1)))
        elif op == "ab2":
            g = self.it(R2, self.L)
            next(g); next(g)
            self.suspended.append([g, None])
            n = 2
        elif op == "itL":
            n = len(list(self.it(R1, self.L)))
        elif op == "itD":  # explicit dates (a DateRange) with the shared listeners
            n = len(list(self.it_dates(R1, self.L, "range")))
        elif op == "eph":
            from datetime import timedelta

            e = fx.obj.ephem(start=fx.at(R1[0]), stop=fx.at(R1[1]), step=timedelta(microseconds=R1[2]))
            n = len(e)
        elif op == "mut":
            # what an iteration YIELDS belongs to the caller: convert / overwrite it in place, also through a derived ephemeris
            from datetime import timedelta

            yielded = list(self.it(R1))
            derived = [fx.obj.ephem(start=fx.at(R1[0]), stop=fx.at(R1[1]), step=timedelta(microseconds=R1[2]))]
            if fx.is_ephem:  # native step: the recorded states themselves are served
                yielded += list(fx.obj.iter())
                yielded += list(fx.obj.iter(start=fx.at(R1[0]), stop=fx.at(R1[1])))
                derived.append(fx.obj.ephem())
                derived.append(fx.obj.ephem(start=fx.at(R1[0]), stop=fx.at(R1[1])))
            stored = fx.initial_orbits() + ([fx.obj.propagator.orbit] if (not fx.is_ephem and getattr(fx.obj.propagator, "orbit", None) is not None) else [])
            for e in derived:
                yielded += list(e._orbits)
            if any(o is x for o in yielded for x in stored):
                raise HistoryViolation("yielded-state-aliases-source", "new objects", "a yielded state IS a stored / bound orbit")
            hill = fx.pname.startswith("CW")
            for e in derived:
                e.form = "spherical"
                if not hill:
                    e.frame = "ITRF"
            for o in yielded:
                if str(o.form) != "spherical":
                    o.form = "spherical"
                if not hill and o.frame.name != "ITRF":
                    o.frame = "ITRF"
                o[0] = o[0] + 1234.5
                o[4] = -o[4]
            n = len(yielded)
        elif op == "q1":  # another orbit bound to the same propagator object
            self.other.propagate(fx.at(T1)); n = 1
        elif op == "itN":  # ephemeris: its own nodes
            n = len(list(self.it(R1, own=True)))
        elif op == "abN":
            g = self.it(R2, own=True)
            exp = expected_dates(fx, R2[0], R2[1], None)
            a, b = next(g), next(g)
            self.suspended.append([g, exp[2:]])
            n = 2
        elif op == "res":  # resume the oldest own-step generator for one item
            for rec in self.suspended:
                if rec[1]:
                    want = rec[1].pop(0)
                    try:
                        o = next(rec[0])
                        got = fx.us(o.date)
                    except StopIteration:
                        got = "StopIteration"
                    n = 1
                    if got != want:
                        rec[1] = None
                        raise HistoryViolation("resumed-iterator", want * 1e-6, got if isinstance(got, str) else got * 1e-6)
                    break
        else:
            raise ValueError(op)
        return n

    def observe(self):
        fx = self.fx
        p = fx.obj.propagate(fx.at(TSTAR))
        def rec(items):
            return [(fx.us(o.date), A(o), o.event.info if getattr(o, "event", None) is not None else None) for o in items]

        stream = rec(self.it(RSTAR, self.L))
        # the same range requested through explicit dates with the same (now used) listeners: a DateRange for everybody,
        # a plain list where the propagator accepts one (KeplerNum does not: known finding of part A)
        alt = {"range": rec(self.it_dates(RSTAR, self.L, "range"))}
        if not fx.numerical:
            alt["list"] = rec(self.it_dates(RSTAR, self.L, "list"))
        obs = dict(
            prop=(fx.us(p.date), A(p)),
            stream=stream + [x for k in sorted(alt) for x in alt[k]],
            first=stream,
            alt=alt,
            initial=[dump_data(x) for x in fx.initial_orbits()],
        )
        return obs, 1 + len(obs["stream"])

    def hidden(self):
        fx = self.fx
        out = []
        po = getattr(getattr(fx.obj, "propagator", None), "orbit", None)
        out.append(None if po is None else dump_data(po))
        for l in self.L:
            out.append(None if l.prev is None else (fx.us(l.prev.date), A(l.prev).tobytes().hex()))
        if fx.is_ephem:
            out.append(getattr(fx.obj, "_i", None))
        out.append(tuple(None if r[1] is None else len(r[1]) for r in self.suspended))
        return tuple(out)


def compare_obs(a, b):
    """max state difference and list of structural differences between two observations."""
    diffs = []
    worst = 0.0
    if a["prop"][0] != b["prop"][0]:
        diffs.append("propagate date")
    worst = max(worst, float(np.max(np.abs(a["prop"][1] - b["prop"][1]))))
    sa, sb = a["stream"], b["stream"]
    if [(u, e) for u, _, e in sa] != [(u, e) for u, _, e in sb]:
        diffs.append(f"stream dates/events: {len(sa)} items vs {len(sb)} expected")
    else:
        for (u, y, e), (_, y2, _) in zip(sa, sb):
            worst = max(worst, float(np.max(np.abs(y - y2))))
    if a["initial"] != b["initial"]:
        diffs.append("initial orbit modified")
    return worst, diffs


@guarded
def check_history(case, t):
    pname, hist = case["prop"], case["history"]
    site = "Ephem" if pname in EPHEM_VARIANTS else pname
    clause = "results do not depend on earlier calls / re-used objects; the initial orbit is never modified"
    if "fresh_obs" not in _G or _G.get("fresh_for") != pname:
        w0 = World(pname)
        try:
            _G["fresh_obs"], _ = w0.observe()
        except LIBERR as e:
            _G["fresh_obs"] = ("raises", f"{type(e).__name__}: {str(e)[:160]}")
        _G["fresh_for"] = pname
    fresh = _G["fresh_obs"]
    if isinstance(fresh, tuple):
        t.fail(f"{site}/history/fresh-observation-{fresh[0]}", "propagate / iterate on brand-new objects returns states", case, "an observation", fresh[1],
               f"{pname}: the observation on fresh objects fails: {fresh[1]}")
        return
    w = World(pname)
    t.ev(("B", pname, tuple(hist)) if hist else None)
    try:
        for op in hist:
            t.trans(w.apply(op))
    except HistoryViolation as e:
        t.outcome(("B", pname, e.what))
        msg = (f"a suspended iterator resumed after other calls yields {e.observed} instead of {e.expected} s" if e.what == "resumed-iterator"
               else f"{e.observed} (expected: {e.expected})")
        t.fail(f"{site}/history-dependence/{e.what}", clause, case, e.expected, e.observed, f"{pname} history {hist}: {msg}")
        return
    except LIBERR as e:
        t.outcome(("B", pname, "op-raises"))
        t.fail(f"{site}/history/{hist[-1] if hist else ''}/raises-{type(e).__name__}", clause, case, "no exception", repr(e)[:200],
               f"{pname} history {hist}: operation raised {type(e).__name__}: {str(e)[:120]}")
        return
    try:
        obs, n = w.observe()
        t.trans(n)
    except LIBERR as e:
        t.fail(f"{site}/history/observe-raises-{type(e).__name__}", clause, case, "no exception", repr(e)[:200], f"{pname} history {hist}")
        return
    # within one observation: the listened stream over explicit dates equals the listened stream over (start, stop, step)
    for kind, alt in obs["alt"].items():
        a, b = obs["first"], alt
        same = [(u, e) for u, _, e in a] == [(u, e) for u, _, e in b]
        dev = max((float(np.max(np.abs(x[1] - y[1]))) for x, y in zip(a, b)), default=0.0) if same else float("inf")
        if not same or not t.margin("B: listened stream over dates= vs over (start, stop, step) / state tol", dev, w.fx.tol):
            t.fail(f"{site}/listened-stream/dates-{kind}-differs-from-start-stop-step",
                   "iterating explicit dates yields exactly those dates with the same events as the equivalent (start, stop, step) request, whatever the listeners saw before",
                   case, [(u * 1e-6, e) for u, _, e in a if e] + [len(a)], [(u * 1e-6, e) for u, _, e in b if e] + [len(b)],
                   f"{pname} after {hist}: dates={kind} stream has {len(b)} items / events {[(u*1e-6, e) for u, _, e in b if e]}, "
                   f"start-stop-step stream has {len(a)} items / events {[(u*1e-6, e) for u, _, e in a if e]}")
    worst, diffs = compare_obs(obs, fresh)
    t.state(("B", pname, [(u, y.tobytes().hex(), e) for u, y, e in obs["stream"]], obs["prop"][1].tobytes().hex(), tuple(map(str, obs["initial"])), w.hidden()))
    t.outcome(("B", pname, len(obs["stream"]), sum(1 for _, _, e in obs["stream"] if e)))
    ok = t.margin("B: observation after a history vs fresh objects (bitwise expected) / 1e-9", worst, 1e-9)
    if diffs or not ok:
        last = hist[-1] if hist else ""
        what = "initial-orbit-modified" if "initial orbit modified" in diffs else ("stream-differs" if diffs else "state-differs")
        t.fail(f"{site}/history-dependence/{what}", clause, case,
               dict(n=len(fresh["stream"]), events=[(u * 1e-6, e) for u, _, e in fresh["stream"] if e]),
               dict(n=len(obs["stream"]), events=[(u * 1e-6, e) for u, _, e in obs["stream"] if e], max_state_diff=worst, diffs=diffs),
               f"{pname} after {hist}: {diffs or ''} max |dy|={worst:.3e}")


# ---------------------------------------------------------------------------


def units(tier, seed):
    cfg = {"eop": "pass"}
    u = []
    for pname in PROPS:
        for entry in ("iter", "ephem", "ephemeris", "visibility"):
            if entry == "visibility" and pname not in ("Sgp4", "Kepler", "KeplerNum"):
                continue
            forms = FORMS if (entry == "iter" or (tier == "thorough" and entry != "visibility")) else ["sss", "sss-td"]
            for s, _ in STARTS:
                cases = [dict(part="A", prop=pname, start=s, span=sp, step=st, form=f, entry=entry)
                         for sp, _ in SPANS for st, _ in STEPS for f in forms if applicable(pname, s, sp, st, f, entry)]
                if cases:
                    u.append((cfg, dict(part="A", cases=cases)))
    for pname in P_PROPS:
        u.append((cfg, dict(part="P", cases=[dict(part="P", prop=pname, k=k) for k in range(-7, 8) if k])))
    xc = extra_cases()
    for i in range(0, len(xc), 12):
        u.append((cfg, dict(part="X", cases=xc[i : i + 12])))
    u.append((cfg, dict(part="E", cases=[dict(part="E", prop=pn, req=r) for pn in EPHEM_VARIANTS for r in E_REQS])))
    for pname in PROPS:
        # thorough: depth 4 for one fixture of each kind, depth 3 for their variants (J2, NonePropagator, the second/third KeplerNum, plain CW)
        depth = 4 if (tier == "thorough" and pname in ("Sgp4", "Kepler", "KeplerNum", "CWman", "Ephem")) else 3
        if tier == "quick" and pname in ("EphemLin", "EphemL2", "EphemL3"):
            depth = 2  # interpolator variants of the ephemeris: depth 2 in quick, 3 in thorough
        for first in [None] + ops_of(pname):
            if first is None:
                u.append((cfg, dict(part="B", prop=pname, prefix=[], depth=0)))
            else:
                for second in ([None] + ops_of(pname)) if depth >= 4 else [None]:
                    if second is None and depth >= 4:
                        u.append((cfg, dict(part="B", prop=pname, prefix=[first], depth=1)))
                    elif second is None:
                        u.append((cfg, dict(part="B", prop=pname, prefix=[first], depth=depth)))
                    else:
                        u.append((cfg, dict(part="B", prop=pname, prefix=[first, second], depth=depth)))
    return u


def run_unit(p, t):
    if p["part"] == "A":
        for c in p["cases"]:
            check_contract(c, t)
    elif p["part"] == "P":
        for c in p["cases"]:
            check_near_epoch(c, t)
    elif p["part"] == "E":
        for c in p["cases"]:
            check_ephem_edges(c, t)
    elif p["part"] == "X":
        for c in p["cases"]:
            check_extra(c, t)
    else:
        pname, prefix, depth = p["prop"], p["prefix"], p["depth"]

        def rec(hist):
            check_history(dict(part="B", prop=pname, history=hist), t)
            if len(hist) < depth:
                for op in ops_of(pname):
                    rec(hist + [op])

        rec(list(prefix))


def replay(case, t):
    if case["part"] == "A":
        check_contract(case, t)
    elif case["part"] == "P":
        check_near_epoch(case, t)
    elif case["part"] == "E":
        check_ephem_edges(case, t)
    elif case["part"] == "X":
        check_extra(case, t)
    else:
        check_history(case, t)
