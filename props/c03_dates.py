"""C03 — time scales, exact offsets, lawful date arithmetic (DESIGN.md §4 C03).

Exhaustive product  source scale x clock reading (day of the IERS table x seconds-of-day alphabet)
x target scale x second target scale  on the real `beyond.dates.Date`, against the integer reference
model `mc.ref.timescales` (own readers of finals.all / tai-utc.dat); arithmetic laws over a fixed
timedelta alphabet; `DateRange` as a tiny state machine against Python `range` over integer
microseconds; the three EOP policies in separate worker groups (process-global configuration).
"""

import logging
from datetime import datetime, timedelta

from mc.ref import timescales as ts
from mc.ref.timescales import DAY, TICKS, US, SCALES, EXACT

PROPERTY = "C03"
CLAIM = dict(
    text="Every clock reading of a finite alphabet (every day of the shipped IERS table in the thorough tier x 9 "
    "seconds-of-day values chosen at the day seams x 6 source scales) is built with the real Date constructors, "
    "converted to every other scale, back, and on through every third scale; stored instant, wall-clock reading, "
    "equality, ordering and hashing are compared with an independent integer model fed by its own readers of "
    "finals.all / tai-utc.dat. The arithmetic laws are checked on the full product of a 12-element timedelta "
    "alphabet, DateRange on the full product of its start/span/step/inclusive/label alphabet against Python range "
    "over integer microseconds, and the three missing-EOP policies in separately configured processes. "
    "Within these alphabets the check is exhaustive, so it covers the day-boundary, leap-adjacent and table-edge "
    "cases the hand-picked tests never touch.",
    note="Trusted: the IERS files themselves (data), Python int/Decimal/datetime arithmetic, the Astronomical "
    "Almanac expression for TDB-TT (the model's constants differ from the library's by 0.07 us, inside the 1 us "
    "clause). Clock readings other than the alphabet's seconds-of-day values are not visited.",
    technique="exhaustive product over finite input alphabets on the real code vs. independent integer reference model",
)
RULE = (
    "scales: one case = (configuration, source scale, day, second-of-day in the source clock); all 5 targets, all 25 "
    "two-hop paths, 3 constructors, ordering against +1 us / +5 us neighbours are evaluated inside it; non-trivial = "
    "every such case (source != target in every evaluation), distinct by (scale, day, second). arith: one case = "
    "(scale, day, second) x all 12 timedeltas x all 144 ordered pairs. range: one case = (start, span, step, "
    "inclusive, label, kind of stop). policy: one case = (configuration, scale, date in/out of the table)."
)
BOUNDS = {
    "quick": "scales: every 13th day of finals.all + 2 days either side of each of the 27 leap seconds + table ends, "
    "x 9 seconds-of-day x 6 scales; arith on every 193rd day (+ leap-adjacent); DateRange ranges up to 5 000 elements",
    "thorough": "scales: every tabulated day MJD first..last (read from the file) x 9 x 6; arith on every 13th day; "
    "DateRange ranges up to 60 000 elements",
}
ASSUMPTIONS = [
    "the instant denoted by a Date is its stored TAI pair (_d, _s) (anchor Date._d/_s); differences of stored "
    "fields are formed as (d1-d2)*86400 + (s1-s2), exact to 1.5e-11 s",
    "'UT1-UTC as tabulated for that day' is read as the value of the UTC day of the instant; where the clocks of "
    "the six scales sit on different calendar days (the <= 70 s seam at 0h) the value of either of those days is "
    "accepted for the *reading*, never for the same-instant clause",
    "IERS tables = /repo/tests/data/pole (finals.all rows first..last row carrying a Bulletin A UT1-UTC value)",
]
NOT_COVERED = (
    "sub-microsecond timedeltas (not representable), instants within 2 min of a leap second and instants whose "
    "clock in some scale falls on a day outside the table (excluded by the property's quantifier, counted), "
    "seconds-of-day outside the 9-value alphabet, Date.now()/strptime/matplotlib glue"
)

POLE = ts.POLE
CFG_MAIN = {"eop": "real", "policy": "pass"}
SODS_US = [0, 1, 500_000, 20_000_000, 43_200_123_456, 86_329_000_000, 86_370_000_000, 86_395_000_000, 86_399_999_999]
TD_US = []
for _v in (1, 500_000, 86_399_999_999, 86_400_000_000, 30 * 86_400_000_000, 2 * 86_400_000_000 + 123_456):
    TD_US += [_v, -_v]

_G = {}


# ---------------------------------------------------------------------------
# configuration


def setup(config):
    config = config or CFG_MAIN
    from beyond.config import config as bc

    pol = {} if config["policy"] == "history" else {"missing_policy": config["policy"]}
    if config["eop"] == "real":
        bc.update({"eop": dict({"folder": POLE, "type": "all"}, **pol)})
        _G["real"] = ts.Model(_tables())
        try:
            from beyond.dates.eop import EopDb

            EopDb.db()  # must load: otherwise 'pass' would silently zero everything
        except Exception as e:  # a library failure: reported as a violation by the first unit, never a pool crash
            import traceback

            _G["setup_error"] = repr(e) + "\n" + traceback.format_exc()[-1500:]
        # (that the library's table spans the same days as the reference reader's is established day by day by
        # the 'eopdb' part through the public EopDb.get, inside and outside the table)
    else:
        bc.update({"eop": dict({"folder": "/nonexistent/verif-no-eop-here"}, **pol)})
    _G["zero"] = ts.Model(None)
    _G["config"] = dict(config)
    h = _Capture()
    lg = logging.getLogger("beyond")
    lg.addHandler(h)
    lg.setLevel(logging.DEBUG)
    lg.propagate = False
    _G["log"] = h


class _Capture(logging.Handler):
    def __init__(self):
        super().__init__(level=logging.DEBUG)
        self.records = []

    def emit(self, record):
        self.records.append((record.levelno, record.name))


_TB = {}


def _tables():
    if "tb" not in _TB:
        _TB["tb"] = ts.Tables(POLE)
    return _TB["tb"]


# ---------------------------------------------------------------------------
# observation helpers (the only places where library objects are read)


def clock_ticks(date):
    dt = date.datetime
    return ts.mjd_from_ymd(dt.year, dt.month, dt.day) * DAY + (
        (dt.hour * 3600 + dt.minute * 60 + dt.second) * 1_000_000 + dt.microsecond
    ) * US


def stored_minus(date, inst):
    """stored TAI instant of `date` minus model instant [s]"""
    return (date._d - inst // DAY) * 86400.0 + (date._s - (inst % DAY) / TICKS)


def stored_diff(b, a):
    return (b._d - a._d) * 86400.0 + (b._s - a._s)


def dt_of(clock):
    day, y, m, d, H, Mi, S, us, rest = ts.split_clock(clock)
    assert rest == 0
    return datetime(y, m, d, H, Mi, S, us)


def check_view(x, t, case, what):
    """the public (d, s) reading of a date: integer day, 0 <= s < 86400, same reading as the datetime view"""
    d, sec = x.d, x.s
    t.ev()
    if not (isinstance(d, int) or float(d).is_integer()) or not (0.0 <= sec < 86400.0):
        t.fail("Date.d-s/not-normalised", "the (d, s) reading of a date is a whole day number and 0 <= s < 86400", case,
               "integer d, 0 <= s < 86400", [d, repr(sec)], f"{what}: {x.datetime.isoformat()} {x.scale.name} shows d={d!r}, s={sec!r}")
        return
    got = clock_ticks(x)
    view = (d - got // DAY) * 86400.0 + (sec - (got % DAY) / TICKS)
    if not (abs(view) <= 1e-6 + 1e-9):
        t.fail("Date.d-s/disagrees-with-datetime", "the (d, s) view and the datetime view show the same reading", case, 0.0, view, what)


def cls_of(*scales):
    u = any(s == "UT1" for s in scales)
    d = any(s == "TDB" for s in scales)
    return "UT1+TDB" if u and d else "UT1" if u else "TDB" if d else "exact"


def pick_model(cfg, days):
    """model applicable to a set of clock days: real table, zero corrections, or None (table edge)"""
    if cfg["eop"] != "real":
        return _G["zero"]
    real = _G["real"]
    cov = [real.covered(d) for d in days]
    if all(cov):
        return real
    if not any(cov):
        return _G["zero"]
    return None


# ---------------------------------------------------------------------------
# part 1: scales


def check_scales(case, t):
    from beyond.dates import Date

    cfg, X, D, sod_us = case["config"], case["src"], case["day"], case["sod_us"]
    clock0 = D * DAY + sod_us * US
    EDGE = "clock day of some scale outside the IERS table (table edge)"
    m = pick_model(cfg, (D,))
    if m is _G["zero"] and cfg["eop"] == "real" and pick_model(cfg, (D - 1, D, D + 1)) is not m:
        t.exclude(EDGE)
        return
    at_edge = pick_model(cfg, (D - 1, D, D + 1)) is not m
    try:
        insts = m.tai_from_clock(X, clock0)
        if len(insts) != 1:
            t.exclude(EDGE if at_edge else "UT1 reading inside the 0h step of the tabulated UT1-UTC: no unique instant")
            return
        inst = insts[0]
        if m.near_leap(inst):
            t.exclude("within 2 min of a leap second")
            return
        clocks = m.clocks(inst)
    except KeyError:
        t.exclude(EDGE)
        return
    # calendar days shown by the six clocks at this instant; a reading within 2 us of 0h counts for both days (the
    # library rounds readings to the microsecond, which can carry a converted reading across midnight)
    days = sorted(set((c + e) // DAY for c in clocks.values() for e in (-2 * US, 0, 2 * US)))
    if cfg["eop"] == "real" and pick_model(cfg, days) is not m:
        t.exclude(EDGE)
        return
    seam = len(days) > 1
    utc_day = clocks["UTC"] // DAY
    step = max(m.max_dut1_step(d) for d in days) / TICKS  # one day's change of UT1-UTC [s]

    step_t = max(m.max_dut1_step(d) for d in days)  # the same in ticks

    INEXACT = ("UT1", "TDB")
    DOUBLE = "Date.datetime/double-rounding/conversion-from-UT1-or-TDB-off-by-up-to-1.5us"

    def classify(hops, delta, default, shown=None, model=False, allow=0.0):
        """signature of a failed comparison over the library hops [(p, q), ...].
        Rounding budget of the implementation: `Date.datetime` of an UT1/TDB date is the difference of two terms
        each rounded to the microsecond (1 us), every conversion rounds its offset once more (0.5 us); a
        comparison made on the displayed reading of an UT1/TDB result adds the display error (1 us)."""
        budget = 1e-9 + allow
        for p, q in hops:
            budget += (1.0e-6 if p in INEXACT else 0.0) + (0.5e-6 if p in INEXACT or q in INEXACT else 0.0)
        if shown in INEXACT:
            budget += 1.0e-6
        if any("TDB" in h for h in hops):
            budget += 2.0e-8  # TDB-TT is evaluated at the TAI date one way and at the TDB reading the other way: 3.3e-10 x 33 s
        if model and any("TDB" in h for h in hops):
            budget += 1.0e-7  # constants of the Almanac expression vs the library's (6.6e-8 s) + argument in TAI/TT/TDB (3.3e-8 s)
        if abs(delta) <= budget:
            return DOUBLE
        # the day-indexed EOP lookup in the clock of the label: only in a seam, only with UT1, bounded by one
        # day's change of UT1-UTC per hop
        if seam and any("UT1" in h for h in hops) and abs(delta) <= len(hops) * (step + 3e-6):
            return "Date.change_scale/UT1/eop-day-of-label-clock"
        return default

    t.states_add(1)
    t.ev(("S", cfg["eop"], X, D, sod_us))
    t.outcome(("scales", X, "seam" if seam else "mid", m is _G["zero"]))

    # ---- constructors -------------------------------------------------------------------------------
    dt0 = dt_of(clock0)
    try:
        a = Date(dt0, scale=X)
        a2 = Date(D, sod_us / 1e6, scale=X)
        a3 = Date(dt0.year, dt0.month, dt0.day, dt0.hour, dt0.minute, dt0.second, dt0.microsecond, scale=X)
    except Exception as e:
        t.fail("Date.__init__/raises", "a Date can be built for every covered instant", case, "Date", repr(e))
        return
    t.trans(3)
    cands = [inst]
    if X == "UT1" and m.covered(D) and D != utc_day:
        # reading of "that day" as the day of the UT1 clock itself: equally tabulated, accepted
        cands.append(clock0 - m.dut1(D) + m.tai_utc(D))
    errs = [abs(stored_minus(a, c)) for c in cands]
    k = errs.index(min(errs))
    if X == "TDB":
        ok = t.margin("constructor: stored instant vs model, TDB [s] (tol 1 us)", errs[k], 1e-6, case)
    else:
        ok = t.margin("constructor: stored instant vs model, tabulated scales [s] (tol 1 ns)", errs[k], 1e-9, case)
    if not ok:
        t.fail(f"Date.__init__/{cls_of(X)}/offset-vs-model", "offsets between scales are exactly the defined/tabulated ones",
               case, 0.0, stored_minus(a, inst), f"Date({dt0.isoformat()}, scale={X}) stores TAI {a._d},{a._s!r}; model instant "
               f"{inst // DAY},{(inst % DAY) / TICKS!r}")
        return
    if k == 1:
        inst = cands[1]
        clocks = m.clocks(inst)
        t.outcome("UT1 source read with the table day of its own clock")
    try:
        a4 = Date(a)
        a5 = Date(D + (sod_us / 1e6) / 86400.0, scale=X)
        a6 = Date(D, scale=X) if sod_us == 0 else None
    except Exception as e:
        t.fail("Date.__init__/raises", "a Date can be built for every covered instant", case, "Date", repr(e))
        return
    t.trans(3 if a6 is not None else 2)
    check_view(a, t, case, f"Date(datetime, scale={X})")
    check_view(a2, t, case, f"Date(mjd, seconds, scale={X})")
    check_view(a4, t, case, f"Date(Date) in {X}")
    forms = [(a2, "(mjd, seconds)", 1e-9), (a3, "(y, m, d, H, M, S, us)", 1e-9), (a4, "(Date)", 1e-9)]
    if a6 is not None:
        forms.append((a6, "(int mjd)", 1e-9))
    for other, name, tol in forms:
        dd = abs(stored_diff(other, a))
        if not (dd <= tol) or other.scale.name != X:
            t.fail("Date.__init__/constructor-forms-disagree", "the constructor forms denote the same date", case, 0.0, dd, name)
    # a float MJD carries half an ulp of 5e4 days = 0.31 us
    if not t.margin("constructor from a float MJD vs the exact reading [s] (tol 0.4 us = double resolution)", abs(stored_diff(a5, a)), 0.4e-6, case):
        t.fail("Date.__init__/float-mjd", "Date(mjd float) is the date of that MJD to the resolution of a double", case, 0.0, stored_diff(a5, a))
    t.ev(n=len(forms) + 1)

    # ---- single hops ---------------------------------------------------------------------------------
    FLOAT = 1e-9  # slack for differences of stored float fields (values < 86470 s, ulp 1.5e-11, a few operations)
    B = {X: a}
    for Y in SCALES:
        if Y == X:
            continue
        try:
            b = a.change_scale(Y)
        except Exception as e:
            t.fail("Date.change_scale/raises", "conversion is defined for every covered instant", case, "Date", repr(e), f"{X}->{Y}")
            continue
        t.trans()
        t.ev()
        B[Y] = b
        cl = cls_of(X, Y)
        delta = stored_diff(b, a)
        ut1 = "UT1" in (X, Y)
        # (1) same instant
        if cl == "exact":
            eq = (a == b) and (b == a) and not (a < b) and not (a > b) and (a <= b) and (a >= b)
            okd = t.margin("same instant, UTC/TAI/TT/GPS: |stored difference| [s] (tol 1 ns)", abs(delta), FLOAT, case)
            if not eq:
                t.fail("Date.__eq__/exact-scales/converted-date-not-equal", "a date converted between UTC/TAI/TT/GPS compares equal",
                       case, True, [a == b, a < b, a > b, a <= b, a >= b], f"{X}->{Y} of {dt0.isoformat()}: stored difference {delta!r} s, "
                       f"_mjd {a._mjd!r} vs {b._mjd!r}")
            elif not okd:
                t.fail("Date.change_scale/exact/instant-moved", "same instant exactly between UTC/TAI/TT/GPS", case, 0.0, delta, f"{X}->{Y}")
        else:
            name = "same instant, UT1/TDB involved: |stored difference| [s] (tol 1 us)" + (", clocks on two days" if seam and ut1 else "")
            t.margin(name, abs(delta), 1e-6, case)
            if not (abs(delta) <= 1e-6 + FLOAT):
                t.fail(classify([(X, Y)], delta, f"Date.change_scale/{cl}/instant-moved"),
                       "a converted date denotes the same instant within 1 us when UT1 or TDB is involved", case, "<= 1e-6 s", delta,
                       f"{X}->{Y} of {dt0.isoformat()} {X}: result {b.datetime.isoformat()} {Y} stores an instant {delta * 1e6:+.3f} us away "
                       f"(the source shows itself as {a.datetime.isoformat()}; UT1-UTC of the source's EOP day {a.eop.ut1_utc!r}, of the result's {b.eop.ut1_utc!r})")
        # (2) the reading itself
        got = clock_ticks(b)
        if Y == "UT1":
            exp = [clocks["UTC"] + m.dut1(d) for d in days if m.covered(d)]
        else:
            exp = [clocks[Y]]
        err = min(abs(got - e) for e in exp)  # ticks
        if cl == "exact":
            if err != 0:
                t.fail("Date.change_scale/exact/reading-vs-model", "TT-TAI=32.184 s, TAI-GPS=19 s, TAI-UTC as tabulated, exactly", case,
                       exp[0], got, f"{X}->{Y}: off by {err / TICKS} s")
        else:
            t.margin("converted reading vs model, UT1/TDB involved [s] (tol 1 us)", err / TICKS, 1e-6, case)
            if err > 10:
                t.fail(classify([(X, Y)], err / TICKS, f"Date.change_scale/{cl}/reading-vs-model", shown=Y, model=True),
                       "UT1-UTC as tabulated for that day / TDB-TT its periodic term", case, exp, got,
                       f"{X}->{Y} of {dt0.isoformat()}: reading {b.datetime.isoformat()} is {err / US} us from the model's")
        # (2b) the (d, s) view: normalised, and the same reading as the datetime view to the resolution of the latter
        check_view(b, t, case, f"{X}->{Y}")

    # ---- two hops: round trips and path independence ---------------------------------------------------
    clock_a = clock0  # the reading the date was built from
    for Y, b in B.items():
        if Y == X:
            continue
        for C in SCALES:
            if C == Y:
                continue
            try:
                c2 = b.change_scale(C)
            except Exception as e:
                t.fail("Date.change_scale/raises", "conversion is defined for every covered instant", case, "Date", repr(e), f"{X}->{Y}->{C}")
                continue
            t.trans()
            t.ev()
            check_view(c2, t, case, f"{X}->{Y}->{C}")
            cl = cls_of(X, Y, C)
            if C == X:
                back = abs(clock_ticks(c2) - clock_a)  # ticks
                if "UT1" in (X, Y):
                    ok = back <= 20 + step_t
                    if seam:
                        t.margin("round trip reading with UT1, clocks on two days [s] (tol 2 us + one day's change of UT1-UTC)", back, 20 + step_t, case)
                    else:
                        t.margin("round trip reading with UT1, clocks on one day [s] (shown against 2 us)", back, 20, case)
                else:
                    ok = t.margin("round trip reading [s] (tol 2 us)", back, 20, case)
                if not ok:
                    t.fail(classify([(X, Y), (Y, X)], back / TICKS, f"Date.change_scale/{cl}/round-trip", shown=X,
                                    allow=step if "UT1" in (X, Y) else 0.0), "converts back to the same clock reading within 2 us (UT1: one day's change)",
                           case, clock_a, clock_ticks(c2), f"{X}->{Y}->{X} of {dt0.isoformat()}: comes back as {c2.datetime.isoformat()}")
                continue
            if C not in B:
                continue
            direct = B[C]
            dd = stored_diff(c2, direct)
            if cl == "exact":
                if not (c2 == direct) or not (abs(dd) <= FLOAT):
                    t.fail("Date.change_scale/exact/path-dependent", "A->B->C equals A->C between UTC/TAI/TT/GPS", case, 0.0, dd, f"{X}->{Y}->{C}")
            else:
                hops = [(X, Y), (Y, C), (X, C)]
                n = sum(1 for p, q in hops if cls_of(p, q) != "exact")
                name = "path independence with UT1/TDB [s] (tol 1 us per inexact hop)" + (", clocks on two days" if seam and "UT1" in (X, Y, C) else "")
                t.margin(name, abs(dd), n * 1e-6, case)
                if not (abs(dd) <= n * 1e-6 + FLOAT):
                    t.fail(classify(hops, dd, f"Date.change_scale/{cl}/path-dependent"), "A->B->C denotes the same instant as A->C",
                           case, f"<= {n}e-6 s", dd, f"{X}->{Y}->{C} vs {X}->{C} of {dt0.isoformat()} {X}")

    # ---- equality => same hash (pairs the property requires to be equal); pre-order independent of the label ----
    names = [s_ for s_ in B if s_ in EXACT] if X in EXACT else []
    for i, p in enumerate(names):
        for q in names[i + 1:]:
            t.ev()
            if B[p] == B[q] and hash(B[p]) != hash(B[q]):
                t.fail("Date.__hash__/equal-dates-different-hash", "a == b implies hash(a) == hash(b)", case, "equal hashes",
                       [[B[p]._d, repr(B[p]._s)], [B[q]._d, repr(B[q]._s)]],
                       f"{dt0.isoformat()} {X}: seen as {p} and as {q} the two dates compare equal, stored seconds {B[p]._s!r} vs {B[q]._s!r}")
                t.outcome("hash differs on equal dates")
    # ---- the target scale in every accepted form; identity conversions; Date(..., scale=<Timescale object>) ----
    for Y in SCALES:
        forms = [("name", Y), ("Timescale object of another date", B[Y].scale if Y in B else None)]
        if Y == X:
            forms.append(("the date's own Timescale object", a.scale))
        for fname, target in forms:
            if target is None:
                continue
            try:
                b2 = a.change_scale(target)
                a7 = Date(dt0, scale=target) if Y == X else None
            except Exception as e:
                t.fail("Date.change_scale/scale-given-as/raises", "a scale is accepted by name or as a Timescale object, for every pair including the identity",
                       case, "Date", repr(e), f"{X}->{Y}, target given as {fname}")
                continue
            t.trans(2 if a7 is not None else 1)
            t.ev()
            ref_, tol_ = (B[Y], FLOAT) if Y != X else (a, FLOAT if X in EXACT else 1e-6 + FLOAT)
            if b2.scale.name != Y or not (abs(stored_diff(b2, ref_)) <= tol_):
                t.fail(classify([(X, Y)], stored_diff(b2, ref_), "Date.change_scale/scale-given-as/different-result") if Y == X else
                       "Date.change_scale/scale-given-as/different-result", "the result does not depend on how the target scale is designated",
                       case, 0.0, stored_diff(b2, ref_), f"{X}->{Y}, target given as {fname}")
            if a7 is not None and not (abs(stored_diff(a7, a)) <= FLOAT):
                t.fail("Date.__init__/scale-given-as/different-result", "Date(..., scale=<Timescale object>) is Date(..., scale=<name>)", case, 0.0, stored_diff(a7, a), X)

    # ---- elapsed time between two dates of the SAME scale: the TAI interval, whatever the scale ----
    if not (X == "UT1" and seam):
        for span_d in (1, -1, 30, -30, 180):
            clock2 = clock0 + span_d * DAY
            try:
                i2 = m.tai_from_clock(X, clock2)
                if len(i2) != 1 or m.near_leap(i2[0]):
                    raise KeyError
                days2 = sorted(set((c + e) // DAY for c in m.clocks(i2[0]).values() for e in (-2 * US, 0, 2 * US)))
                if pick_model(cfg, days2) is not m or (X == "UT1" and len(days2) > 1):
                    raise KeyError
            except (KeyError, ts.Ambiguous):
                t.exclude("second date of an elapsed-time pair outside the table / in a leap-second window / UT1 reading in a day seam")
                continue
            try:
                d2 = Date(dt_of(clock2), scale=X)
                el = (d2 - a) / timedelta(microseconds=1)
                el_back = (a - d2) / timedelta(microseconds=1)
            except Exception as e:
                t.fail("Date.__sub__/raises", "the difference of two dates is defined", case, "timedelta", repr(e), f"{span_d} d in {X}")
                continue
            t.trans(3)
            t.ev()
            exp_us = (i2[0] - inst) / US
            tol_us = 0.0 if X in EXACT else 1.0 if X == "UT1" else 1.2  # two stored instants rounded to the us (+ TDB model constants)
            err = max(abs(el - exp_us), abs(el_back + exp_us))
            if X not in EXACT:
                t.margin("elapsed time between two dates of one scale (UT1, TDB) [us] (tol 1 us)", err, tol_us, case)
            if err > tol_us + 1e-6:
                t.fail(f"Date.__sub__/{cls_of(X)}/elapsed-time-between-dates-of-one-scale", "d2 - d1 is the elapsed (TAI) time between the two instants, whatever the scale both are labelled in",
                       dict(case, span_days=span_d), exp_us, el, f"{X}: {dt0.isoformat()} and the same reading {span_d:+d} d: d2 - d1 = {el} us, model {exp_us} us")

    try:
        later = {1: Date(dt_of(clock0 + 1 * US), scale=X), 5: Date(dt_of(clock0 + 5 * US), scale=X)}
    except Exception as e:
        t.fail("Date.__init__/raises", "a Date can be built for every covered instant", case, "Date", repr(e))
        return
    t.trans(2)
    for Y, b in B.items():
        for gap, l in later.items():
            if gap == 1 and cls_of(X, Y) != "exact":
                continue  # 1 us is the stated resolution with UT1/TDB: only the 5 us neighbour is decidable
            t.ev()
            obs = [b < l, b <= l, b == l, b > l, b >= l, l > b, l >= b, l == b, l < b, l <= b]
            exp = [True, True, False, False, False, True, True, False, False, False]
            if obs != exp:
                d = stored_diff(l, b)
                t.fail(classify([(X, Y)], d - gap * 1e-6, f"Date.order/{cls_of(X, Y)}/label-dependent"),
                       "ordering is consistent with the instants and independent of the label", case, exp, obs,
                       f"{dt0.isoformat()} {X} seen as {Y} vs the same clock +{gap} us in {X}")
    if len(t.samples) < 3:
        t.sample(dict(case, readings={s_: B[s_].datetime.isoformat() for s_ in B}))


# ---------------------------------------------------------------------------
# part 2: arithmetic laws


def _ok_instant(m, cfg, X, clock):
    """instant reachable by arithmetic is inside the quantifier? returns (reason or None, tai_utc ticks)"""
    try:
        inst = m.tai_from_clock(X, clock)[0]
        if m.near_leap(inst):
            return "arithmetic result within 2 min of a leap second", None
        cl = m.clocks(inst)
    except (KeyError, ts.Ambiguous):
        return "arithmetic result outside the IERS table", None
    if cfg["eop"] == "real" and not all(m.covered(c // DAY) for c in cl.values()):
        return "arithmetic result outside the IERS table", None
    return None, cl["TAI"] - cl["UTC"]


def check_arith(case, t):
    from beyond.dates import Date

    cfg, X, D, sod_us = case["config"], case["src"], case["day"], case["sod_us"]
    m = _G["real"] if cfg["eop"] == "real" else _G["zero"]
    clock0 = D * DAY + sod_us * US
    why, leap0 = _ok_instant(m, cfg, X, clock0)
    if why:
        t.exclude(why.replace("arithmetic result", "start"))
        return
    d = Date(dt_of(clock0), scale=X)
    t.trans()
    t.states_add(1)
    t.ev(("A", X, D, sod_us))
    sums = {}
    for tu in TD_US:
        why, leap = _ok_instant(m, cfg, X, clock0 + tu * US)
        if why is None and X == "UTC" and leap != leap0:
            why = "UTC arithmetic across a leap second"
        if why:
            t.exclude(why)
            continue
        td = timedelta(microseconds=tu)
        c1 = dict(case, t1=tu)
        try:
            e = d + td
            back = e - d
            f = d - timedelta(microseconds=-tu)
        except Exception as ex:
            t.fail("Date.__add__/raises", "Date +/- timedelta is defined", c1, "Date", repr(ex))
            continue
        t.trans(3)
        t.ev(n=3)
        sums[tu] = e
        if clock_ticks(e) != clock0 + tu * US or e.scale.name != X:
            t.fail(f"Date.__add__/{X}/wrong-reading", "d + t shows the clock advanced by t, same scale", c1, clock0 + tu * US, clock_ticks(e))
        if back != td:
            t.fail(f"Date.__sub__/{X}/(d+t)-d", "(d+t)-d = t to the microsecond", c1, tu, back / timedelta(microseconds=1))
        if clock_ticks(f) != clock0 + tu * US:
            t.fail(f"Date.__sub__/{X}/d-(-t)", "d - (-t) = d + t to the microsecond", c1, clock0 + tu * US, clock_ticks(f))
        if abs((e - d).total_seconds() - stored_diff(e, d)) > 1e-6:
            t.fail(f"Date.__sub__/{X}/elapsed", "the difference of two dates is the elapsed time", c1, tu / 1e6, stored_diff(e, d))
    for t1, e in sums.items():
        for t2 in TD_US:
            tot = t1 + t2
            why, leap = _ok_instant(m, cfg, X, clock0 + tot * US)
            if why is None and X == "UTC" and leap != leap0:
                why = "UTC arithmetic across a leap second"
            if why:
                t.exclude(why)
                continue
            c2 = dict(case, t1=t1, t2=t2)
            try:
                lhs = d + (timedelta(microseconds=t1) + timedelta(microseconds=t2))
                rhs = e + timedelta(microseconds=t2)
            except Exception as ex:
                t.fail("Date.__add__/raises", "Date +/- timedelta is defined", c2, "Date", repr(ex))
                continue
            t.trans(2)
            t.ev()
            if not (clock_ticks(lhs) == clock_ticks(rhs) == clock0 + tot * US):
                t.fail(f"Date.__add__/{X}/not-associative", "d+(t1+t2) = (d+t1)+t2 to the microsecond", c2, clock0 + tot * US,
                       [clock_ticks(lhs), clock_ticks(rhs)])
            elif not (abs(stored_diff(lhs, rhs)) <= 0.5e-6):
                t.fail(f"Date.__add__/{X}/not-associative", "d+(t1+t2) = (d+t1)+t2 to the microsecond", c2, 0.0, stored_diff(lhs, rhs))
    t.outcome(("arith", X, len(sums)))


def replay_arith(case, t):
    check_arith({k: v for k, v in case.items() if k not in ("t1", "t2")}, t)


# ---------------------------------------------------------------------------
# part 3: DateRange against range() over integer microseconds

R_START = {"noon": 55256 * DAY + 43200 * TICKS, "2358": 55256 * DAY + 86398 * TICKS}  # 2010-03-01 in the label's clock
R_SPAN_US = [s * v for v in (1_000_000, 10_000_000, 10_000_001, 9_999_999, 172_803_000_000) for s in (1, -1)]
R_STEP_US = [s * v for v in (1_000_000, 3_000_000, 100_000, 7_000_000, 86_400_000_000) for s in (1, -1)]
R_LABELS = ("UTC", "TAI", "TT")
R_STOP = ("timedelta", "date", "date-other-label")


def check_range(case, t):
    from beyond.dates import Date

    cfg = case["config"]
    m = _G["real"] if cfg["eop"] == "real" else _G["zero"]
    L, span, step, incl, stopk = case["label"], case["span_us"], case["step_us"], case["inclusive"], case["stop"]
    c0 = R_START[case["start"]]
    coherent = (span > 0) == (step > 0)
    cap = case["cap"]
    if coherent and len(range(0, span, step)) > cap:
        t.cap(f"DateRange cases with more than {cap} elements skipped")
        return
    exp = list(range(0, span, step)) if coherent else []
    if coherent and incl and span % step == 0:
        exp.append(span)
    start = Date(dt_of(c0), scale=L)
    if stopk == "timedelta":
        stop = timedelta(microseconds=span)
    else:
        stop = Date(dt_of(c0 + span * US), scale=L)
        if stopk == "date-other-label":
            other = "TT" if L != "TT" else "UTC"
            inst = m.tai_from_clock(L, c0 + span * US)[0]
            stop = Date(dt_of(m.clocks(inst)[other]), scale=other)
    t.trans(2)
    t.states_add(1)
    t.ev(("R", case["start"], span, step, incl, L, stopk))
    sgn = "negative-step" if step < 0 else "positive-step"
    try:
        Date.range(start, stop, timedelta(0), inclusive=incl)
        t.fail("DateRange.__init__/null-step-accepted", "a null step is rejected (ValueError)", case, "ValueError", "DateRange")
    except ValueError:
        pass
    t.trans()
    try:
        r = Date.range(start, stop, timedelta(microseconds=step), inclusive=incl)
    except ValueError as e:
        if coherent:
            t.fail(f"DateRange.__init__/{sgn}/coherent-rejected", "a coherent (start, stop, step) is accepted", case, "DateRange", repr(e))
        t.outcome("incoherent rejected")
        return
    t.trans()
    if not coherent:
        t.fail("DateRange.__init__/incoherent-accepted", "start/stop order not coherent with step raises ValueError", case, "ValueError", "DateRange")
        return
    # length
    n = len(r)
    t.trans()
    if n != len(exp):
        t.fail(f"DateRange.__len__/{sgn}", "len(range) is the number of dates start + k*step before (or at, if inclusive) stop", case, len(exp), n)
    # iteration (bounded: a wrong termination test must not hang the harness)
    got = []
    for x in r:
        got.append(x)
        if len(got) > len(exp) + 3:
            break
    t.trans(len(got))
    t.ev(n=len(got))
    if len(got) != len(exp):
        t.fail(f"DateRange.__iter__/{sgn}/count", "iteration yields exactly the dates start + k*step", case, len(exp), len(got),
               f"len()={n}, last yielded {got[-1] if got else None}")
    bad = [(k, clock_ticks(x) - c0) for k, (x, e) in enumerate(zip(got, exp)) if clock_ticks(x) != c0 + e * US or x.scale.name != L]
    if bad:
        t.fail(f"DateRange.__iter__/{sgn}/element", "element k = start + k*step to the microsecond", case, exp[bad[0][0]] * US, bad[0][1], f"{len(bad)} wrong")
    drift = max((abs(stored_diff(x, start) - e / 1e6) for x, e in zip(got, exp)), default=0.0)
    t.margin("DateRange element k vs start + k*step [s] (tol 0.5 us)", drift, 0.5e-6, case)
    # membership
    missing = [k for k, x in enumerate(got[: len(exp)]) if x not in r]
    t.trans(len(got))
    if missing:
        t.fail(f"DateRange.__contains__/{sgn}/member-reported-absent", "every date produced by iteration is `in` the range", case, True, False,
               f"{len(missing)} of {len(got)} iterated dates are not `in` the range (first k={missing[0]})")
    one = timedelta(microseconds=step)
    stop_d = start + timedelta(microseconds=span)
    probes = [
        ("start", start, True),
        ("stop", stop_d, bool(incl)),
        ("stop relabelled", stop_d.change_scale("GPS"), bool(incl)),
        ("start - step", start - one, False),
        ("stop + step", stop_d + one, False),
    ]
    if got:
        probes.append(("last element relabelled", got[-1].change_scale("TT" if L != "TT" else "TAI"), True))
    for name, x, want in probes:
        t.trans()
        t.ev()
        if (x in r) != want:
            t.fail(f"DateRange.__contains__/{sgn}/" + ("member-reported-absent" if want else "non-member-reported-present"), "membership agrees with iteration: start..stop (stop iff inclusive), nothing beyond",
                   case, want, x in r, name)
    t.outcome(("range", sgn, incl, min(len(exp), 3)))


# ---------------------------------------------------------------------------
# part 4: missing-EOP policies

def policy_dates():
    """(mjd, label): outside every table (1960, 2030); a tai-utc row but no finals row (1963, 1965, 1972); 1 day, 1 year,
    10 years before the first tabulated day; 1 day and 400 days after the last one; one covered day"""
    tb = _tables()
    return [
        (36934 + 100, "1960"), (tb.first - 3650, "first-10y"), (38761 + 40, "1965"), (tb.first - 365, "first-1y"),
        (tb.first - 1, "first-1d"), (55256, "2010"), (tb.last + 1, "last+1d"), (tb.last + 400, "last+400d"), (62502 + 200, "2030"),
    ]


def check_policy(case, t):
    from beyond.dates import Date

    cfg, X, Y, D, sod_us = case["config"], case["src"], case["dst"], case["day"], case["sod_us"]
    pol = cfg["policy"]
    real = _G.get("real")
    covered = cfg["eop"] == "real" and real.covered(D)
    m = real if covered else _G["zero"]
    clock0 = D * DAY + sod_us * US
    inst = m.tai_from_clock(X, clock0)[0]
    clocks = m.clocks(inst)
    log = _G["log"]
    t.states_add(1)
    t.ev(("P", cfg["eop"], pol, X, Y, D))
    tag = f"{pol}/{'covered' if covered else 'missing'}"

    def call(f, what):
        del log.records[:]
        try:
            out = f()
            exc = None
        except Exception as e:
            out, exc = None, e
        t.trans()
        recs = list(log.records)
        warn = [r for r in recs if r[0] >= logging.WARNING]
        if covered or pol == "pass":
            if exc is not None:
                t.fail(f"EopDb.policy/{tag}/raises", "no exception unless the policy is 'error' and the date is not covered", case, "Date", repr(exc), what)
            if warn:
                t.fail(f"EopDb.policy/{tag}/logs", "'pass' (or a covered date) is silent", case, [], recs, what)
        elif pol == "warning":
            if exc is not None:
                t.fail(f"EopDb.policy/{tag}/raises", "'warning' does not raise", case, "Date", repr(exc), what)
            if not warn or any(r[0] != logging.WARNING for r in warn):
                t.fail(f"EopDb.policy/{tag}/no-warning", "'warning' issues a logging.WARNING record", case, "one WARNING record", recs, what)
            t.outcome(("warning records per call", len(warn)))
        else:
            if exc is None:
                t.fail(f"EopDb.policy/{tag}/no-exception", "'error' raises for a date the tables do not cover", case, "exception", repr(out), what)
            else:
                t.outcome(("error raises", type(exc).__name__))
        return out

    a = call(lambda: Date(dt_of(clock0), scale=X), f"Date(..., scale={X})")
    if a is None:
        return
    err = abs(stored_minus(a, inst))
    if not t.margin("policy: stored instant vs model [s] (tol 1 us)", err, 1e-6, case):
        t.fail(f"EopDb.policy/{tag}/wrong-corrections", "zero corrections for an uncovered date, tabulated ones otherwise", case, 0.0, stored_minus(a, inst), f"{X}")
    if Y != X:
        b = call(lambda: a.change_scale(Y), f"change_scale({X}->{Y})")
        if b is not None:
            err = abs(clock_ticks(b) - clocks[Y]) / TICKS
            if not t.margin("policy: converted reading vs model [s] (tol 1 us)", err, 1e-6, case):
                t.fail(f"EopDb.policy/{tag}/wrong-corrections", "zero corrections for an uncovered date, tabulated ones otherwise", case,
                       clocks[Y], clock_ticks(b), f"{X}->{Y}")
    t.outcome(("policy", tag))


# ---------------------------------------------------------------------------
# part 5: the database itself, day by day (EopDb.get, TaiUtc helpers)


def check_eopdb(case, t):
    from beyond.dates.eop import EopDb, TaiUtc
    import os

    m = _G["real"]
    lo, hi = case["days"]
    key = "taiutc"
    if key not in _G:
        _G[key] = TaiUtc(os.path.join(POLE, "tai-utc.dat"))
    tu = _G[key]
    leaps = m.tb.leap_days()
    for D in range(lo, hi + 1):
        if not m.covered(D):
            # policy 'pass' in this configuration: a day the table does not carry gives zero corrections
            e = EopDb.get(D + 0.5)
            t.trans()
            t.ev()
            if (e.ut1_utc, e.tai_utc, e.x, e.y) != (0, 0, 0, 0):
                t.fail("EopDb.get/uncovered-day-not-zero", "for a date the tables do not cover the policy applies (zero corrections)",
                       dict(case, day=D), [0, 0, 0, 0], [e.ut1_utc, e.tai_utc, e.x, e.y], f"EopDb.get({D + 0.5}), table {m.tb.first}..{m.tb.last}")
            continue
        for frac in (0.0, 0.5, 0.99999):
            e = EopDb.get(D + frac)
            t.trans()
            t.ev()
            if e.ut1_utc != m.dut1(D) / TICKS or e.tai_utc != m.tai_utc(D) / TICKS:
                t.fail("EopDb.get/value-of-the-day", "TAI-UTC and UT1-UTC as tabulated by IERS for that day", dict(case, day=D, frac=frac),
                       [m.dut1(D) / TICKS, m.tai_utc(D) / TICKS], [e.ut1_utc, e.tai_utc], f"EopDb.get({D + frac})")
        if tu[D] != m.tai_utc(D) / TICKS:
            t.fail("TaiUtc.__getitem__/value-of-the-day", "TAI-UTC as tabulated", dict(case, day=D), m.tai_utc(D) / TICKS, tu[D])
        past, future = tu.get_last_next(D)
        exp_past = max(x for x in leaps + [41317] if x <= D)
        nxt = [x for x in leaps if x > D]
        if past[0] != exp_past or future[0] != (min(nxt) if nxt else None):
            t.fail("TaiUtc.get_last_next/wrong-neighbours", "last and next leap second relative to a date", dict(case, day=D),
                   [exp_past, min(nxt) if nxt else None], [past[0], future[0]])
        t.trans(2)
    t.states_add(hi - lo + 1)
    t.ev(("E", lo, hi))
    t.outcome("eopdb")


def replay_eopdb(case, t):
    check_eopdb(dict(case, days=[case["day"], case["day"]]) if "day" in case else case, t)


# ---------------------------------------------------------------------------
# part 6: histories.  (a) the policy is changed inside one process; (b) one DateRange object is used and modified

POLICIES = ("pass", "warning", "error")


def policy_sequences():
    import itertools

    out = []
    for n in (2, 3):
        for seq in itertools.product(POLICIES, repeat=n):
            if len(set(seq)) > 1:  # constant sequences are the single-policy configurations of part 4
                out.append(list(seq))
    return out


def check_policy_history(case, t):
    """after every change of config['eop']['missing_policy'] the behaviour on an uncovered date follows the CURRENT setting"""
    from beyond.dates import Date
    from beyond.config import config as bc

    cfg, seq = case["config"], case["seq"]
    log = _G["log"]
    real = _G.get("real")
    t.states_add(1)
    t.ev(("PH", cfg["eop"], tuple(seq)))
    for k, pol in enumerate(seq):
        if k % 2:
            bc.set("eop", "missing_policy", pol)
        else:
            bc.update({"eop": dict(bc["eop"], missing_policy=pol)})
        # an uncovered date (another one at every step) and, with tables, a covered one that must stay silent
        D = 62702 + 37 * k + (len(seq) * 3)
        for day, covered in ((D, False),) + (((55256 + k, True),) if cfg["eop"] == "real" else ()):
            del log.records[:]
            try:
                x = Date(dt_of(day * DAY + 43_200 * TICKS), scale="UTC")
                y = x.change_scale("TAI")
                exc = None
            except Exception as e:
                x, exc = None, e
            t.trans(2)
            t.ev()
            warn = [r for r in log.records if r[0] >= logging.WARNING]
            want = "silent" if covered or pol == "pass" else pol
            got = "error" if exc is not None else "warning" if warn else "silent"
            if x is not None:
                off = clock_ticks(y) - clock_ticks(x)
                exp_off = real.tai_utc(day) if covered else 0
                if off != exp_off:
                    got += f"+offset {off / TICKS} s"
            t.outcome(("policy history", want, got == want))
            if got != want:
                t.fail(f"EopDb.policy/history/current-setting-not-followed", "the configured policy applies (zero corrections silently, "
                       "with a warning, or an exception) - the one configured when the date is built", case, want, got,
                       f"policies set in this order in one process: {seq[:k + 1]}; {'covered' if covered else 'uncovered'} date MJD {day} "
                       f"built under '{pol}' behaves as '{got}' ({len(warn)} warning record(s), exception {exc!r})")


H_OPS = ("len", "iter", "in", "set-inclusive", "set-step", "set-stop", "set-start")
H_BASES = [  # (label, span s, step s, inclusive)
    ("TAI", 3600, 600, False), ("UTC", 3600, 600, True), ("TT", -3600, -600, False), ("UTC", -3000, -700, True),
]


def check_range_history(case, t):
    """one DateRange object: every sequence of observations and public-attribute changes; the oracle is the integer
    model of the CURRENT attributes"""
    from beyond.dates import Date

    L, span, step, incl = case["base"]
    ops = case["ops"]
    c0 = R_START["noon"]
    m = dict(start=0, stop=span * 1_000_000, step=step * 1_000_000, incl=incl)  # microseconds relative to c0
    mk = lambda us: Date(dt_of(c0 + us * US), scale=L)
    r = Date.range(mk(0), mk(m["stop"]), timedelta(microseconds=m["step"]), inclusive=incl)
    t.trans()
    t.states_add(1)
    t.ev(("RH", tuple(case["base"]), tuple(ops)))

    def model():
        e = list(range(m["start"], m["stop"], m["step"]))
        if m["incl"] and (m["stop"] - m["start"]) % m["step"] == 0:
            e.append(m["stop"])
        return e

    def observe(what, done):
        exp = model()
        state = f"after {done}: start={m['start'] / 1e6:+g} s, stop={m['stop'] / 1e6:+g} s, step={m['step'] / 1e6:g} s, inclusive={m['incl']}"
        if what == "len":
            n = len(r)
            t.trans()
            if n != len(exp):
                t.fail("DateRange.__len__/after-use-or-attribute-change", "length, iteration and membership agree (with the current start, stop, step, inclusive)",
                       case, len(exp), n, state)
        elif what == "iter":
            got = []
            for x in r:
                got.append(clock_ticks(x) // US - c0 // US)
                if len(got) > len(exp) + 3:
                    break
            t.trans(len(got))
            if got != exp:
                t.fail("DateRange.__iter__/after-use-or-attribute-change", "length, iteration and membership agree (with the current start, stop, step, inclusive)",
                       case, exp, got, state)
        else:
            probes = [(m["start"], True), (m["stop"], m["incl"]), (m["start"] - m["step"], False), (m["stop"] + m["step"], False)]
            if exp:
                probes.append((exp[-1], True))
            obs = [(mk(us) in r) for us, _ in probes]
            t.trans(len(probes))
            if obs != [w for _, w in probes]:
                t.fail("DateRange.__contains__/after-use-or-attribute-change", "length, iteration and membership agree (with the current start, stop, step, inclusive)",
                       case, [w for _, w in probes], obs, state)
        t.ev()

    done = []
    for op in ops:
        done.append(op)
        if op in ("len", "iter", "in"):
            observe(op, done)
        elif op == "set-inclusive":
            m["incl"] = not m["incl"]
            r.inclusive = m["incl"]
        elif op == "set-step":
            m["step"] = m["step"] * 2 if abs(m["step"]) < 1_000_000_000 else m["step"] // 2
            r.step = timedelta(microseconds=m["step"])
        elif op == "set-stop":
            m["stop"] += 2 * m["step"] + (1 if m["step"] > 0 else -1) * 1_000_000
            r.stop = mk(m["stop"])
        elif op == "set-start":
            m["start"] -= m["step"]
            r.start = mk(m["start"])
    for what in ("len", "iter", "in", "len"):
        observe(what, done + ["(final)"])
    t.outcome(("range history", len(ops)))


# ---------------------------------------------------------------------------
# units


def day_set(tier, stride_quick, stride_thorough):
    tb = _tables()
    if tier == "thorough" and stride_thorough == 1:
        return list(range(tb.first, tb.last + 1))
    stride = stride_quick if tier == "quick" else stride_thorough
    days = set(range(tb.first, tb.last + 1, stride))
    for mjd in tb.leap_days():
        days.update(d for d in range(mjd - 2, mjd + 2) if tb.first <= d <= tb.last)
    days.update((tb.first, tb.first + 1, tb.last - 1, tb.last))
    return sorted(days)


def _chunks(seq, n):
    k = max(1, -(-len(seq) // n))
    return [seq[i : i + k] for i in range(0, len(seq), k)]


def units(tier, seed):
    u = []
    # scales on the real tables
    days = day_set(tier, 13, 1)
    for ch in _chunks(days, 64 if tier == "quick" else 256):
        u.append((CFG_MAIN, dict(part="scales", days=ch)))
    # arithmetic
    for ch in _chunks(day_set(tier, 193, 13), 48 if tier == "quick" else 160):
        u.append((CFG_MAIN, dict(part="arith", days=ch)))
    # days the real table does not cover (zero corrections expected under 'pass'): the whole scales product on them
    tb = _tables()
    u.append((CFG_MAIN, dict(part="scales", days=[tb.first - 3650, tb.first - 366, tb.first - 2, tb.last + 2, tb.last + 400])))
    # the database day by day
    for lo in range(tb.first, tb.last + 1, 1100):
        u.append((CFG_MAIN, dict(part="eopdb", days=[lo, min(lo + 1099, tb.last)])))
    n = tb.last - tb.first + 1
    for lo, hi in ((tb.first - 400, tb.first - 1), (tb.last + 1, tb.last + 400), (tb.first - n - 20, tb.first - n + 20), (tb.first - 5000, tb.first - 4900)):
        u.append((CFG_MAIN, dict(part="eopdb", days=[lo, hi])))
    # DateRange
    cap = 5_000 if tier == "quick" else 60_000
    for span in R_SPAN_US:
        for start in R_START:
            for stopk in R_STOP:
                u.append((CFG_MAIN, dict(part="range", span_us=span, start=start, stop=stopk, cap=cap)))
    # histories
    import itertools

    for base in H_BASES:
        u.append((CFG_MAIN, dict(part="range-history", base=list(base))))
    for eop in ("real", "none"):
        u.append(({"eop": eop, "policy": "history"}, dict(part="policy-history")))
    # policies
    for eop in ("real", "none"):
        for pol in ("pass", "warning", "error"):
            cfg = {"eop": eop, "policy": pol}
            u.append((cfg, dict(part="policy")))
            if pol == "pass" and eop == "none":
                u.append((cfg, dict(part="scales", days=[d for d, _ in policy_dates()])))
                u.append((cfg, dict(part="arith", days=[55256])))
    return u


def _setup_failed(t, case):
    if "setup_error" in _G:
        t.fail("EopDb.db/real-tables-do-not-load", "with the IERS files configured the database loads and serves the tabulated values",
               case, "database", _G["setup_error"][:300], _G["setup_error"])
        return True
    return False


def run_unit(p, t):
    cfg = _G["config"]
    if _setup_failed(t, dict(kind="setup", config=cfg)):
        return
    if p["part"] == "scales":
        for D in p["days"]:
            for sod in SODS_US:
                for X in SCALES:
                    check_scales(dict(kind="scales", config=cfg, src=X, day=D, sod_us=sod), t)
    elif p["part"] == "arith":
        for D in p["days"]:
            for sod in SODS_US:
                for X in EXACT:
                    check_arith(dict(kind="arith", config=cfg, src=X, day=D, sod_us=sod), t)
    elif p["part"] == "range":
        for step in R_STEP_US:
            for incl in (False, True):
                for L in R_LABELS:
                    check_range(dict(kind="range", config=cfg, start=p["start"], span_us=p["span_us"], step_us=step,
                                     inclusive=incl, label=L, stop=p["stop"], cap=p["cap"]), t)
    elif p["part"] == "eopdb":
        check_eopdb(dict(kind="eopdb", config=cfg, days=p["days"]), t)
    elif p["part"] == "policy-history":
        for seq in policy_sequences():
            check_policy_history(dict(kind="policy-history", config=cfg, seq=seq), t)
    elif p["part"] == "range-history":
        import itertools

        for n in (1, 2, 3):
            for ops in itertools.product(H_OPS, repeat=n):
                check_range_history(dict(kind="range-history", config=cfg, base=p["base"], ops=list(ops)), t)
    elif p["part"] == "policy":
        for D, _ in policy_dates():
            for sod in (3_600_000_000, 43_200_123_456):  # away from 0h: the day seams are the business of part 1
                for X in SCALES:
                    for Y in SCALES:
                        check_policy(dict(kind="policy", config=cfg, src=X, dst=Y, day=D, sod_us=sod), t)
    else:
        raise ValueError(p["part"])


def replay(case, t):
    if _G.get("config") != case["config"]:
        raise RuntimeError("replay in a process configured for %r" % (_G.get("config"),))
    if _setup_failed(t, case) or case["kind"] == "setup":
        return
    {"scales": check_scales, "arith": replay_arith, "range": check_range, "policy": check_policy, "eopdb": replay_eopdb,
     "policy-history": check_policy_history, "range-history": check_range_history}[case["kind"]](case, t)
