"""C18 — solar-system body positions match the JPL ephemeris.

Part 1: the analytical Sun / Moon of beyond.env.solarsystem versus the geocentric
vectors chained from the segments of the repository's DE403 kernel (every date of a
grid over 2000-2020), velocities versus a 5-point derivative of the library's own
positions.
Part 2: frames / orbits created by beyond.env.jpl from the same kernel: every ordered
pair of bodies x dates (both kernel ends included) x {PCK configured, not configured},
versus mc/ref/spk_ref.py (own Chebyshev evaluation of the raw records, own chaining).
"""

import math

import numpy as np

PROPERTY = "C18"
CLAIM = dict(
    text="Every date of a fixed grid over the kernel span (quick: every 10th day with varying time of day; thorough: every day) "
    "is evaluated with the real Sun and Moon series and compared with the DE403 vectors chained directly from the kernel's "
    "segments, with the accuracy figures of the property text; the velocity is compared with a high-order derivative of the "
    "library's own positions. Every ordered pair of the 16 bodies of the kernel is converted through the real JPL frames at "
    "20 (thorough 60) dates including both ends of the kernel, in both directions, with and without PCK files (separate "
    "processes), and compared with an independent evaluation of the raw Chebyshev records at the library's own TDB Julian date.",
    note="Trusts jplephem's DAF file parser (data access only), the library's UTC->TDB conversion for the Julian date (C03), "
    "the IAU-1976 precession coded in the reference, EOP policy 'pass' (UT1=UTC; the Sun series' argument moves by < 0.001 deg).",
    technique="exhaustive grid over dates x ordered body pairs x kernel configurations on the real code vs. independent evaluation of the SPK records",
)
RULE = (
    "Sun/Moon: case = (body, date); dates = every k-th day of MJD 51545..59213 with time of day (k*7919 s mod 86400). "
    "JPL: case = (configuration, target, centre, date) for every ordered pair, plus (spacecraft state in EME2000 <-> every body frame). "
    "non-trivial = all (every case evaluates a series or a segment chain at a distinct argument); distinct by tuple"
)
BOUNDS = {
    "quick": "Sun, Moon x 767 dates; 240 ordered pairs x 20 dates x 2 configurations; 16 body frames x 20 dates x 2 directions x 2 configurations; "
    "history: every sequence of <= 3 operations over {get_orbit at 2 dates, in-place frame change, in-place form change, pair conversion at 2 dates, reverse pair} "
    "for 5 bodies (PCK) / 2 bodies (no PCK)",
    "thorough": "Sun, Moon x 7669 dates (every day); 240 ordered pairs x 60 dates x 2 configurations; history for 5 bodies in both configurations",
}
ASSUMPTIONS = [
    "accuracy figures of the property text used verbatim: Sun 0.02 deg / 1e-4, Moon 0.7 deg / 0.5 %",
    "velocity clause: tolerance = truncation error of a central difference with the library's step for a body of that angular rate "
    "((omega dt)^2/6 at the fastest point of the orbit: Moon 1.5 %, Sun 0.15 %), as fixed by DESIGN.md",
    "JPL clause: tolerance = time rounding inside jplephem (3e-7 s x speed, summed over the chained segments) + 16 ulp of the summed terms",
    "the kernel is in the J2000/ICRF axes = the library's EME2000 orientation (difference 0.02 arcsec, far below the series accuracy)",
]
NOT_COVERED = "kernels other than the repository's DE403 excerpt (SPK type 3 or 6-component segments); dates outside the kernel; Earth propagator of solarsystem (identically zero)"

KERNEL = "/repo/tests/data/jpl/de403_2000-2020.bsp"
PCK = ["/repo/tests/data/jpl/pck00010.tpc", "/repo/tests/data/jpl/gm_de431.tpc"]
AU = 149597870700.0

_G = {}
_KEEP = []  # every Date / Orbit made outside the dedicated 'temporaries' part stays alive for the life of the worker:
# no object address is ever re-used between cases, so these cases cannot depend on the allocator (the idiom with
# short-lived dates is exercised, deterministically, by check_temps)


def _keep(*objs):
    _KEEP.extend(objs)
    return objs[0]


def setup(config):
    from beyond.config import config as bc

    bc.update({"eop": {"missing_policy": "pass"}})
    mode = (config or {}).get("jpl", "none")
    _G["mode"] = mode
    if mode in ("pck", "nopck"):
        files = [KERNEL] + (PCK if mode == "pck" else [])
        bc.set("env", "jpl", "files", files)
        from beyond.env import jpl

        jpl.create_frames()
        _G["names"] = {f.center.index: f.name for f in jpl.list_frames()}


# ---------------------------------------------------------------------------
# Sun / Moon series

TOL = {
    "Sun": dict(angle=math.radians(0.02), dist=1e-4, vel=1.5e-3, step_days=5),
    "Moon": dict(angle=math.radians(0.7), dist=5e-3, vel=1.5e-2, step_days=1),
}
IDS = {"Sun": 10, "Moon": 301}


def check_series(case, t):
    from mc.ref import spk_ref
    from beyond.dates import Date, timedelta
    from beyond.env.solarsystem import get_body

    body = case["body"]
    d = Date(case["mjd"], case["sec"])
    tol = TOL[body]
    sig = body.lower()
    clause = f"built-in {body} agrees with the JPL DE ephemeris to the accuracy of its series"
    try:
        o = get_body(body).propagate(d)
        t.trans()
    except Exception as e:
        t.fail(sig + "/raises", clause, case, "a state", repr(e))
        return
    lib = np.array(o, dtype=float)
    frame = o.frame.name
    jd = d.change_scale("TDB").jd
    ref, _ = spk_ref.relative(IDS[body], 399, jd)
    if frame == "MOD":
        P = spk_ref.precession_j2000_to_mod((jd - 2451545.0) / 36525.0)
        refp = P @ ref[:3]
    elif frame == "EME2000":
        refp = ref[:3]
    else:
        t.fail(sig + "/frame", "series is given in MOD (Sun) / EME2000 (Moon)", case, "MOD|EME2000", frame)
        return
    ang = spk_ref.angle(lib[:3], refp)
    dr = abs(np.linalg.norm(lib[:3]) / np.linalg.norm(refp) - 1)
    ok1 = t.margin(f"{body}: direction vs DE403 [deg/{math.degrees(tol['angle']):.2f} deg]", ang, tol["angle"], case)
    ok2 = t.margin(f"{body}: distance vs DE403 [rel/{tol['dist']:g}]", dr, tol["dist"], case)
    if not ok1:
        t.fail(sig + "/direction", clause, case, refp, lib[:3], f"angle {math.degrees(ang):.4f} deg")
    if not ok2:
        t.fail(sig + "/distance", clause, case, np.linalg.norm(refp), np.linalg.norm(lib[:3]), f"relative {dr:.3e}")
    # through the library's own frame change to EME2000 (what users of get_frame('Sun') see)
    if frame != "EME2000":
        try:
            e = np.array(o.copy(frame="EME2000"), dtype=float)
            t.trans()
            ang2 = spk_ref.angle(e[:3], ref[:3])
            if not t.margin(f"{body}: direction in EME2000 vs DE403 [deg/{math.degrees(tol['angle']):.2f} deg]", ang2, tol["angle"], case):
                t.fail(sig + "/direction-eme2000", clause + " (after conversion to EME2000)", case, ref[:3], e[:3], f"angle {math.degrees(ang2):.4f} deg")
        except Exception as ex:
            t.fail(sig + "/to-eme2000-raises", clause, case, "a state", repr(ex))
    # velocity = time derivative of the position: 5-point stencil on the library's own positions, h = 1 h
    h = 3600.0
    pts = {}
    for k in (-2, -1, 1, 2):
        pts[k] = np.array(get_body(body).propagate(d + timedelta(seconds=k * h)), dtype=float)[:3]
        t.trans()
    deriv = (-pts[2] + 8 * pts[1] - 8 * pts[-1] + pts[-2]) / (12 * h)
    ev = np.linalg.norm(lib[3:] - deriv) / np.linalg.norm(deriv)
    if not t.margin(f"{body}: velocity vs d(position)/dt [rel/{tol['vel']:g}]", ev, tol["vel"], case):
        t.fail(sig + "/velocity", "velocities equal the time derivative of the positions", case, deriv, lib[3:], f"relative {ev:.3e}")
    # and against the kernel (information: the series + differencing against DE403)
    t.outcome((body, int(math.degrees(ang) / math.degrees(tol["angle"]) * 4)))


# ---------------------------------------------------------------------------
# JPL frames


def jpl_dates(tier):
    """(mjd, sec, scale): both kernel ends in TDB, then dates spread over the span in UTC."""
    n = 20 if tier == "quick" else 60
    out = [(51536, 0.0, "TDB"), (59216, 0.0, "TDB")]
    for k in range(n - 2):
        mjd = 51537 + (k * 7678) // (n - 2)
        out.append((mjd, round((k * 7919.123456) % 86400, 6), "UTC"))
    return out


# jplephem forms (jd - J2000) * 86400 - init in seconds: at 6.7e8 s (2021) one ulp is 1.2e-7 s, two roundings
DT_NOISE = 3e-7


def _tols(net, traversed):
    """net: (|p|, |v|) of the segments whose sum is the result (time rounding of jplephem + round-off);
    traversed: (|p|, |v|) of every segment the library evaluates on its walk, including those that cancel
    (get_orbit(a) is expressed relative to a's own centre, e.g. the barycentre at 1.5e11 m, before the frame change
    walks back): their round-off does not cancel."""
    tp = 1e-9
    tv = 1e-15
    for p, v in net:
        acc = 2 * v * v / p if p > 0 else 0.0
        tp += v * DT_NOISE
        tv += acc * DT_NOISE
    for p, v in list(net) + list(traversed):
        tp += 8 * 2.2e-16 * p
        tv += 8 * 2.2e-16 * v
    return tp, tv


def _mags(keys, jd):
    from mc.ref import spk_ref

    segs = spk_ref.kernel()
    out = []
    for key in keys:
        p, v = spk_ref.eval_segment(segs[key], jd)
        out.append((np.linalg.norm(p) * 1e3, np.linalg.norm(v) * 1e3))
    return out


def _ref_pair(a, b, jd, start=None):
    """Reference state of a wrt b, and tolerances for a library walk that starts in the frame `start`
    (default: the centre of a's own segment, which is where get_orbit(a) lives)."""
    from mc.ref import spk_ref

    ref, _ = spk_ref.relative(a, b, jd)
    ca = spk_ref.chain_to_ssb(a)
    cb = spk_ref.chain_to_ssb(b)
    net = set(ca) ^ set(cb)
    if start is None:
        start = ca[0][0] if ca else 0
        first = ca[:1]
    else:
        first = []
    walk = set(spk_ref.chain_to_ssb(start)) ^ set(cb)
    terms = _mags(net, jd)
    return ref, _tols(terms, _mags(list(first) + list(walk), jd)), terms


def check_pair(case, t):
    from beyond.dates import Date
    from beyond.env import jpl

    if _G.get("mode") != case["config"]["jpl"]:
        raise RuntimeError(f"replay/worker configured for {_G.get('mode')}, case needs {case['config']}")
    a, b = case["target"], case["center"]
    names = _G["names"]
    d = _keep(Date(case["mjd"], case["sec"], scale=case["scale"]))
    sig = "jpl/pair"
    clause = "frames and orbits from SPK files reproduce the vector obtained by chaining the file's segments (m, m/s, TDB argument)"
    try:
        if a == 0:
            # the barycentre is the root of the kernel: it is never a target, so there is no orbit of it to get;
            # its state in its own frame is the origin
            from beyond.orbits import Orbit

            o = Orbit(np.zeros(6), d.change_scale("TDB"), "cartesian", names[a], None)
        else:
            o = jpl.get_orbit(names[a], d)
            t.trans()
        x = o.copy(frame=names[b])
        _keep(o, x)
        t.trans()
    except Exception as e:
        t.fail(sig + "/raises", clause, case, "a state", repr(e), f"{names.get(a)} -> {names.get(b)}")
        return
    jd = d.change_scale("TDB").jd
    if o.date.scale.name != "TDB":
        t.fail("jpl/date-scale", "JPL orbits are dated in TDB", case, "TDB", o.date.scale.name)
    ref, (tp, tv), terms = _ref_pair(a, b, jd)
    got = np.array(x, dtype=float)
    ep = np.max(np.abs(got[:3] - ref[:3]))
    ev = np.max(np.abs(got[3:] - ref[3:]))
    ok1 = t.margin("JPL pair: position vs chained segments [m over tol]", ep, tp, case)
    ok2 = t.margin("JPL pair: velocity vs chained segments [m/s over tol]", ev, tv, case)
    if x.frame.name != names[b]:
        t.fail("jpl/frame-name", "converted orbit is expressed in the requested frame", case, names[b], x.frame.name)
    if not (ok1 and ok2):
        # classify: sign / unit / other
        cls = "other"
        if np.max(np.abs(got[:3] + ref[:3])) <= tp * 10 + 1e-6:
            cls = "sign"
        elif np.linalg.norm(ref[3:]) > 0 and abs(np.linalg.norm(got[3:]) / np.linalg.norm(ref[3:]) / 86400 - 1) < 1e-6:
            cls = "velocity-unit"
        elif ok1 and not ok2:
            cls = "velocity"
        t.fail(f"{sig}/{cls}", clause, case, ref, got, f"{names[a]} wrt {names[b]}: |dpos|={ep:.3e} m (tol {tp:.1e}), |dvel|={ev:.3e} m/s (tol {tv:.1e})")
    t.outcome(("pair", len(terms)))


SPACECRAFT = [7.0e6, -1.2e6, 3.4e6, 1200.0, 6800.0, -2500.0]


def check_spacecraft(case, t):
    """A state in EME2000 converted to a body frame and back: r_sc - r_body(wrt Earth)."""
    from beyond.dates import Date
    from beyond.orbits import Orbit

    if _G.get("mode") != case["config"]["jpl"]:
        raise RuntimeError(f"replay/worker configured for {_G.get('mode')}, case needs {case['config']}")
    b = case["center"]
    names = _G["names"]
    d = _keep(Date(case["mjd"], case["sec"], scale=case["scale"]))
    jd = d.change_scale("TDB").jd
    sc = np.array(SPACECRAFT)
    clause = "StateVector.copy(frame=<body>) subtracts the body's state chained from the kernel, and the reverse adds it"
    ref, (tp, tv), terms = _ref_pair(399, b, jd, start=399)  # Earth wrt body
    try:
        if case["dir"] == "to":
            o = Orbit(sc, d, "cartesian", "EME2000", None).copy(frame=names[b])
            want = sc + ref
        else:
            o = Orbit(sc, d, "cartesian", names[b], None).copy(frame="EME2000")
            want = sc - ref
        _keep(o)
        t.trans()
    except Exception as e:
        t.fail("jpl/spacecraft/raises", clause, case, "a state", repr(e), names.get(b))
        return
    got = np.array(o, dtype=float)
    ep = np.max(np.abs(got[:3] - want[:3]))
    ev = np.max(np.abs(got[3:] - want[3:]))
    tp += 16 * 2.2e-16 * np.linalg.norm(want[:3])
    tv += 16 * 2.2e-16 * np.linalg.norm(want[3:])
    ok1 = t.margin("JPL spacecraft: position [m over tol]", ep, tp, case)
    ok2 = t.margin("JPL spacecraft: velocity [m/s over tol]", ev, tv, case)
    if not (ok1 and ok2):
        t.fail("jpl/spacecraft/" + case["dir"], clause, case, want, got, f"{names[b]}: |dpos|={ep:.3e} m, |dvel|={ev:.3e} m/s")
    t.outcome(("sc", case["dir"]))


def check_config(case, t):
    """The configuration itself: PCK present -> physical constants attached; absent -> zero masses, same frames."""
    from beyond.env import jpl

    if _G.get("mode") != case["config"]["jpl"]:
        raise RuntimeError("wrong worker configuration")
    fr = jpl.list_frames()
    t.trans()
    if len(fr) != 16:
        t.fail("jpl/frames-count", "one frame per body of the kernel", case, 16, len(fr))
    mus = {f.name: float(f.center.body.mu) for f in fr}
    if case["config"]["jpl"] == "pck":
        bad = [k for k in ("Sun", "Earth", "Moon", "Mars", "Venus", "Mercury") if not mus[k] > 0]
        if bad:
            t.fail("jpl/pck-mu", "with PCK files bodies carry their gravitational parameter", case, "> 0", {k: mus[k] for k in bad})
        # GM of the Earth from gm_de431.tpc: 398600.435436 km^3/s^2
        if abs(mus["Earth"] / 3.98600435436e14 - 1) > 1e-9:
            t.fail("jpl/pck-mu", "GM read from the PCK file", case, 3.98600435436e14, mus["Earth"])
    else:
        if any(v != 0 for v in mus.values()):
            t.fail("jpl/nopck-mu", "without PCK files bodies have no mass", case, 0, mus)
    t.outcome(("config", case["config"]["jpl"]))



# ---------------------------------------------------------------------------
# history independence of the JPL propagators / frames

HIST_BODIES = [301, 3, 4, 10, 399]  # bodies whose own segment is not identically zero
HIST_DATES = [(52883, 21600.0, "UTC"), (57064, 63900.0, "UTC")]


def hist_scripts(tier):
    """Every sequence of <= 3 operations over
       G1/G2  o = get_orbit(a, d1|d2)
       F      in-place frame change of the most recently returned orbit (o.frame = ...)
       M      in-place form change of the most recently returned orbit (o.form = 'spherical')
       P      that orbit propagated to the other date (o.propagate(d): attaches it to the body's shared propagator)
       C1/C2  pair conversion routed through a's segment: get_orbit(x, d1|d2).copy(frame=a)
       R1     reverse pair at d1: get_orbit(a, d1).copy(frame=x)
    (F / M need an orbit returned before)."""
    import itertools

    alpha = ["G1", "G2", "F", "M", "P", "C1", "C2", "R1"]
    out = [["G1", "F", "P", "G1"], ["G1", "F", "P", "C1"], ["G1", "F", "P", "R1"], ["G1", "M", "P", "G1"], ["G2", "F", "P", "C2"]]
    for k in (1, 2, 3):
        for seq in itertools.product(alpha, repeat=k):
            # F / M act on the most recent orbit returned by get_orbit(a, .)
            if any(op in ("F", "M", "P") and not any(g in ("G1", "G2") for g in seq[:j]) for j, op in enumerate(seq)):
                continue
            out.append(list(seq))
    return out


def check_hist(case, t):
    from mc.ref import spk_ref
    from beyond.dates import Date
    from beyond.env import jpl

    if _G.get("mode") != case["config"]["jpl"]:
        raise RuntimeError("wrong worker configuration")
    names = _G["names"]
    a = case["body"]
    x = 399 if a != 399 else 301  # partner whose conversion goes through a's segment
    other = 10 if a != 10 else 399  # target of the in-place frame change
    parent = spk_ref.chain_to_ssb(a)[0][0]
    dates = [_keep(Date(m, sec, scale=sc)) for m, sec, sc in HIST_DATES]
    jds = [d.change_scale("TDB").jd for d in dates]
    clause = ("frames and orbits from SPK files reproduce the chained segments for every pair, whatever was computed before "
              "(a returned orbit belongs to the caller: it is never handed out again and never changes afterwards)")
    sig = "jpl/history"
    returned = []  # [object, snapshot array, frame name, form name]
    last = None  # (entry index, body, date index, centre id)

    def value(o, tgt, ctr, di, step, what, start=None):
        ref, (tp, tv), _ = _ref_pair(tgt, ctr, jds[di], start=start)
        got = np.array(o.copy(form="cartesian"), dtype=float)
        tp = tp + 16 * 2.2e-16 * np.linalg.norm(ref[:3])  # spherical <-> cartesian round trip of an in-place form change
        tv = tv + 16 * 2.2e-16 * np.linalg.norm(ref[3:])
        ep = np.max(np.abs(got[:3] - ref[:3]))
        ev = np.max(np.abs(got[3:] - ref[3:]))
        ok1 = t.margin("JPL history: position vs chained segments [m over tol]", ep, tp, case)
        ok2 = t.margin("JPL history: velocity vs chained segments [m/s over tol]", ev, tv, case)
        if not (ok1 and ok2):
            t.fail(sig + "/value", clause, case, ref, got,
                   f"step {step} {what}: {names[tgt]} wrt {names[ctr]} at date #{di}: |dpos|={ep:.3e} m, |dvel|={ev:.3e} m/s")
            return False
        return True

    def record(o, step, what):
        for ent in returned:
            if ent[0] is o:
                t.fail(sig + "/shared-object", clause, case, "a new object", f"object returned at step {ent[4]} again",
                       f"step {step} {what} returned the same Orbit object as step {ent[4]}")
                return
        returned.append([_keep(o), np.array(o, dtype=float).copy(), o.frame.name, str(o.form), step])

    try:
        for i, op in enumerate(case["script"]):
            if op in ("G1", "G2"):
                di = int(op[1]) - 1
                o = jpl.get_orbit(names[a], dates[di])
                t.trans()
                record(o, i, op)
                last = (len(returned) - 1, di, parent)
                if not value(o, a, parent, di, i, "get_orbit"):
                    break
            elif op in ("C1", "C2"):
                di = int(op[1]) - 1
                o = jpl.get_orbit(names[x], dates[di])
                record(o, i, op + ":get")
                r = _keep(o.copy(frame=names[a]))
                t.trans(2)
                if not value(r, x, a, di, i, "pair " + names[x] + "->" + names[a]):
                    break
            elif op == "R1":
                o = jpl.get_orbit(names[a], dates[0])
                record(o, i, op + ":get")
                r = _keep(o.copy(frame=names[x]))
                t.trans(2)
                if not value(r, a, x, 0, i, "pair " + names[a] + "->" + names[x]):
                    break
            elif op == "F":
                idx, di, ctr = last
                o = returned[idx][0]
                o.frame = names[other]
                t.trans()
                returned[idx][1] = np.array(o, dtype=float).copy()
                returned[idx][2] = o.frame.name
                returned[idx][3] = str(o.form)
                last = (idx, di, other)
                if not value(o, a, other, di, i, "in-place frame change", start=ctr):
                    break
            elif op == "M":
                idx, di, ctr = last
                o = returned[idx][0]
                o.form = "spherical" if str(o.form) != "spherical" else "cartesian"
                t.trans()
                returned[idx][1] = np.array(o, dtype=float).copy()
                returned[idx][3] = str(o.form)
                if not value(o, a, ctr, di, i, "in-place form change"):
                    break
            elif op == "P":
                idx, di, ctr = last
                o = returned[idx][0]
                r = o.propagate(dates[1 - di])
                t.trans()
                record(r, i, op)
                if not value(r, a, parent, 1 - di, i, "propagate of a returned orbit"):
                    break
            else:
                raise ValueError(op)
    except Exception as e:
        import traceback

        tb = traceback.extract_tb(e.__traceback__)
        if "/beyond/" not in tb[-1].filename and "jplephem" not in tb[-1].filename:
            raise
        t.fail(sig + "/raises", clause, case, "a state", repr(e))
        return
    for obj, snap, fr, fm, step in returned:
        if not (np.array_equal(np.array(obj, dtype=float), snap) and obj.frame.name == fr and str(obj.form) == fm):
            t.fail(sig + "/returned-changed", clause, case, [snap, fr, fm], [np.array(obj, dtype=float), obj.frame.name, str(obj.form)],
                   f"orbit returned at step {step} changed after it was handed to the caller")
    t.outcome(("hist", len(case["script"]), case["script"][0]))



# ---------------------------------------------------------------------------
# same calendar reading under different time-scale labels, consecutively

SCALES = ["UTC", "TT", "TDB", "TAI"]
SCALE_DATES = [(57082, 0.0), (53005, 43200.5)]


def check_scales(case, t):
    """The same pair converted consecutively at dates with identical (MJD, seconds) readings but different scale labels:
    each result is the chained-segment vector at that date's own TDB instant."""
    from beyond.dates import Date
    from beyond.orbits import Orbit
    from beyond.env import jpl

    if _G.get("mode") != case["config"]["jpl"]:
        raise RuntimeError("wrong worker configuration")
    a, b = case["target"], case["center"]
    names = _G["names"]
    clause = ("frames from SPK files reproduce the chained segments at the TDB instant of the date given, "
              "whatever its scale label and whatever was converted before")
    sc = np.array(SPACECRAFT)
    for scale in case["scales"]:
        d = _keep(Date(case["mjd"], case["sec"], scale=scale))
        jd = d.change_scale("TDB").jd
        try:
            if case["route"] == "pair":
                if a == 0:
                    o = Orbit(np.zeros(6), d, "cartesian", names[a], None)
                else:
                    o = jpl.get_orbit(names[a], d)
                x = o.copy(frame=names[b])
                ref, (tp, tv), _ = _ref_pair(a, b, jd)
            else:
                # spacecraft state given in frame a, converted to frame b
                x = Orbit(sc, d, "cartesian", names[a], None).copy(frame=names[b])
                ref, (tp, tv), _ = _ref_pair(a, b, jd, start=a)
                ref = ref + sc
                tp += 16 * 2.2e-16 * np.linalg.norm(ref[:3])
                tv += 16 * 2.2e-16 * np.linalg.norm(ref[3:])
            _keep(x)
            t.trans(2)
        except Exception as e:
            t.fail("jpl/scales/raises", clause, case, "a state", repr(e), f"{names.get(a)} -> {names.get(b)} {scale}")
            return
        got = np.array(x, dtype=float)
        ep = np.max(np.abs(got[:3] - ref[:3]))
        ev = np.max(np.abs(got[3:] - ref[3:]))
        ok1 = t.margin("JPL scale labels: position vs chained segments [m over tol]", ep, tp, case)
        ok2 = t.margin("JPL scale labels: velocity vs chained segments [m/s over tol]", ev, tv, case)
        if not (ok1 and ok2):
            t.fail("jpl/scales/" + case["route"], clause, case, ref, got,
                   f"{names[a]} -> {names[b]} at ({case['mjd']}, {case['sec']}) {scale} after {case['scales'][:case['scales'].index(scale)]}: "
                   f"|dpos|={ep:.3e} m (tol {tp:.1e}), |dvel|={ev:.3e} m/s")
            return
    t.outcome(("scales", case["route"], case["scales"][0]))


# ---------------------------------------------------------------------------
# JplPropagator driven directly, in the stored and in the opposite direction of every segment


def check_prop(case, t):
    from mc.ref import spk_ref
    from beyond.dates import Date
    from beyond.env import jpl

    if _G.get("mode") != case["config"]["jpl"]:
        raise RuntimeError("wrong worker configuration")
    obj, ctr = case["obj"], case["frame"]
    names = _G["names"]
    frames = {f.center.index: f for f in jpl.list_frames()}
    d = Date(case["mjd"], case["sec"], scale=case["scale"])
    jd = d.change_scale("TDB").jd
    direction = "stored" if (ctr, obj) in spk_ref.kernel() else "reversed"
    clause = "a JplPropagator gives the state of its object relative to the centre of its frame (m, m/s), in either direction of the segment"
    try:
        pr = jpl.JplPropagator(frames[obj].center, frames[ctr])
        o = pr.propagate(_keep(d))
        _keep(o, pr)
        t.trans()
    except Exception as e:
        t.fail(f"jpl/propagator/{direction}/raises", clause, case, "a state", repr(e), f"{names.get(obj)} wrt {names.get(ctr)}")
        return
    ref, (tp, tv), _ = _ref_pair(obj, ctr, jd, start=ctr)
    got = np.array(o, dtype=float)
    ep = np.max(np.abs(got[:3] - ref[:3]))
    ev = np.max(np.abs(got[3:] - ref[3:]))
    ok1 = t.margin("JplPropagator direct: position [m over tol]", ep, tp, case)
    ok2 = t.margin("JplPropagator direct: velocity [m/s over tol]", ev, tv, case)
    if o.frame.name != names[ctr]:
        t.fail("jpl/propagator/frame", "the state is expressed in the propagator's frame", case, names[ctr], o.frame.name)
    if not (ok1 and ok2):
        part = "position" if not ok1 else "velocity"
        t.fail(f"jpl/propagator/{direction}/{part}", clause, case, ref, got,
               f"{names[obj]} wrt {names[ctr]}: |dpos|={ep:.3e} m, |dvel|={ev:.3e} m/s")
    t.outcome(("prop", direction))



# ---------------------------------------------------------------------------
# Sun / Moon asked alternately: history independence of the analytical bodies

SER_ALPHA = [(b, o) for b in ("Sun", "Moon") for o in (0, 1, -1, 5, -5)]
SER_BASES = [(53005, 43200.0), (55562, 0.0), (57082, 3600.5), (58700, 80000.0)]


def check_series_hist(case, t):
    """A sequence of requests {Sun, Moon} x {d, d +- 1 day, d +- 5 days} (the two bodies' own difference steps) in one
    process: every returned velocity is the time derivative of that body's positions, every position is the one a
    later, separate request gives."""
    from beyond.dates import Date, timedelta
    from beyond.env.solarsystem import get_body

    base = Date(case["mjd"], case["sec"])
    got = []
    try:
        for body, off in case["script"]:
            o = get_body(body).propagate(base + timedelta(days=off))
            t.trans()
            got.append(np.array(o, dtype=float).copy())
            if case.get("touch"):
                o.form = "spherical"  # the caller's own object, changed in place: later answers must not notice
                t.trans()
    except Exception as e:
        t.fail("series/history/raises", "Sun / Moon states", case, "a state", repr(e))
        return
    # reference afterwards (these calls may themselves depend on history in a defective tree, but only positions
    # are used, 1 h apart, i.e. never a difference step away from each other)
    h = 3600.0
    for i, ((body, off), lib) in enumerate(zip(case["script"], got)):
        d = base + timedelta(days=off)
        pts = {k: np.array(get_body(body).propagate(d + timedelta(seconds=k * h)), dtype=float)[:3] for k in (-2, -1, 0, 1, 2)}
        t.trans(5)
        deriv = (-pts[2] + 8 * pts[1] - 8 * pts[-1] + pts[-2]) / (12 * h)
        ev = np.linalg.norm(lib[3:] - deriv) / np.linalg.norm(deriv)
        tol = TOL[body]["vel"]
        if not t.margin(f"{body}: velocity vs d(position)/dt in request sequences [rel/{tol:g}]", ev, tol, case):
            t.fail(f"{body.lower()}/velocity/history", "velocities equal the time derivative of the positions (whatever was asked before)",
                   case, deriv, lib[3:], f"request #{i} {body} at d{off:+d} d after {case['script'][:i]}: relative {ev:.3e}, |v|={np.linalg.norm(lib[3:]):.1f} m/s")
            return
        if not np.array_equal(lib[:3], pts[0]):
            t.fail(f"{body.lower()}/position/history", "positions do not depend on what was asked before", case, pts[0], lib[:3], f"request #{i}")
            return
    t.outcome(("series_hist", len(case["script"]), case["script"][0][0], bool(case.get("touch"))))



# ---------------------------------------------------------------------------
# conversions in a loop over short-lived dates

TEMP_ROUTES = {"pck": [(301, 399), (399, 301), (399, 10), (10, 301)], "nopck": [(301, 399), (399, 10)],
               "none": [("Moon", "EME2000"), ("EME2000", "Moon"), ("EME2000", "Sun"), ("Sun", "Moon")]}


def check_temps(case, t):
    """[Orbit(state, start + timedelta(days=7*i), ..., frame A).copy(frame=B) for i in range(n)] with nothing kept alive
    between the iterations but the numbers: each result is the reference at its own date."""
    from beyond.dates import Date, timedelta
    from beyond.orbits import Orbit

    mode = case["config"]["jpl"]
    if _G.get("mode") != mode:
        raise RuntimeError("wrong worker configuration")
    a, b = case["route"]
    n = case["n"]
    sc = np.array(SPACECRAFT)
    clause = "a frame change gives the vector at the date of the state converted, whatever was converted just before"
    if mode == "none":
        from beyond.env import solarsystem

        for nm in ("Moon", "Sun"):
            if "ss_" + nm not in _G:
                _G["ss_" + nm] = solarsystem.get_frame(nm)
        fa, fb = a, b
    else:
        fa, fb = _G["names"][a], _G["names"][b]
    step = case["step_days"]
    try:
        start = Date(case["mjd"], case["sec"])

        def conv(date):
            return np.array(Orbit(sc, date, "cartesian", fa, None).copy(frame=fb), dtype=float)

        # exactly the everyday idiom: only numbers survive an iteration, the date of each state is a temporary
        got = [conv(start + timedelta(days=step * i)) for i in range(n)]
        t.trans(n)
    except Exception as e:
        t.fail("frames/temporaries/raises", clause, case, "a state", repr(e))
        return
    for i in range(n):
        d = Date(case["mjd"], case["sec"]) + timedelta(days=step * i)
        if mode == "none":
            from beyond.env.solarsystem import get_body

            def geo(nm):
                if nm == "EME2000":
                    return np.zeros(6)
                return np.array(get_body(nm).propagate(d).copy(frame="EME2000", form="cartesian"), dtype=float)

            ga, gb = geo(a), geo(b)
            t.trans(2)
            want = sc + ga - gb
            # the analytical Sun frame has the axes of MOD (the frame of its series), the Moon frame those of EME2000
            if b == "Sun":
                sun_mod = np.array(get_body("Sun").propagate(d), dtype=float)
                want = np.array(Orbit(sc + ga, d, "cartesian", "EME2000", None).copy(frame="MOD"), dtype=float) - sun_mod
            elif a == "Sun":
                sun_mod = np.array(get_body("Sun").propagate(d), dtype=float)
                want = np.array(Orbit(sc + sun_mod, d, "cartesian", "MOD", None).copy(frame="EME2000"), dtype=float) - gb
            tp = 16 * 2.2e-16 * (np.linalg.norm(ga[:3]) + np.linalg.norm(gb[:3]) + np.linalg.norm(sc[:3]))
            tv = 16 * 2.2e-16 * (np.linalg.norm(ga[3:]) + np.linalg.norm(gb[3:]) + np.linalg.norm(sc[3:]))
            if "Sun" in (a, b):
                # the Sun's state lives in MOD: one more rotation of 1.5e11 m
                tp *= 4
                tv *= 4
        else:
            jd = d.change_scale("TDB").jd
            ref, (tp, tv), _ = _ref_pair(a, b, jd, start=a)
            want = ref + sc
            tp += 16 * 2.2e-16 * np.linalg.norm(want[:3])
            tv += 16 * 2.2e-16 * np.linalg.norm(want[3:])
        ep = np.max(np.abs(got[i][:3] - want[:3]))
        ev = np.max(np.abs(got[i][3:] - want[3:]))
        ok1 = t.margin(f"frame change in a loop over temporaries ({'analytical' if mode == 'none' else 'JPL'}): position [m over tol]", ep, tp, case)
        ok2 = t.margin(f"frame change in a loop over temporaries ({'analytical' if mode == 'none' else 'JPL'}): velocity [m/s over tol]", ev, tv, case)
        if not (ok1 and ok2):
            t.fail("frames/temporaries/" + ("analytical" if mode == "none" else "jpl"), clause, case, want, got[i],
                   f"iteration {i} of {fa} -> {fb}: |dpos|={ep:.3e} m, |dvel|={ev:.3e} m/s")
            return
    t.outcome(("temps", mode, str(a), str(b)))


# ---------------------------------------------------------------------------

CHECKS = dict(series=check_series, series_hist=check_series_hist, pair=check_pair, sc=check_spacecraft, config=check_config, hist=check_hist,
              scales=check_scales, prop=check_prop, temps=check_temps)


def check_case(case, t):
    CHECKS[case["kind"]](case, t)
    key = tuple(sorted((k, repr(v)) for k, v in case.items()))
    t.state(key)
    t.ev(key)


def replay(case, t):
    check_case(case, t)


def series_dates(tier):
    step = 10 if tier == "quick" else 1
    out = []
    k = 0
    for mjd in range(51545, 59214, step):
        out.append((mjd, float((k * 7919) % 86400)))
        k += 1
    return out


def units(tier, seed):
    u = []
    nser = 6 if tier == "quick" else 16
    for c in range(nser):
        u.append(({"jpl": "none"}, dict(part="series", tier=tier, chunk=c, of=nser)))
    nsh = 4 if tier == "quick" else 12
    for c in range(nsh):
        u.append(({"jpl": "none"}, dict(part="series_hist", tier=tier, chunk=c, of=nsh)))
    for mode in ("none", "pck", "nopck"):
        u.append(({"jpl": mode}, dict(part="temps", tier=tier, config=mode)))
    nd = len(jpl_dates(tier))
    per = 4 if tier == "quick" else 6
    for mode in ("pck", "nopck"):
        for c in range(0, nd, per):
            u.append(({"jpl": mode}, dict(part="jpl", tier=tier, config=mode, dates=list(range(c, min(nd, c + per))))))
        for c in range(2 if tier == "quick" else 4):
            u.append(({"jpl": mode}, dict(part="scales", tier=tier, config=mode, chunk=c, of=2 if tier == "quick" else 4)))
        for b in HIST_BODIES if tier != "quick" or mode == "pck" else HIST_BODIES[:2]:
            u.append(({"jpl": mode}, dict(part="hist", tier=tier, config=mode, body=b)))
    return u


def run_unit(p, t):
    from mc.ref import spk_ref

    if p["part"] == "series":
        ds = series_dates(p["tier"])[p["chunk"] :: p["of"]]
        for mjd, sec in ds:
            for body in ("Sun", "Moon"):
                check_case(dict(kind="series", body=body, mjd=mjd, sec=sec), t)
        t.sample(dict(kind="series", body="Moon", mjd=ds[0][0], sec=ds[0][1]))
    elif p["part"] == "series_hist":
        import itertools

        bases = SER_BASES[:2] if p["tier"] == "quick" else SER_BASES
        k = 0
        for mjd, sec in bases:
            for depth in (2, 3):
                for seq in itertools.product(SER_ALPHA, repeat=depth):
                    if len(set(b for b, _ in seq)) < 2:
                        continue  # one body alone: covered by the series part
                    k += 1
                    if k % p["of"] != p["chunk"]:
                        continue
                    check_case(dict(kind="series_hist", mjd=mjd, sec=sec, script=[list(x) for x in seq]), t)
                    check_case(dict(kind="series_hist", mjd=mjd, sec=sec, script=[list(x) for x in seq], touch=True), t)
        t.sample(dict(kind="series_hist", mjd=bases[0][0], sec=bases[0][1], script=[["Sun", 0], ["Moon", 1]]))
    elif p["part"] == "temps":
        mode = {"jpl": p["config"]}
        for route in TEMP_ROUTES[p["config"]]:
            for mjd, sec, step in ((55927, 21600.0, 7), (52000, 0.0, 1), (57400, 43200.5, 30)) if p["tier"] == "quick" else (
                    (55927, 21600.0, 7), (52000, 0.0, 1), (57400, 43200.5, 30), (53000, 100.0, 3), (58000, 86000.0, 11)):
                check_case(dict(kind="temps", config=mode, route=list(route), mjd=mjd, sec=sec, step_days=step, n=12 if p["tier"] == "quick" else 40), t)
        t.sample(dict(kind="temps", config=mode, route=list(TEMP_ROUTES[p["config"]][0]), mjd=55927, sec=21600.0, step_days=7, n=12))
    elif p["part"] == "scales":
        import itertools

        mode = {"jpl": p["config"]}
        ids = spk_ref.bodies()
        orders = [SCALES, SCALES[::-1]] if p["tier"] == "quick" else [list(x) for x in itertools.permutations(SCALES)][:: 1 if p["config"] == "pck" else 4]
        k = 0
        for a in ids:
            for b in ids:
                if a == b:
                    continue
                k += 1
                if k % p["of"] != p["chunk"]:
                    continue
                for mjd, sec in SCALE_DATES[: 1 if p["tier"] == "quick" else 2]:
                    for order in orders:
                        for route in ("pair", "sc"):
                            check_case(dict(kind="scales", config=mode, target=a, center=b, mjd=mjd, sec=sec, scales=order, route=route), t)
        t.sample(dict(kind="scales", config=mode, target=499, center=301, mjd=SCALE_DATES[0][0], sec=SCALE_DATES[0][1], scales=SCALES, route="pair"))
    elif p["part"] == "hist":
        mode = {"jpl": p["config"]}
        for script in hist_scripts(p["tier"]):
            check_case(dict(kind="hist", config=mode, body=p["body"], script=script), t)
        t.sample(dict(kind="hist", config=mode, body=p["body"], script=["G1", "F", "G1"]))
    else:
        mode = {"jpl": p["config"]}
        ids = spk_ref.bodies()
        dates = jpl_dates(p["tier"])
        if 0 in p["dates"]:
            check_case(dict(kind="config", config=mode), t)
        for di in p["dates"]:
            mjd, sec, scale = dates[di]
            for a in ids:
                for b in ids:
                    if a != b:
                        check_case(dict(kind="pair", config=mode, target=a, center=b, mjd=mjd, sec=sec, scale=scale), t)
            for (c_, t_) in sorted(spk_ref.kernel()):
                check_case(dict(kind="prop", config=mode, obj=t_, frame=c_, mjd=mjd, sec=sec, scale=scale), t)
                check_case(dict(kind="prop", config=mode, obj=c_, frame=t_, mjd=mjd, sec=sec, scale=scale), t)
            for b in ids:
                for dr in ("to", "from"):
                    check_case(dict(kind="sc", config=mode, center=b, dir=dr, mjd=mjd, sec=sec, scale=scale), t)
        t.sample(dict(kind="pair", config=mode, target=499, center=301, mjd=dates[p["dates"][0]][0], sec=dates[p["dates"][0]][1], scale=dates[p["dates"][0]][2]))
