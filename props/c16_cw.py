"""C16 — Clohessy-Wiltshire propagation solves Hill's equations.

The propagator is linear in the state and affine in thrust / delta-v, so a basis of
states and thrust directions is a complete alphabet for the state dimension; time,
radius, orientation and the shape of the maneuver list are enumerated.  Every
library result is compared with `mc/ref/hill.py` (Hill's equations *integrated*,
Taylor order 24) or, for the small-separation clause, with the difference of two
reference two-body orbits (`mc/ref/twobody.py`).
"""

import itertools
import math

import numpy as np

PROPERTY = "C16"
CLAIM = dict(
    text="Every element of a finite product (target radius x orientation x basis/combined relative states x signed dt x "
    "every chronologically ordered maneuver list up to 3 events over {impulse, burn} x query dates before/at/inside/after "
    "each event) is executed on the real ClohessyWiltshire propagator and compared with an independent integration of "
    "Hill's equations; composition, inverse, the velocity jump at an impulse, the QSW/TNW permutation, the second-order "
    "agreement with two Kepler orbits and every CWHelper builder are checked on the same grid. Because the propagator is "
    "linear in the state and affine in the maneuvers, a basis covers the state dimension exhaustively.",
    note="Trusts mc/ref/hill.py (self-tested against RK4+Richardson, first integrals, inverse pair) and mc/ref/twobody.py; "
    "Date arithmetic exact to 1 microsecond (C03). Maneuvers carry frame=None (vector given in the Hill frame axes).",
    technique="exhaustive product over finite input alphabets on the real code vs. independent numerical integration of Hill's equations",
)
RULE = (
    "case = (kind, radius, orientation, initial state, maneuver list, query offset); maneuver lists = all type words over "
    "{I,C} of length <= 3 x first offset x gap pattern (touching / separated) x axis rotation, chronologically ordered, plus "
    "the class 'impulse strictly inside a burn'; queries = epoch-1s, every event edge -1s/-1ms/at/+1ms/+1s, mid-burn, "
    "mid-gap, after the last event, and the dt alphabet. non-trivial = dt != 0 (the state actually evolves); distinct by tuple"
)
BOUNDS = {
    "quick": "R in {6778, 26560, 42164} km; 8 states; 13 dt; 252 ordered maneuver lists + 18 impulse-in-burn lists on one combined initial state; "
    "Kepler comparison: 9 separations 4 km..15.6 m x 5 shapes x 5 dt; helpers: 7 builders x 6 distances",
    "thorough": "R in {6578, 6778, 7378, 26560, 42164} km; 10 states; 21 dt; 2 burn durations; lists up to 3 events with 3 gap "
    "values, 2 initial states; Kepler: 8 shapes x 8 dt; helpers x 10 distances",
}
ASSUMPTIONS = [
    "reference = Taylor-series (order 24) integration of Hill's equations in nondimensional time; impulses once at their date, thrust on [start, stop)",
    "history part: answers are compared bit-for-bit with a fresh orbit/propagator; the bound orbit, the user's orbit and its maneuvers must be unchanged",
    "at a query date exactly equal to an impulse date either the pre- or the post-impulse state is accepted (the property fixes neither)",
    "Date comparisons have ~0.6 us resolution (float MJD): query dates are kept >= 1 ms away from event dates unless exactly equal",
    "small-separation clause: bound 3 rho_max^2/R x (1.5 theta^2 + 8 theta) from Duhamel's formula with the quadratic gravity residual |da| <= 3 n^2 rho^2/R",
]
NOT_COVERED = (
    "two overlapping thrust arcs; maneuvers dated before the epoch of the orbit; maneuvers with frame='QSW'/'TNW' tags "
    "inside the Hill frame; targets on non-circular orbits; separations beyond a few km"
)

RADII = {"quick": [6778e3, 26560e3, 42164e3], "thorough": [6578e3, 6778e3, 7378e3, 26560e3, 42164e3]}
ORIENTS = ["QSW", "TNW"]
EPOCH = (2020, 5, 24, 3, 0, 0)

_G = {}


def setup(config):
    from mc import world
    from mc.ref import hill
    from beyond.constants import Earth

    hill_ok = hill  # noqa
    _G["snap"] = world.snapshot()
    _G["mu"] = float(Earth.mu)


def _mu():
    if "mu" not in _G:
        setup(None)
    return _G["mu"]


def us(x):
    """round seconds to the microsecond grid of timedelta"""
    return round(x * 1e6) / 1e6


def mean_motion(R):
    return math.sqrt(_mu() / R**3)


# ---------------------------------------------------------------------------
# alphabets


def states(tier):
    s = [list(map(float, row)) for row in np.eye(6)]
    s.append([120.0, -300.0, 45.0, 0.3, -0.2, 0.1])
    s.append([-2000.0, 3500.0, 1500.0, -2.5, 1.5, 3.0])
    if tier != "quick":
        s.append([4000.0, -4000.0, -4000.0, 3.0, -3.0, 3.0])
        s.append([-0.001, 0.002, 0.0005, 1e-5, -2e-5, 1e-6])
    return s


def dts(R, tier):
    P = 2 * math.pi / mean_motion(R)
    base = [0.0, 1.0, -1.0, 1234.567]
    fr = [0.25, 0.5, 1.0, 2.0] if tier == "quick" else [0.125, 0.25, 0.5, 0.75, 1.0, 1.5, 2.0]
    for f in fr:
        base += [us(f * P), -us(f * P)]
    if tier != "quick":
        base += [1e-3, -7.5, 0.000001]
    return base


def man_lists(R, tier):
    """Every chronologically ordered list of <= 3 maneuvers over {I, C}.
    A maneuver = dict(type, start, [dur], vec (QSW axes), [spec: 'accel'|'dv'], [pos])."""
    P = 2 * math.pi / mean_motion(R)
    durs = [450.125] if tier == "quick" else [450.125, us(P / 3)]
    gaps = [0.0, 600.25] if tier == "quick" else [0.0, 600.25, us(P / 2)]
    firsts = [0.0, 300.5]
    out = [[]]
    for k in (1, 2, 3):
        for word in itertools.product("IC", repeat=k):
            for first in firsts:
                for gp in itertools.product(gaps, repeat=k - 1):
                    for shift in range(3):
                        for dur in durs if "C" in word else durs[:1]:
                            t = first
                            lst = []
                            for j, ty in enumerate(word):
                                if j:
                                    t = us(t + gp[j - 1])
                                axis = (j + shift) % 3
                                sign = -1.0 if (j + shift) % 2 else 1.0
                                vec = [0.0, 0.0, 0.0]
                                if ty == "I":
                                    vec[axis] = sign * 0.2 * (j + 1)
                                    lst.append(dict(type="I", start=t, vec=vec))
                                else:
                                    vec[axis] = sign * 2e-4 * (j + 1)
                                    lst.append(
                                        dict(type="C", start=t, dur=dur, vec=vec, spec="dv" if j % 2 else "accel",
                                             pos=("start", "median", "stop")[(j + shift) % 3])
                                    )
                                    t = us(t + dur)
                            out.append(lst)
    return out


def inburn_lists(R, tier):
    """Impulse strictly inside a thrust arc (listed after the arc: ordered by start date)."""
    out = []
    for first in (0.0, 300.5):
        for ai in range(3):
            for di in range(3):
                acc = [0.0] * 3
                acc[ai] = 2e-4
                dv = [0.0] * 3
                dv[di] = -0.3
                out.append(
                    [
                        dict(type="C", start=first, dur=450.125, vec=acc, spec="accel", pos="start"),
                        dict(type="I", start=us(first + 200.0), vec=dv),
                    ]
                )
    return out


def special_burn_lists(R, tier):
    """(list, queries) pairs outside the regular enumeration:
    * burns given by dv= lasting one day or more (only where a day is within the +-2 periods of the quantifier: GEO-class targets);
    * burns whose start offset equals their duration (two consecutive internal steps of identical length), queried at
      twice the start, at the end of the burn and after it."""
    P = 2 * math.pi / mean_motion(R)
    out = []
    if 2 * P >= 93600.0:
        for dur in (93600.0, us(1.5 * P)):
            for pos in ("start", "median"):
                for axis in range(3):
                    vec = [0.0, 0.0, 0.0]
                    vec[axis] = 2e-6 * (axis + 1)
                    m = [dict(type="C", start=300.5, dur=dur, vec=vec, spec="dv", pos=pos)]
                    out.append((m, [us(300.5 + dur / 2), us(300.5 + dur), us(300.5 + dur + 1000.0)]))
    for start, dur in ((600.0, 600.0), (60.0, 60.0), (60.0, 450.125), (us(P / 8), us(P / 8))):
        for axis in range(3):
            vec = [0.0, 0.0, 0.0]
            vec[axis] = 2e-4 * (axis + 1)
            for spec in ("accel", "dv"):
                m = [dict(type="C", start=start, dur=dur, vec=vec, spec=spec, pos="start")]
                out.append((m, sorted(set([us(2 * start), us(start + dur), us(start + dur + 500.0)]))))
    return out


def edges(mans):
    e = []
    for m in mans:
        e.append(m["start"])
        if m["type"] == "C":
            e.append(us(m["start"] + m["dur"]))
    return sorted(set(e))


def queries(mans, R):
    P = 2 * math.pi / mean_motion(R)
    q = {-1.0, us(P / 3)}
    ed = edges(mans)
    for b in ed:
        for d in (-1.0, -0.001, 0.0, 0.001, 1.0):
            q.add(us(b + d))
    for a, b in zip(ed, ed[1:]):
        q.add(us((a + b) / 2))
    if ed:
        q.add(us(ed[-1] + P / 3))
        q.add(us(ed[-1] + P))
    # drop queries closer than 1 ms (but not equal) to an edge: Date comparison resolution
    return sorted(q)


# ---------------------------------------------------------------------------
# running the real code


def _date(off):
    from beyond.dates import Date, timedelta

    return Date(*EPOCH) + timedelta(seconds=off)


RTYPES = ['int', 'float', 'np.int64', 'np.float64']


def cast_radius(R, rtype):
    """The radius as the caller may hand it over (all radii of the alphabet are whole numbers of metres)."""
    if rtype in (None, 'float'):
        return float(R)
    if int(R) != R:
        raise RuntimeError('harness: radius is not a whole number')
    return {'int': int, 'np.int64': np.int64, 'np.float64': np.float64}[rtype](int(R))


def lib_orbit(R, orient, s_qsw, mans, rtype=None):
    """Fresh world, fresh HillFrame/propagator/Orbit; state and vectors given in QSW are expressed in `orient` axes."""
    from mc import world
    from mc.ref import hill
    from beyond.dates import Date, timedelta
    from beyond.orbits import Orbit
    from beyond.orbits.man import ImpulsiveMan, ContinuousMan
    from beyond.propagators.cw import ClohessyWiltshire
    from beyond.frames.frames import HillFrame

    if "snap" not in _G:
        setup(None)
    world.restore(_G["snap"])
    frame = HillFrame(orientation=orient)
    prop = ClohessyWiltshire(cast_radius(R, rtype), frame=frame)
    M6 = hill.P6 if orient == "TNW" else np.eye(6)
    M3 = hill.P3 if orient == "TNW" else np.eye(3)
    orb = Orbit(M6 @ np.asarray(s_qsw, dtype=float), Date(*EPOCH), "cartesian", "Hill", prop)
    lst = []
    for m in mans:
        vec = M3 @ np.asarray(m["vec"], dtype=float)
        if m["type"] == "I":
            lst.append(ImpulsiveMan(_date(m["start"]), vec))
        else:
            dur = timedelta(seconds=m["dur"])
            pos = m.get("pos", "start")
            ref_date = {"start": m["start"], "median": m["start"] + m["dur"] / 2, "stop": m["start"] + m["dur"]}[pos]
            if m.get("spec", "accel") == "accel":
                lst.append(ContinuousMan(_date(ref_date), dur, accel=vec, date_pos=pos))
            else:
                lst.append(ContinuousMan(_date(ref_date), dur, dv=vec * m["dur"], date_pos=pos))
    if lst:
        orb.maneuvers = lst
    return orb, M6


def ref_state(R, s_qsw, mans, q):
    from mc.ref import hill

    n = mean_motion(R)
    imps = [(m["start"], m["vec"]) for m in mans if m["type"] == "I"]
    burns = [(m["start"], us(m["start"] + m["dur"]), m["vec"]) for m in mans if m["type"] == "C"]
    return hill.propagate(s_qsw, q, n, imps, burns)


def size(R, s_qsw, mans, q):
    """Magnitude scale of the result: sum of absolute contributions (conditioning of the sum)."""
    n = mean_motion(R)
    th = n * abs(q)
    g = 1 + th
    r = np.linalg.norm(s_qsw[:3])
    v = np.linalg.norm(s_qsw[3:])
    L = 7 * r + 6 * r * th + (4 + 3 * th) * v / n
    for m in mans:
        if m["start"] <= q:
            thm = n * (q - m["start"])
            a = np.linalg.norm(m["vec"])
            if m["type"] == "I":
                L += (4 + 3 * thm) * a / n
            else:
                # thrust columns: (1 - cos)/n^2, (nt - sin)/n^2, (4(1-cos) - 1.5 (nt)^2)/n^2: terms of size a/n^2
                thb = n * min(m["dur"], q - m["start"])
                L += a / (n * n) * (8 + 4 * thb + 1.5 * thb * thb) * (1 + 3 * thm)
    return max(L, 1e-9), g


REL = 4e-14  # unit round-off x (few tens of operations, argument reduction of n*t up to 4 pi)


def sig_mans(mans, q):
    """Input class of a maneuver list relative to the query date."""
    if not mans:
        return "free"
    seen = [m for m in mans if m["start"] <= q]
    if not seen:
        return "before-first-maneuver"
    inburn = any(
        m["type"] == "I" and m["start"] <= q and any(c["type"] == "C" and c["start"] < m["start"] < c["start"] + c["dur"] for c in mans)
        for m in mans
    )
    if inburn:
        return "impulse-inside-burn"
    last = seen[-1]
    if last["type"] == "C" and q < last["start"] + last["dur"]:
        return "during-burn"
    return "after-burn" if any(m["type"] == "C" for m in seen) else "after-impulse"


def _lib_prop(orb, q, t, sig, clause, case):
    try:
        r = orb.propagate(_date(q))
        t.trans()
    except Exception as e:  # library raised where a value is required
        t.fail(sig + "/raises", clause, case, "a state", repr(e))
        return None
    return r


def check_agree(case, t):
    from mc.ref import hill

    R, orient, s, mans, q = case["R"], case["orient"], case["s"], case["mans"], case["q"]
    rtype = case.get("rtype")
    orb, M6 = lib_orbit(R, orient, s, mans, rtype)
    cls = sig_mans(mans, q)
    sig = f"cw.propagate/{cls}"
    if rtype not in (None, "float"):
        sig = f"cw.n/radius-{rtype}"  # same input as a float radius, different argument type
    clause = "state satisfies Hill's equations (with thrust / impulses)"
    r = _lib_prop(orb, q, t, sig, clause, case)
    if r is None:
        return
    got = M6.T @ np.array(r, dtype=float)
    ref = ref_state(R, s, mans, q)
    n = mean_motion(R)
    L, g = size(R, s, mans, q)
    alts = [ref]
    at_imp = [m for m in mans if m["type"] == "I" and m["start"] == q]
    if at_imp:
        pre = ref.copy()
        for m in at_imp:
            pre[3:] -= np.asarray(m["vec"])
        alts.append(pre)
    best = None
    for a in alts:
        ep = np.max(np.abs(got[:3] - a[:3])) / L
        evv = np.max(np.abs(got[3:] - a[3:])) / (L * n)
        e = max(ep, evv)
        if best is None or e < best[0]:
            best = (e, a)
    e, a = best
    grp = "impulse inside burn" if cls == "impulse-inside-burn" else "ordered maneuver lists" if mans else "free motion"
    if rtype not in (None, "float"):
        grp = f"radius given as {rtype}"
    ok = t.margin(f"CW vs integrated Hill eq., {grp} [rel. to size of terms]", e if np.isfinite(e) else float("inf"), REL * g, case)
    d = r.date - orb.date
    if abs(d.total_seconds() - q) > 0:
        t.fail("cw.propagate/date", "result is dated at the requested date", case, q, d.total_seconds())
    if not ok:
        t.fail(sig, clause, case, a, got, f"max scaled error {e:.3e} > {REL*g:.3e}; size {L:.3e} m")
    t.outcome(("agree", cls))
    return got


def check_perm(case, t):
    from mc.ref import hill

    R, s, mans, q = case["R"], case["s"], case["mans"], case["q"]
    res = {}
    for orient in ORIENTS:
        orb, M6 = lib_orbit(R, orient, s, mans)
        r = _lib_prop(orb, q, t, "cw.propagate/perm", "TNW result is the fixed permutation of the QSW result", case)
        if r is None:
            return
        if r.frame.orientation != orient or orb.frame.orientation != orient:
            t.fail("cw.frame/orientation", "result carries the orientation of its propagator", case, orient, r.frame.orientation)
        res[orient] = np.array(r, dtype=float)
    n = mean_motion(R)
    L, g = size(R, s, mans, q)
    d = res["TNW"] - hill.P6 @ res["QSW"]
    e = max(np.max(np.abs(d[:3])) / L, np.max(np.abs(d[3:])) / (L * n))
    if not t.margin("TNW vs permuted QSW [rel.]", e, 1e-15 * 8, case):
        t.fail("cw.propagate/perm", "TNW result is the fixed axis permutation of the QSW result", case,
               hill.P6 @ res["QSW"], res["TNW"], f"scaled diff {e:.3e}")
    t.outcome("perm")


def check_compose(case, t):
    """propagate(q1) then propagate(q2 - q1) from the result == propagate(q2)."""
    R, orient, s, mans, q1, q2 = case["R"], case["orient"], case["s"], case["mans"], case["q1"], case["q2"]
    orb, M6 = lib_orbit(R, orient, s, mans)
    n = mean_motion(R)
    passed = [m for m in mans if m["start"] <= max(q1, 0)]
    cls = "free" if not mans else ("through-maneuver" if passed else "maneuvers-ahead")
    sig = f"cw.propagate/compose/{cls}"
    clause = "propagation composes: t1 then t2 equals t1+t2 (backwards is the inverse)"
    a = _lib_prop(orb, q1, t, sig, clause, case)
    if a is None:
        return
    try:
        b = a.propagate(_date(q2))
        t.trans()
    except Exception as e:
        t.fail(sig + "/raises", clause, case, "a state", repr(e))
        return
    orb2, _ = lib_orbit(R, orient, s, mans)
    c = _lib_prop(orb2, q2, t, sig, clause, case)
    if c is None:
        return
    b = np.array(b, dtype=float)
    c = np.array(c, dtype=float)
    L1, g1 = size(R, s, mans, q1)
    L2, g2 = size(R, s, mans, q2)
    # the intermediate state has size L1 and is propagated by |q2-q1|
    th = n * abs(q2 - q1)
    L = L2 + L1 * (7 + 6 * th)
    e = max(np.max(np.abs(b[:3] - c[:3])) / L, np.max(np.abs(b[3:] - c[3:])) / (L * n))
    if not t.margin(f"composition, {cls} [rel.]", e, REL, case):
        t.fail(sig, clause, case, c, b, f"scaled diff {e:.3e}; |dpos|={np.max(np.abs(b[:3]-c[:3])):.3e} m")
    t.outcome(("compose", cls))


def check_jump(case, t):
    """Velocity change across an impulse date, 1 ms before -> 1 ms after, equals the sum of delta-v at that date
    (+ the smooth Hill acceleration over 2 ms, predicted to first order from the library's own state)."""
    from mc.ref import hill

    R, orient, s, mans, b = case["R"], case["orient"], case["s"], case["mans"], case["b"]
    eps = 0.001
    n = mean_motion(R)
    orb, M6 = lib_orbit(R, orient, s, mans)
    sig = "cw.propagate/impulse-jump"
    clause = "an impulsive maneuver changes the velocity by exactly its delta-v exactly once at its date"
    before = _lib_prop(orb, us(b - eps), t, sig, clause, case)
    after = _lib_prop(orb, us(b + eps), t, sig, clause, case)
    if before is None or after is None:
        return
    x0 = M6.T @ np.array(before, dtype=float)
    x1 = M6.T @ np.array(after, dtype=float)
    dv = np.zeros(3)
    for m in mans:
        if m["type"] == "I" and m["start"] == b:
            dv += np.asarray(m["vec"])
    acc0 = np.zeros(3)
    acc1 = np.zeros(3)
    for m in mans:
        if m["type"] == "C":
            if m["start"] <= b - eps < m["start"] + m["dur"]:
                acc0 += np.asarray(m["vec"])
            if m["start"] <= b + eps < m["start"] + m["dur"]:
                acc1 += np.asarray(m["vec"])
    smooth = eps * (hill.rhs(x0, acc0, n)[3:] + hill.rhs(x1, acc1, n)[3:])
    resid = x1[3:] - x0[3:] - dv - smooth
    dpos = x1[:3] - x0[:3] - eps * (x0[3:] + x1[3:])
    L, g = size(R, s, mans, b)
    # second-order remainder of the trapezoid: jerk ~ n * accel; plus round-off of the two states
    a_typ = 3 * n * n * L + 2 * n * (L * n) + np.linalg.norm(acc0) + np.linalg.norm(acc1)
    tol_v = 4 * n * a_typ * eps * eps + 4 * n * n * np.linalg.norm(dv) * eps * eps + REL * g * L * n * 2
    tol_p = 4 * a_typ * eps * eps + REL * g * L * 2
    cls = sig_mans(mans, b + eps)
    grp = "impulse inside burn" if cls == "impulse-inside-burn" else "ordered maneuver lists"
    ok1 = t.margin(f"impulse velocity jump, {grp} [m/s over tol]", np.max(np.abs(resid)), tol_v, case)
    ok2 = t.margin("position continuity at impulse [m over tol]", np.max(np.abs(dpos)), tol_p, case)
    if not ok1:
        # an impulse inside a burn that is skipped is the same defect as the one seen by the state comparison
        fsig = "cw.propagate/impulse-inside-burn" if cls == "impulse-inside-burn" else sig
        t.fail(fsig, clause, case, dv + smooth, x1[3:] - x0[3:], f"residual {resid}")
    if not ok2:
        t.fail("cw.propagate/impulse-position", "position is continuous through an impulse", case, 0.0, dpos)
    t.outcome("jump")


# ---------------------------------------------------------------------------
# small separations: CW vs. difference of two Kepler orbits

SHAPES = {
    # relative state in units of rho (position) and n*rho (velocity)
    "radial-coelliptic": [1, 0, 0, 0, -1.5, 0],
    "vbar-hold": [0, 1, 0, 0, 0, 0],
    "cross-track": [0, 0, 1, 0, 0, 0.5],
    "football": [0.5, 0, 0, 0, -1.0, 0],
    "general": [0.4, -0.6, 0.5, 0.3, -0.5, 0.4],
    "radial-kick": [0, 0.2, 0, 0.7, 0, 0],
    "along-kick": [0, 0, 0, 0, 0.1, 0],
    "oblique": [-0.5, 0.5, -0.5, -0.2, 0.9, -0.3],
}


def target_state(R):
    from mc.ref import twobody

    return twobody.kep_to_cart(R, 0.0, 0.9, 1.1, 0.0, 0.4, _mu())


def triad(rv):
    r, v = rv[:3], rv[3:]
    q = r / np.linalg.norm(r)
    w = np.cross(r, v)
    w = w / np.linalg.norm(w)
    s = np.cross(w, q)
    return np.array([q, s, w])


def kepler_relative(R, rel0, dt, nsamp=0):
    """Two reference two-body orbits; relative state in the target's (rotating, rectilinear) QSW frame at dt."""
    from mc.ref import twobody

    mu = _mu()
    n = mean_motion(R)
    tg = target_state(R)
    M = triad(tg)
    om = n * M[2]
    rho = M.T @ rel0[:3]
    ch = np.concatenate([tg[:3] + rho, tg[3:] + M.T @ rel0[3:] + np.cross(om, rho)])
    out = []
    for k in range(1, nsamp + 1):
        tk = dt * k / nsamp
        a = twobody.propagate_uv(tg, tk, mu)
        b = twobody.propagate_uv(ch, tk, mu)
        out.append(np.linalg.norm(b[:3] - a[:3]))
    a = twobody.propagate_uv(tg, dt, mu)
    b = twobody.propagate_uv(ch, dt, mu)
    Mt = triad(a)
    d = b - a
    rho_t = Mt @ d[:3]
    vel_t = Mt @ d[3:] - np.cross([0, 0, n], rho_t)
    rmax = max(out + [np.linalg.norm(rel0[:3])])
    return np.concatenate([rho_t, vel_t]), rmax


def check_kepler(case, t):
    R, orient, shape, rho, dt = case["R"], case["orient"], case["shape"], case["rho"], case["dt"]
    n = mean_motion(R)
    th = n * abs(dt)
    sig = "cw-vs-kepler"
    clause = "for small separations CW agrees with the difference of two Kepler orbits to second order in the separation"
    errs = []
    for rr in (rho, rho / 2):
        rel0 = np.array(SHAPES[shape], dtype=float) * rr
        rel0[3:] *= n
        orb, M6 = lib_orbit(R, orient, rel0, [])
        r = _lib_prop(orb, dt, t, sig, clause, case)
        if r is None:
            return
        cw = M6.T @ np.array(r, dtype=float)
        kep, rmax = kepler_relative(R, rel0, dt, nsamp=12)
        ep = np.linalg.norm(cw[:3] - kep[:3])
        evv = np.linalg.norm(cw[3:] - kep[3:])
        errs.append((ep, evv, rmax))
    ep, evv, rmax = errs[0]
    floor = 2e-15 * R * (1 + th) * 10  # round-off of the two-body differences
    bound_p = 3 * rmax**2 / R * (1.5 * th * th + 8 * th) * (1 + 10 * rmax / R) + floor
    bound_v = 3 * n * rmax**2 / R * (10 * th + 2) * (1 + 10 * rmax / R) + floor * n
    ok = t.margin("CW vs Kepler: position error / second-order bound", ep, bound_p, case)
    okv = t.margin("CW vs Kepler: velocity error / second-order bound", evv, bound_v, case)
    if not ok or not okv:
        t.fail(sig + "/bound", clause, case, [bound_p, bound_v], [ep, evv], f"rho_max={rmax:.1f} m theta={th:.2f}")
    ep2 = errs[1][0]
    if ep2 > 200 * floor and rmax / R < 5e-3:
        ratio = ep / ep2
        # third-order terms change the ratio by O(rho_max/R) x O(10)
        dev = abs(ratio - 4) / 4
        if not t.margin("CW vs Kepler: |err(rho)/err(rho/2) - 4|/4", dev, 0.02 + 40 * rmax / R, case):
            t.fail(sig + "/order", clause + " (error quarters when the separation is halved)", case, 4.0, ratio,
                   f"err(rho)={ep:.3e} err(rho/2)={ep2:.3e}")
        t.outcome("kepler-ratio")
    else:
        t.outcome("kepler-below-floor")


# ---------------------------------------------------------------------------
# CWHelper builders

HELPERS = ["coelliptic", "hohmann", "hohmann-cont", "eccentric", "eccentric-cont", "tangential", "vbar"]


def check_helper(case, t):
    """The announced displacement, under the library's own propagator."""
    from mc import world
    from mc.ref import hill
    from beyond.dates import Date, timedelta
    from beyond.propagators.cw import ClohessyWiltshire
    from beyond.frames.frames import HillFrame
    from beyond.utils.cwhelper import CWHelper
    from beyond.orbits.man import ImpulsiveMan, ContinuousMan

    R, orient, kind, d, x0f, y0 = case["R"], case["orient"], case["helper"], case["d"], case["x0f"], case["y0"]
    if "snap" not in _G:
        setup(None)
    world.restore(_G["snap"])
    n = mean_motion(R)
    P = 2 * math.pi / n
    frame = HillFrame(orientation=orient)
    prop = ClohessyWiltshire(R, frame=frame)
    helper = CWHelper(prop)
    M6 = hill.P6 if orient == "TNW" else np.eye(6)
    epoch = Date(*EPOCH)
    sig = f"cwhelper.{kind}"
    t0 = 60.0  # maneuver start after the epoch
    start = epoch + timedelta(seconds=t0)

    def qsw(o):
        return M6.T @ np.array(o, dtype=float)

    def prop_at(orb, off):
        r = orb.propagate(epoch + timedelta(seconds=off))
        t.trans()
        return qsw(r)

    # time resolution: helper.period (and period/2) are rounded to 1 us by timedelta; the state moves by at most
    # n * L per second, so the announced figures hold to n * L * (rounding) + round-off of terms of size L
    def tols(Lpos, dtres, theta):
        tp = Lpos * (n * dtres + REL * (1 + theta))
        return tp, tp * n

    try:
        if kind == "coelliptic":
            x0 = d
            orb = helper.coelliptic(epoch, x0, y0)
            t.trans()
            s = qsw(orb)
            exp = np.array([x0, y0, 0, 0, -1.5 * n * x0, 0])
            L = abs(x0) + abs(y0)
            if orb.frame.orientation != orient:
                t.fail(sig + "/frame", "helper orbit lives in the propagator's Hill frame", case, orient, orb.frame.orientation)
            if np.max(np.abs(s - exp)) > 0:
                t.margin("coelliptic initial state [m]", np.max(np.abs(s[:3] - exp[:3])), 1e-12 * L, case)
                if np.max(np.abs(s[:3] - exp[:3])) > 1e-12 * L or np.max(np.abs(s[3:] - exp[3:])) > 1e-12 * L * n:
                    t.fail(sig + "/state", "coelliptic(): at (radial, tangential), drifting at -1.5 n radial", case, exp, s)
            for off in (us(P / 4), us(P), -us(P / 2)):
                r = prop_at(orb, off)
                e = np.array([x0, y0 - 1.5 * n * x0 * off, 0, 0, -1.5 * n * x0, 0])
                Ld = L + abs(1.5 * n * x0 * off)
                ok = t.margin("coelliptic drift: radial stays, along-track linear [rel]",
                              max(np.max(np.abs(r[:3] - e[:3])) / Ld, np.max(np.abs(r[3:] - e[3:])) / (Ld * n)), REL * (1 + n * abs(off)), case)
                if not ok:
                    t.fail(sig + "/drift", "coelliptic orbit keeps its radial distance and drifts linearly", case, e, r, f"dt={off}")
            t.outcome("coelliptic")
            return

        if kind in ("hohmann", "hohmann-cont"):
            cont = kind.endswith("cont")
            x0 = x0f * d  # x0f = -1: transfer ends on the V-bar
            orb = helper.coelliptic(epoch, x0, y0)
            mans = helper.hohmann(d, start, continuous=cont)
            ann = helper.hohmann_distance(d, continuous=cont)
            t.trans(3)
            T = us(P) if cont else us(P) / 2
            exp_x = x0 + d
        elif kind in ("eccentric", "eccentric-cont"):
            cont = kind.endswith("cont")
            x0 = 0.0
            orb = helper.coelliptic(epoch, 0.0, y0)
            mans = helper.eccentric_boost(d, start, continuous=cont)
            t.trans(2)
            ann = d
            T = us(P) if cont else us(P) / 2
            exp_x = 0.0
        elif kind == "tangential":
            x0 = 0.0
            orb = helper.coelliptic(epoch, 0.0, y0)
            mans = helper.tangential_boost(d, start)
            t.trans(2)
            ann = d
            T = us(P)
            exp_x = 0.0
        elif kind == "vbar":
            x0 = 0.0
            speed = case["speed"]
            orb = helper.coelliptic(epoch, 0.0, y0)
            mans = helper.vbar_linear(d, start, speed)
            t.trans(2)
            ann = d
            T = us(abs(d / speed))
            exp_x = 0.0
        else:
            raise ValueError(kind)
        orb.maneuvers = list(mans)
        for m in mans:
            if not isinstance(m, (ImpulsiveMan, ContinuousMan)):
                t.fail(sig + "/type", "builders return maneuvers", case, "Man", repr(type(m)))
        pre = prop_at(orb, t0 - 0.001)
        y_start = pre[1] + pre[4] * 0.001  # coelliptic drift is uniform
        theta = n * (t0 + T + P / 3)
        L = (abs(d) + abs(x0) + abs(y0)) * (10 + 6 * theta)
        if kind == "vbar":
            L += abs(speed) / n * (8 + 6 * theta)
        dtres = {"hohmann": 1e-6, "eccentric": 1e-6, "hohmann-cont": 0.5e-6, "eccentric-cont": 0.5e-6, "tangential": 0.5e-6, "vbar": 0.0}[kind]
        tp, tv = tols(L, dtres, theta)
        if kind == "vbar":
            tp += abs(speed) * 0.5e-6  # the duration |d/speed| is rounded to 1 us
        # end of the transfer, and later: at rest (x=0) / coelliptic (x != 0)
        for extra in (0.001, 1.0, us(P / 3)):
            off = us(t0 + T + extra)
            r = prop_at(orb, off)
            exp_rest = np.array([exp_x, 0, 0, 0, -1.5 * n * exp_x, 0])
            ok_x = t.margin(f"helper {kind}: radial displacement [m over tol]", abs(r[0] - exp_x), tp, case)
            ok_v = t.margin(f"helper {kind}: final relative velocity [m/s over tol]",
                            np.max(np.abs(r[3:] - exp_rest[3:])), tv, case)
            ok_z = abs(r[2]) <= tp
            if not (ok_x and ok_z):
                t.fail(sig + "/radial", "helper moves the chaser by exactly the announced radial distance", case, exp_x, r[0], f"offset {off}")
            if not ok_v:
                t.fail(sig + "/rest", "helper leaves the chaser at rest (coelliptic) where it says so", case, exp_rest[3:], r[3:], f"offset {off}")
            if x0f == -1 or kind not in ("hohmann", "hohmann-cont"):
                # announced along-track travel, counted from the start of the maneuver (drift afterwards is zero at x=0)
                trav = r[1] - y_start
                ok_y = t.margin(f"helper {kind}: along-track displacement [m over tol]", abs(trav - ann),
                                tp, case)
                if not ok_y:
                    t.fail(sig + "/tangential", "helper moves the chaser by exactly the announced along-track distance", case, ann, trav, f"offset {off}")
        if kind == "vbar":
            # linear approach: on the V-bar at constant speed during the approach
            for f in (0.25, 0.5, 0.75):
                off = us(t0 + f * T)
                r = prop_at(orb, off)
                e = np.array([0, y_start + math.copysign(speed, d) * (off - t0), 0, 0, math.copysign(speed, d), 0])
                ok = t.margin("helper vbar: straight line at constant speed [m over tol]", np.max(np.abs(r[:3] - e[:3])),
                              tp, case)
                okv = np.max(np.abs(r[3:] - e[3:])) <= tv + 1e-12 * abs(speed)
                if not (ok and okv):
                    t.fail(sig + "/line", "linear V-bar approach stays on the V-bar at the given speed", case, e, r, f"offset {off}")
        t.outcome(("helper", kind, d > 0))
    except (AttributeError, TypeError, ValueError, KeyError, ZeroDivisionError, RuntimeError) as e:
        import traceback

        tb = traceback.extract_tb(e.__traceback__)
        if any("/beyond/" in fr.filename for fr in tb[-1:]):
            t.fail(sig + "/raises", "helper builds maneuvers usable by the propagator", case, "maneuvers", repr(e))
        else:
            raise



# ---------------------------------------------------------------------------
# history independence: one initialised propagator asked several times


def hist_lists(R, tier):
    """Maneuver lists for the history part: <= 2 events, axis rotation 0, both first offsets (0.0 = maneuver dated
    EXACTLY at the epoch of the chaser), touching / separated, plus one impulse-in-burn list."""
    out = []
    for mans in man_lists(R, tier):
        if 1 <= len(mans) <= 2 and all(abs(m["vec"][j % 3]) > 0 for j, m in enumerate(mans)):
            out.append(mans)
    seen = []
    for m in out:
        if m not in seen:
            seen.append(m)
    return seen + inburn_lists(R, tier)[:1]


def hist_scripts(mans, R, tier):
    """Every sequence of <= 3 requests over the alphabet
       ('prop', q)  propagator.propagate(date) on the already initialised propagator (no re-binding of the orbit)
       ('orb', q)   Orbit.propagate(date) (re-binds a copy of the orbit)
       ('iter',)    list(Orbit.iter(stop, step)) ; ('ephem',) Orbit.ephem(stop, step)
    with q in {epoch, a date inside the list, a date after it}."""
    ed = edges(mans)
    q_mid = us((ed[0] + ed[-1]) / 2) if ed[-1] > ed[0] else us(ed[0] + 0.5)
    q_end = us(ed[-1] + 777.0)
    alpha = [("prop", 0.0), ("prop", q_mid), ("prop", q_end), ("orb", q_end), ("iter",)]
    if tier != "quick":
        alpha += [("ephem",), ("orb", q_mid)]
    depth = 3
    out = []
    for k in range(1, depth + 1):
        import itertools as _it

        for seq in _it.product(alpha, repeat=k):
            out.append([list(x) for x in seq])
    return out, q_end


def mut_lists(R, tier):
    """Initial maneuver lists for the in-place modification scripts (the empty list included)."""
    L = hist_lists(R, tier)
    pick = [[]]
    for want in (["I"], ["C"], ["I", "C"], ["C", "I"]):
        for first in (0.0, 300.5):
            for m in L:
                if [x["type"] for x in m] == want and m[0]["start"] == first:
                    pick.append(m)
                    break
    return pick if tier == "quick" else pick + [m for m in L if m not in pick][:6]


def mut_scripts(mans, R, tier):
    """Sequences of <= 3 (thorough 4) operations on ONE Orbit object over
       ('orb', q) Orbit.propagate ; ('iter',) ; ('ephem',)        -- requests through the Orbit (they re-bind it)
       ('addman', 'append'|'extend'|'assign')  a later impulse is added to orb.maneuvers in place
       ('setz',)  a coordinate of the orbit is written in place (orb[2] = ...)
    containing at least one in-place modification followed by a request."""
    import itertools as _it

    ed = edges(mans) or [0.0]
    q_add = us(ed[-1] + 300.0)
    q_end = us(ed[-1] + 777.0)
    q_mid = us(ed[-1] + 150.0)
    alpha = [("orb", q_end), ("orb", q_mid), ("iter",), ("addman", "extend"), ("addman", "append"), ("setz",)]
    if tier != "quick":
        alpha += [("ephem",), ("addman", "assign")]
    out = []
    for k in range(2, (3 if tier == "quick" else 4) + 1):
        for seq in _it.product(alpha, repeat=k):
            kinds = [x[0] for x in seq]
            muts = [i for i, x in enumerate(kinds) if x in ("addman", "setz")]
            if not muts or not any(x in ("orb", "iter", "ephem") for x in kinds[muts[0] + 1 :]):
                continue
            if kinds.count("addman") > 2:
                continue
            out.append([list(x) for x in seq])
    return out, q_end, q_add


def check_hist(case, t):
    """Every answer of an operation sequence on ONE orbit / propagator equals the answer of a fresh orbit holding the
    CURRENT content (bit for bit); the orbit bound to the propagator, the user's orbit and its maneuvers are not
    changed by propagation."""
    from mc.ref import hill
    from beyond.dates import Date, timedelta
    from beyond.orbits.man import ImpulsiveMan

    R, orient, script, q_end = case["R"], case["orient"], case["script"], case["q_end"]
    s_cur = list(case["s"])
    mans_cur = [dict(m) for m in case["mans"]]
    q_add = case.get("q_add")
    clause = ("the propagator answers for the orbit as it is when asked: maneuvers act exactly once at their date whatever "
              "was asked before, later in-place changes of the orbit (maneuvers added, coordinates written) are honoured, "
              "and propagation does not modify the orbit")
    sig = "cw.history"
    epoch = Date(*EPOCH)
    M3 = hill.P3 if orient == "TNW" else np.eye(3)
    # iteration grid in integer microseconds: the step is exact in us and the span is exactly 4 steps, so the
    # inclusive range handed to the library has exactly 5 dates (q_end / 4 rounded to the us could overshoot the stop by 1 us)
    step_us = int(round(q_end * 1e6)) // 4
    span = timedelta(microseconds=4 * step_us)
    step_td = timedelta(microseconds=step_us)
    cache = {}

    def fresh(q):
        key = (tuple(s_cur), len(mans_cur), q)
        if key not in cache:
            o, _ = lib_orbit(R, orient, s_cur, mans_cur)
            r = o.propagate(_date(q))
            t.trans()
            cache[key] = np.array(r, dtype=float)
        return cache[key]

    orb, M6 = lib_orbit(R, orient, s_cur, mans_cur)
    prop = orb.propagator
    prop.orbit = orb  # initialise the propagator once
    bound_obj = prop.orbit
    bound0 = np.array(prop.orbit, dtype=float)
    orb0 = np.array(orb, dtype=float)

    def man_snapshot():
        return [(type(m).__name__, np.array(m._dv, dtype=float).copy()) for m in orb.maneuvers]

    man0 = man_snapshot()
    mutated = False

    def compare(r, q, step_no, what):
        got = np.array(r, dtype=float)
        want = fresh(q)
        if not np.array_equal(got, want):
            if mutated:
                cls = "in-place-change-ignored"
            else:
                cls = "epoch-maneuver" if any(m["start"] == 0.0 for m in mans_cur) else "later-maneuvers"
            t.fail(f"{sig}/answer-depends-on-history/{cls}", clause, case, want, got,
                   f"request #{step_no} {what} at t0+{q}: |diff|={np.max(np.abs(got - want)):.3e}")
            return False
        return True

    ok = True
    try:
        for i, op in enumerate(script):
            if op[0] == "prop":
                if prop.orbit is None or prop.orbit is not bound_obj:
                    prop.orbit = orb
                    bound_obj = prop.orbit
                    bound0 = np.array(prop.orbit, dtype=float)
                ok &= compare(prop.propagate(_date(op[1])), op[1], i, "propagator.propagate")
                t.trans()
            elif op[0] == "orb":
                ok &= compare(orb.propagate(_date(op[1])), op[1], i, "Orbit.propagate")
                t.trans()
                bound_obj = prop.orbit
                bound0 = np.array(prop.orbit, dtype=float)
            elif op[0] in ("iter", "ephem"):
                if op[0] == "iter":
                    pts = list(orb.iter(stop=span, step=step_td))
                else:
                    pts = list(orb.ephem(stop=span, step=step_td))
                t.trans(len(pts))
                bound_obj = prop.orbit
                bound0 = np.array(prop.orbit, dtype=float)
                offs = [round((r.date - epoch).total_seconds() * 1e6) for r in pts]
                if offs != [k * step_us for k in range(5)]:
                    t.fail(sig + "/iter-dates", "iter yields start, start+step, ... stop inclusive", case,
                           [k * step_us for k in range(5)], offs, "offsets in microseconds")
                for r in pts:
                    q = us((r.date - epoch).total_seconds())
                    ok &= compare(r, q, i, "Orbit." + op[0])
            elif op[0] == "addman":
                nb = sum(1 for m in mans_cur if m.get("added"))
                vec = [0.0, 0.1 * (nb + 1), -0.05]
                start = us(q_add + 60.0 * nb)
                man = ImpulsiveMan(_date(start), M3 @ np.array(vec))
                if op[1] == "extend":
                    orb.maneuvers.extend([man])
                elif op[1] == "append":
                    orb.maneuvers.append(man)
                else:
                    orb.maneuvers = list(orb.maneuvers) + [man]
                mans_cur.append(dict(type="I", start=start, vec=vec, added=True))
                man0 = man_snapshot()
                mutated = True
            elif op[0] == "setz":
                s_cur[2] = s_cur[2] + 31.5
                orb[2] = s_cur[2]  # W axis: third coordinate in both orientations
                orb0 = np.array(orb, dtype=float)
                mutated = True
            else:
                raise RuntimeError(f"harness: unknown op {op}")
            if not ok:
                break
    except Exception as e:
        import traceback

        tb = traceback.extract_tb(e.__traceback__)
        if (isinstance(e, RuntimeError) and "harness" in str(e)) or "/beyond/" not in tb[-1].filename:
            raise
        t.fail(sig + "/raises", clause, case, "a state", repr(e))
        return
    if not np.array_equal(np.array(prop.orbit, dtype=float), bound0):
        t.fail(sig + "/bound-orbit-modified", clause, case, bound0, np.array(prop.orbit, dtype=float),
               "the orbit stored in the propagator changed during propagation")
    if not np.array_equal(np.array(orb, dtype=float), orb0):
        t.fail(sig + "/user-orbit-modified", clause, case, orb0, np.array(orb, dtype=float))
    man1 = man_snapshot()
    if len(man1) != len(man0) or any(a[0] != b[0] or not np.array_equal(a[1], b[1]) for a, b in zip(man0, man1)):
        t.fail(sig + "/maneuvers-modified", clause, case, man0, man1)
    t.outcome(("hist", len(script), script[0][0], mutated))



# ---------------------------------------------------------------------------
# creation order of Hill frames / propagators / orbits


def order_cases(R, tier):
    """Two propagators (QSW and TNW) in one process: creation order x an extra HillFrame() afterwards x how each
    orbit names its frame ('Hill' string = whatever HillFrame was registered last, or the propagator's own frame object)
    x which orbit is built / propagated first."""
    out = []
    lists = [[], [dict(type="I", start=300.5, vec=[0.0, 0.2, 0.1])],
             [dict(type="C", start=0.0, dur=450.125, vec=[1e-4, 2e-4, -3e-4], spec="accel", pos="start")]]
    P = 2 * math.pi / mean_motion(R)
    for order in ("QT", "TQ"):
        for extra in (None, "QSW", "TNW"):
            for bq in ("hill", "obj"):
                for bt in ("hill", "obj"):
                    for first in ("Q", "T"):
                        for mans in lists:
                            for q in (us(P / 5), 400.0) if tier == "quick" else (us(P / 5), 400.0, -us(P / 7), us(1.3 * P)):
                                out.append(dict(kind="order", R=R, order=order, extra=extra, build=dict(Q=bq, T=bt), first=first,
                                                s=[120.0, -300.0, 45.0, 0.3, -0.2, 0.1], mans=mans, q=q))
    return out


def check_order(case, t):
    """Each propagator answers in ITS OWN orientation, whatever HillFrame objects were created before / after it and
    however the orbit designates its frame."""
    from mc import world
    from mc.ref import hill
    from beyond.dates import Date, timedelta
    from beyond.orbits import Orbit
    from beyond.orbits.man import ImpulsiveMan, ContinuousMan
    from beyond.propagators.cw import ClohessyWiltshire
    from beyond.frames.frames import HillFrame

    if "snap" not in _G:
        setup(None)
    world.restore(_G["snap"])
    R, s, mans, q = case["R"], case["s"], case["mans"], case["q"]
    clause = "results of a TNW propagator are the fixed axis permutation of those of a QSW one (each propagator works in its own orientation)"
    frames, props = {}, {}
    for k in case["order"]:
        orient = "QSW" if k == "Q" else "TNW"
        frames[k] = HillFrame(orientation=orient)
        props[k] = ClohessyWiltshire(R, frame=frames[k])
    if case["extra"]:
        HillFrame(orientation=case["extra"])
    seq = [case["first"], "T" if case["first"] == "Q" else "Q"]
    orbs = {}
    for k in seq:
        M6 = hill.P6 if k == "T" else np.eye(6)
        M3 = hill.P3 if k == "T" else np.eye(3)
        fr = "Hill" if case["build"][k] == "hill" else frames[k]
        o = Orbit(M6 @ np.asarray(s, dtype=float), Date(*EPOCH), "cartesian", fr, props[k])
        lst = []
        for m in mans:
            vec = M3 @ np.asarray(m["vec"], dtype=float)
            if m["type"] == "I":
                lst.append(ImpulsiveMan(_date(m["start"]), vec))
            else:
                lst.append(ContinuousMan(_date(m["start"]), timedelta(seconds=m["dur"]), accel=vec))
        if lst:
            o.maneuvers = lst
        orbs[k] = o
    ref = ref_state(R, s, mans, q)
    n = mean_motion(R)
    L, g = size(R, s, mans, q)
    for k in seq:
        orient = "QSW" if k == "Q" else "TNW"
        M6 = hill.P6 if k == "T" else np.eye(6)
        sig = f"cw.order/{orient}-propagator/orbit-frame-by-{'name' if case['build'][k] == 'hill' else 'object'}"
        r = _lib_prop(orbs[k], q, t, sig, clause, case)
        if r is None:
            return
        got = M6.T @ np.array(r, dtype=float)
        e = max(np.max(np.abs(got[:3] - ref[:3])) / L, np.max(np.abs(got[3:] - ref[3:])) / (L * n))
        if not t.margin("CW vs integrated Hill eq., creation orders [rel. to size of terms]", e if np.isfinite(e) else float("inf"), REL * g, case):
            t.fail(sig, clause, case, M6 @ ref, np.array(r, dtype=float),
                   f"{orient} propagator, orbit frame {orbs[k].frame.name}: scaled error {e:.3e}")
            return
        # information only: the label carried by the result (an orbit built with frame='Hill' takes the HillFrame registered last)
        t.outcome(("order-label", orient, r.frame.name))
        # objects carrying a COPY of the propagator: Orbit.copy(), and (free flight only, see the known finding on
        # maneuvers dated before an orbit's epoch) the orbit returned by propagate(): chained on to 2q and back to the epoch
        via = [("orbit-copy", lambda: orbs[k].copy().propagate(_date(q)), ref, L, g)]
        if not mans:
            L2, g2 = size(R, s, mans, 2 * q)
            via.append(("chained", lambda: r.propagate(_date(us(2 * q))), ref_state(R, s, mans, us(2 * q)), L2 + L * 13, g2 + g))
            via.append(("back-to-epoch", lambda: r.propagate(_date(0.0)), np.asarray(s, dtype=float), L * 13, 2 * g))
        for name, call, want, Lx, gx in via:
            try:
                rr = call()
                t.trans()
            except Exception as ex:
                t.fail(f"cw.order/{orient}-propagator/{name}/raises", clause, case, "a state", repr(ex))
                return
            gg = M6.T @ np.array(rr, dtype=float)
            e = max(np.max(np.abs(gg[:3] - want[:3])) / Lx, np.max(np.abs(gg[3:] - want[3:])) / (Lx * n))
            if not t.margin("CW vs integrated Hill eq., copied propagators [rel. to size of terms]", e if np.isfinite(e) else float("inf"), REL * gx, case):
                t.fail(f"cw.order/{orient}-propagator/{name}", clause, case, M6 @ want, np.array(rr, dtype=float),
                       f"{orient} propagator, {name}: scaled error {e:.3e}")
                return


# ---------------------------------------------------------------------------

CHECKS = dict(agree=check_agree, perm=check_perm, compose=check_compose, jump=check_jump, kepler=check_kepler, helper=check_helper,
              hist=check_hist, order=check_order)


def check_case(case, t):
    CHECKS[case["kind"]](case, t)
    key = tuple(sorted((k, repr(v)) for k, v in case.items()))
    t.state(key)
    nontrivial = any(case.get(k) not in (None, 0, 0.0) for k in ("q", "q2", "dt", "b", "d", "script"))
    t.ev(key if nontrivial else None)


def replay(case, t):
    check_case(case, t)


def units(tier, seed):
    cfg = {"eop": "pass"}
    u = []
    for R in RADII[tier]:
        for orient in ORIENTS:
            u.append((cfg, dict(part="free", R=R, orient=orient, tier=tier)))
            for half in range(6):
                u.append((cfg, dict(part="man", R=R, orient=orient, tier=tier, half=half)))
            u.append((cfg, dict(part="kepler", R=R, orient=orient, tier=tier)))
            u.append((cfg, dict(part="helper", R=R, orient=orient, tier=tier)))
    for R in RADII[tier][:1] if tier == "quick" else RADII[tier][1::3]:
        for c in range(2):
            u.append((cfg, dict(part="order", R=R, orient="QSW", tier=tier, chunk=c, of=2)))
    # history part: does not depend on the radius (quick: one radius), both orientations
    for R in RADII[tier][:1] if tier == "quick" else RADII[tier][1::3]:
        for orient in ORIENTS:
            for chunk in range(4):
                u.append((cfg, dict(part="hist", R=R, orient=orient, tier=tier, chunk=chunk, of=4)))
    return u


def run_unit(p, t):
    R, orient, tier = p["R"], p["orient"], p["tier"]
    n = mean_motion(R)
    P = 2 * math.pi / n
    if p["part"] == "free":
        sts = states(tier)
        dd = dts(R, tier)
        for si, s in enumerate(sts):
            for q in dd:
                case = dict(kind="agree", R=R, orient=orient, s=s, mans=[], q=q)
                check_case(case, t)
                if orient == "QSW":
                    check_case(dict(kind="perm", R=R, s=s, mans=[], q=q), t)
            if si >= 6:
                # the type of the radius argument (the docs pass a Python int): same answers as for a float
                for rtype in RTYPES:
                    if rtype == "float":
                        continue
                    for q in dd:
                        check_case(dict(kind="agree", R=R, orient=orient, s=s, mans=[], q=q, rtype=rtype), t)
                    burn = [dict(type="C", start=0.0, dur=450.125, vec=[1e-4, -2e-4, 3e-4], spec="accel", pos="start")]
                    check_case(dict(kind="agree", R=R, orient=orient, s=s, mans=burn, q=us(P / 3), rtype=rtype), t)
            # composition and inverse on the dt alphabet
            for q1 in dd:
                for q2 in dd:
                    if q1 == 0 or abs(q2) > 2 * P + 1:
                        continue
                    check_case(dict(kind="compose", R=R, orient=orient, s=s, mans=[], q1=q1, q2=us(q1 + q2)), t)
                check_case(dict(kind="compose", R=R, orient=orient, s=s, mans=[], q1=q1, q2=0.0), t)
        t.sample(dict(kind="agree", R=R, orient=orient, s=sts[-1], mans=[], q=dd[-1]))
    elif p["part"] == "man":
        lists = man_lists(R, tier) + inburn_lists(R, tier)
        # linear problem: the forced response is seen on top of any initial state; thorough adds the pure forced response
        s_alpha = [[120.0, -300.0, 45.0, 0.3, -0.2, 0.1]] if tier == "quick" else [[0.0] * 6, [120.0, -300.0, 45.0, 0.3, -0.2, 0.1]]
        for li, mans in enumerate(lists):
            if li % 6 != p["half"] or not mans:
                continue
            qs = queries(mans, R)
            for s in s_alpha:
                for q in qs:
                    check_case(dict(kind="agree", R=R, orient=orient, s=s, mans=mans, q=q), t)
                    if orient == "QSW" and s is s_alpha[-1]:
                        check_case(dict(kind="perm", R=R, s=s, mans=mans, q=q), t)
            s = s_alpha[-1]
            for m in mans:
                if m["type"] == "I":
                    check_case(dict(kind="jump", R=R, orient=orient, s=s, mans=mans, b=m["start"]), t)
            # composition across the maneuver list: stop at each mid/after point, continue to the end
            ed = edges(mans)
            end = us(ed[-1] + P / 3)
            stops = [-1.0] + [us((a + b) / 2) for a, b in zip(ed, ed[1:]) if b > a] + [us(ed[-1] + 1.0)]
            for q1 in stops:
                check_case(dict(kind="compose", R=R, orient=orient, s=s, mans=mans, q1=q1, q2=end), t)
            if li % 50 == 0:
                t.sample(dict(kind="agree", R=R, orient=orient, s=s, mans=mans, q=qs[-1]))
        if p["half"] == 0:
            s = s_alpha[-1]
            for mans, qs in special_burn_lists(R, tier):
                for q in qs:
                    check_case(dict(kind="agree", R=R, orient=orient, s=s, mans=mans, q=q), t)
                    if orient == "QSW":
                        check_case(dict(kind="perm", R=R, s=s, mans=mans, q=q), t)
    elif p["part"] == "order":
        cs = order_cases(R, tier)
        for c in cs[p["chunk"] :: p["of"]]:
            check_case(c, t)
        t.sample(cs[7])
    elif p["part"] == "hist":
        s0 = [120.0, -300.0, 45.0, 0.3, -0.2, 0.1]
        lists = hist_lists(R, tier)
        for li, mans in enumerate(lists):
            if li % p["of"] != p["chunk"]:
                continue
            scripts, q_end = hist_scripts(mans, R, tier)
            for script in scripts:
                check_case(dict(kind="hist", R=R, orient=orient, s=s0, mans=mans, script=script, q_end=q_end), t)
        for li, mans in enumerate(mut_lists(R, tier)):
            if li % p["of"] != p["chunk"]:
                continue
            scripts, q_end, q_add = mut_scripts(mans, R, tier)
            for script in scripts:
                check_case(dict(kind="hist", R=R, orient=orient, s=s0, mans=mans, script=script, q_end=q_end, q_add=q_add), t)
        t.sample(dict(kind="hist", R=R, orient=orient, s=s0, mans=lists[0], script=[["prop", 0.0], ["iter"]], q_end=777.0))
    elif p["part"] == "kepler":
        shapes = list(SHAPES)[:5] if tier == "quick" else list(SHAPES)
        fr = [0.25, 0.5, 1.0, 2.0, -0.5] if tier == "quick" else [0.125, 0.25, 0.5, 1.0, 1.5, 2.0, -0.5, -2.0]
        for shape in shapes:
            for k in range(9):
                rho = 4000.0 / 2**k
                for f in fr:
                    check_case(dict(kind="kepler", R=R, orient=orient, shape=shape, rho=rho, dt=us(f * P)), t)
    elif p["part"] == "helper":
        dist = [10.0, -10.0, 600.0, -600.0, 3000.0, -3000.0]
        if tier != "quick":
            dist += [1.0, -1.0, 123.456, -2500.0]
        for kind in HELPERS:
            for d in dist:
                base = dict(kind="helper", R=R, orient=orient, helper=kind, d=d, x0f=-1, y0=-1.5 * abs(d))
                if kind == "vbar":
                    for speed in (0.5, 0.1, 0.3 / 7):
                        check_case(dict(base, speed=speed), t)
                elif kind.startswith("hohmann"):
                    for x0f in (-1, 0, 0.5):
                        check_case(dict(base, x0f=x0f), t)
                else:
                    check_case(base, t)
        t.sample(dict(kind="helper", R=R, orient=orient, helper="vbar", d=-190.0, x0f=-1, y0=-200.0, speed=0.5))
