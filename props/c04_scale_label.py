"""C04 — results depend on the instant, never on the Date's scale label (DESIGN.md §4 C04).

Differential exhaustive product: every date-consuming operation of an alphabet of public call sites is run with
the argument date, the object's epoch and (where there are some) the maneuver dates relabelled into each of the 6
time scales *at the same stored instant*, and compared with the run where every label is UTC.
"""

import numpy as np

PROPERTY = "C04"
CLAIM = dict(
    text="Every call site of an alphabet of 33 date-consuming public operations (SGP4 wrapper and native SGP4, Kepler, "
    "J2, numerical Kepler with maneuvers, Clohessy-Wiltshire with a maneuver, analytical Sun/Moon, JPL ephemeris, frame "
    "changes through both IAU chains, ephemeris interpolation and re-sampling, node events, station visibility events, "
    "TLE writer, OPM/OEM/OMM writers and readers in KVN and XML) is executed for the full product of the 6 labels of "
    "the argument date x the 6 labels of the object's epoch (x the 6 labels of maneuver dates) at 4 instants, one with "
    "the epoch and one with the argument 10 s before 0h UTC where the TAI/TT/GPS/TDB clocks already show the next day. "
    "Every call site is also called twice in a row with the two labels of every ordered pair, once at the same instant and once "
    "with the same calendar fields (two different instants), so that anything an operation remembers from its previous call "
    "under the date's own-scale reading shows; OEM messages are also written from two segments with different labels. "
    "A relabelled date carries the same stored TAI instant (residual read from the stored fields, <= 1 us), so every "
    "difference of the physical result beyond |v| x residual is a dependence on the label. Exhaustive over the label "
    "product, which no test of the repository enters (all its dates are UTC).",
    note="Differential oracle: the all-UTC run is taken as reference, no hand-written expected values. Trusted: "
    "Date.change_scale away from the 0h seam of UT1 (established by C03), numpy.",
    technique="exhaustive product over scale labels on the real code, differential against the all-UTC execution",
)
RULE = (
    "one case = (operation, instant, label of the epoch, label of the argument date, label of the maneuver dates) or, for "
    "call sequences, (operation, instant, label of the preceding call, label of this call, same instant | same clock fields): "
    "the operation is called twice in a row in one process and the SECOND result is judged against the all-UTC call at its own "
    "instant (itself computed right after an unrelated call); non-trivial = at least one label differs from UTC; distinct by that tuple"
)
BOUNDS = {
    "quick": "33 call sites x 4 instants x [6x6 labels (x 6 maneuver labels where present) + all 30 ordered label pairs of two "
    "consecutive calls at the same instant + all 30 ordered pairs with the same clock fields under two labels (pairs with UTC "
    "only for station visibility)] with the real IERS tables, + the 6x6 label product of every call site again without any "
    "IERS file (zero corrections), all of it",
    "thorough": "same product (the space is finite and small; nothing to deepen)",
}
ASSUMPTIONS = [
    "the instant of a Date is its stored TAI pair (_d, _s); a relabelled date is produced by Date.change_scale from the "
    "UTC date and accepted only if the stored pair moved by <= 2 us (else the case is dropped and counted: that is C03's subject)",
    "two configurations in separate worker groups: real IERS tables of /repo/tests/data/pole and no tables at all, policy 'pass'; JPL kernel de403_2000-2020 (the 1995 instant is skipped for it)",
    "time quantisation floors: 2 us for differences of dates (each stored instant is rounded to the microsecond), "
    "50 us x |omega x r| where the Earth-rotation angle goes through a Julian-date double, 50 us x |v| for body "
    "ephemerides evaluated at a Julian-date double",
]
NOT_COVERED = (
    "operations outside the alphabet (TDM, Lagrange frames, SOI propagators, light/terminator listeners), instants other "
    "than the 4, labels given as datetime objects"
)

CFG = {"eop": "real", "policy": "pass"}
POLE = "/repo/tests/data/pole"
JPL = ["/repo/tests/data/jpl/de403_2000-2020.bsp", "/repo/tests/data/jpl/pck00010.tpc", "/repo/tests/data/jpl/gm_de431.tpc"]
LABELS = ("UTC", "TAI", "TT", "GPS", "UT1", "TDB")
DT = 2843.25  # s between epoch and argument date
# name -> (epoch as UTC calendar tuple, note)
INSTANTS = {
    "2010-midday": (2010, 3, 1, 12, 0, 0, 0),
    "2010-epoch-10s-before-0h": (2010, 6, 15, 23, 59, 50, 0),
    "2012-arg-10s-before-0h": (2012, 9, 9, 23, 12, 26, 750000),  # + DT = 23:59:50
    "1995-morning": (1995, 9, 20, 6, 0, 0, 0),
}
OMEGA = 7.292115e-5
MU = 3.986004418e14

_G = {}


CFG0 = {"eop": "none", "policy": "pass"}  # the out-of-the-box world: no IERS files, zero corrections silently


def setup(config):
    from beyond.config import config as bc

    config = config or CFG
    _G["config"] = dict(config)
    if config["eop"] == "real":
        bc.update({"eop": {"folder": POLE, "type": "all", "missing_policy": "pass"}})
    else:
        bc.update({"eop": {"folder": "/nonexistent/verif-no-eop-here", "missing_policy": "pass"}})
    bc.set("env", "jpl", "files", list(JPL))
    if config["eop"] == "real":
        try:
            from beyond.dates.eop import EopDb

            EopDb.db()  # must load
        except Exception as e:  # reported as a violation by the first unit
            _G["setup_error"] = repr(e)
    from beyond.env import jpl
    from beyond.frames import create_station

    jpl.create_frames()
    _G["station"] = create_station("VerifC04", (43.428889, 1.497778, 178.0))
    _G["base"] = {}


# ---------------------------------------------------------------------------
# dates


def stored_diff(b, a):
    return (b._d - a._d) * 86400.0 + (b._s - a._s)


def label(u, L):
    return u if L == "UTC" else u.change_scale(L)


def clock_day_differs(u, L):
    """does the calendar day shown by the clock of L differ from the UTC day at this instant"""
    x = label(u, L)
    return x.datetime.date() != u.datetime.date()


def dates_for(inst, Le, La, Lm):
    """(E, A, M1, M2, residual seconds) or None when a relabelling moved the instant by more than 2 us"""
    from beyond.dates import Date, timedelta

    Eu = Date(*INSTANTS[inst])
    Au = Eu + timedelta(seconds=DT)
    M1u = Eu + timedelta(seconds=613.5)  # off the 60 s grid of the numerical propagator: a maneuver exactly on a
    M2u = Eu + timedelta(seconds=1517.25)  # step boundary would move by a whole step for a 1 us residual
    A30u = Eu + timedelta(days=30, seconds=DT)  # a long span: non-uniform labels (TDB, UT1) on both ends
    E, A, M1, M2, A30 = label(Eu, Le), label(Au, La), label(M1u, Lm), label(M2u, Lm), label(A30u, La)
    res = [abs(stored_diff(x, u)) for x, u in ((E, Eu), (A, Au), (M1, M1u), (M2, M2u), (A30, A30u))]
    if max(res) > 2e-6:
        return None
    return dict(E=E, A=A, M1=M1, M2=M2, A30=A30, Eu=Eu, Au=Au, res=res[0] + max(res[1], res[4]) + max(res[2:4]))


def dates_fields(inst, L):
    """'same clock fields, another label': every date shows the calendar fields of the UTC dates of the instant, but is
    labelled L -- another instant (shifted by the offset of L).  Eu/Au are the UTC equivalents of these instants."""
    from beyond.dates import Date

    base = dates_for(inst, "UTC", "UTC", "UTC")
    if L == "UTC":
        return base
    out = {}
    res = []
    for k, ku in (("E", "Eu"), ("A", "Au"), ("M1", None), ("M2", None), ("A30", None)):
        x = Date(base[k].datetime, scale=L)
        u = x.change_scale("UTC")
        res.append(abs(stored_diff(u, x)))
        out[k] = x
        out[k + "u_"] = u
    if max(res) > 2e-6:
        return None
    out["Eu"], out["Au"] = out["Eu_"], out["Au_"]
    out["res"] = res[0] + max(res[1], res[4]) + max(res[2:4])
    return out


def dates_utc_of(d):
    """the all-UTC dates of the instants of a 'same fields' set"""
    return dict(E=d["Eu_"], A=d["Au_"], M1=d["M1u_"], M2=d["M2u_"], A30=d["A30u_"], Eu=d["Eu_"], Au=d["Au_"], res=0.0)


# ---------------------------------------------------------------------------
# the objects


TLE_TEXT = """ISS (ZARYA)
1 25544U 98067A   18124.55610684  .00001524  00000-0  30197-4 0  9997
2 25544  51.6421 236.2139 0003381  47.8509  47.6767 15.54198229111731"""


def tle_orbit(E):
    from beyond.io.tle import Tle

    orb = Tle(TLE_TEXT).orbit()
    orb.date = E
    return orb


def kep_orbit(E, propagator="Kepler"):
    from beyond.orbits import Orbit

    return Orbit([7000e3, 0.01, 0.9, 0.3, 0.2, 0.1], E, "keplerian", "EME2000", propagator)


def with_mans(orb, d):
    from beyond.orbits.man import ImpulsiveMan, ContinuousMan
    from beyond.dates import timedelta

    orb.maneuvers = [
        ImpulsiveMan(d["M1"], [1.5, 0.0, -0.2], frame="TNW", comment="impulse"),
        ContinuousMan(d["M2"], timedelta(seconds=120), dv=[0.0, 0.8, 0.1], frame=None, date_pos="start"),
    ]
    return orb


def sv6(x):
    return np.array(x, dtype=float)


# every operation returns {name: ("state", 6-array, kind) | ("date", Date) | ("dates", [Date], [str]) | ("text", str)}
# kind in "inertial", "fixed", "body", "relative"


def op_sgp4(d):
    r = tle_orbit(d["E"]).propagate(d["A"])
    return {"state": ("state", sv6(r), "inertial", r.date), "date": ("date", r.date)}


def op_sgp4beta(d):
    from beyond.propagators.sgp4beta import Sgp4Beta

    p = Sgp4Beta()
    p.orbit = tle_orbit(d["E"])
    r = p.propagate(d["A"])
    return {"state": ("state", sv6(r), "inertial", r.date), "date": ("date", r.date)}


def op_sgp4_td(d):
    from beyond.dates import timedelta

    r = tle_orbit(d["E"]).propagate(timedelta(seconds=DT))
    return {"state": ("state", sv6(r), "inertial", r.date), "date": ("date", r.date)}


def op_sgp4beta_td(d):
    from beyond.propagators.sgp4beta import Sgp4Beta
    from beyond.dates import timedelta

    p = Sgp4Beta()
    p.orbit = tle_orbit(d["E"])
    r = p.propagate(timedelta(seconds=DT))
    return {"state": ("state", sv6(r), "inertial", r.date), "date": ("date", r.date)}


def op_kepler(d):
    r = kep_orbit(d["E"]).propagate(d["A"])
    return {"state": ("state", sv6(r), "inertial", r.date), "date": ("date", r.date)}


def op_j2(d):
    r = kep_orbit(d["E"], "J2").propagate(d["A"])
    return {"state": ("state", sv6(r), "inertial", r.date), "date": ("date", r.date)}


def op_kepler_30d(d):
    r = kep_orbit(d["E"]).propagate(d["A30"])
    return {"state": ("state", sv6(r), "inertial", r.date), "date": ("date", r.date)}


def op_j2_30d(d):
    r = kep_orbit(d["E"], "J2").propagate(d["A30"])
    return {"state": ("state", sv6(r), "inertial", r.date), "date": ("date", r.date)}


def op_keplernum(d):
    from beyond.propagators.keplernum import KeplerNum
    from beyond.env.solarsystem import get_body
    from beyond.dates import timedelta

    orb = with_mans(kep_orbit(d["E"], KeplerNum(timedelta(seconds=60), get_body("Earth"))), d)
    r = orb.propagate(d["A"])
    return {"state": ("state", sv6(r), "inertial", r.date), "date": ("date", r.date)}


def op_cw(d):
    from beyond.orbits import Orbit
    from beyond.orbits.man import ImpulsiveMan
    from beyond.propagators.cw import ClohessyWiltshire

    p = ClohessyWiltshire(6800000.0, frame="Hill")
    orb = Orbit([-600.0, -1500.0, 30.0, 0.0, 1.5 * p.n * 600, 0.01], d["E"], "cartesian", "Hill", p)
    orb.maneuvers = [ImpulsiveMan(d["M1"], [0.05, 0.0, 0.0])]
    r = orb.propagate(d["A"])
    return {"state": ("state", sv6(r), "relative", r.date), "date": ("date", r.date)}


def op_sun(d):
    from beyond.env.solarsystem import get_body

    r = get_body("Sun").propagate(d["A"])
    return {"state": ("state", sv6(r), "body", r.date), "date": ("date", r.date)}


def op_moon(d):
    from beyond.env.solarsystem import get_body

    r = get_body("Moon").propagate(d["A"])
    return {"state": ("state", sv6(r), "body", r.date), "date": ("date", r.date)}


def op_jpl(d):
    from beyond.env import jpl

    r = jpl.get_orbit("Moon", d["A"])
    r2 = jpl.get_orbit("MarsBarycenter", d["A"])
    return {"moon": ("state", sv6(r), "body", r.date), "mars": ("state", sv6(r2), "body", r2.date), "date": ("date", r.date)}


def _frame_change(d, src, dst):
    from beyond.orbits import StateVector

    sv = StateVector([-4086362.75, 1368718.35, -5245351.58, -5578.12, -4957.62, 3052.42], d["A"], "cartesian", src)
    r = sv.copy(frame=dst)
    return {"state": ("state", sv6(r), "fixed", r.date), "date": ("date", r.date)}


def op_frame1980(d):
    return _frame_change(d, "EME2000", "ITRF")


def op_frame2010(d):
    return _frame_change(d, "GCRF", "ITRF")


def _ephem(d):
    from beyond.dates import timedelta

    return kep_orbit(d["E"]).ephem(start=d["E"], stop=timedelta(seconds=3600), step=timedelta(seconds=60))


def op_interp(d):
    r = _ephem(d).interpolate(d["A"])
    return {"state": ("state", sv6(r), "inertial", r.date), "date": ("date", r.date)}


def op_ephem_iter(d):
    from beyond.dates import timedelta

    pts = list(_ephem(d).iter(start=d["A"], stop=timedelta(seconds=400), step=timedelta(seconds=100)))
    out = {"count": ("text", str(len(pts)))}
    for k, p in enumerate(pts[:5]):
        out[f"p{k}"] = ("state", sv6(p), "inertial", p.date)
        out[f"d{k}"] = ("date", p.date)
    return out


def op_ephem_native(d):
    """sub-ranges of an ephemeris WITHOUT a step (the tabulated points are kept): bounds on tabulated points and 5 s
    beside them, labelled like the argument date while the points carry the label of the epoch"""
    from beyond.dates import timedelta

    eph = _ephem(d)  # E + k * 60 s, k = 0..60, dates labelled like E
    La, Le = d["A"].scale.name, d["E"].scale.name
    exact = all(x in ("UTC", "TAI", "TT", "GPS") for x in (La, Le))
    out = {}
    for name, a, b in (("on", 600.0, 1800.0), ("inside", 605.0, 1795.0), ("outside", 595.0, 1805.0)):
        if name == "on" and not exact:
            # a bound meant to coincide with a point does so only to the microsecond once UT1/TDB is involved
            for k_ in ("on_count", "on_first", "on_last", "sub_len", "sub_start", "sub_stop", "sub_interp"):
                out[k_] = ("skip", "bound on a tabulated point with an UT1/TDB label (1 us resolution)")
            continue
        S = label(d["Eu"] + timedelta(seconds=a), La)
        T = label(d["Eu"] + timedelta(seconds=b), La)
        pts = list(eph.iter(start=S, stop=T))
        out[name + "_count"] = ("text", str(len(pts)))
        if pts:
            out[name + "_first"] = ("date", pts[0].date)
            out[name + "_last"] = ("date", pts[-1].date)
        if name == "on":
            sub = eph.ephem(start=S, stop=T)
            out["sub_len"] = ("text", str(len(sub)))
            out["sub_start"] = ("date", sub.start)
            out["sub_stop"] = ("date", sub.stop)
            r = sub.interpolate(S + timedelta(seconds=1))
            out["sub_interp"] = ("state", sv6(r), "inertial", r.date)
    return out


def op_node_events(d):
    from beyond.dates import timedelta
    from beyond.propagators.listeners import NodeListener

    ev = [o for o in kep_orbit(d["E"]).iter(start=d["A"], stop=timedelta(hours=2), step=timedelta(minutes=3), listeners=[NodeListener()]) if o.event]
    return {"events": ("dates", [o.date for o in ev], [str(o.event.info) for o in ev], 5e-6)}


def op_visibility(d):
    from beyond.dates import timedelta

    sta = _G["station"]
    # window holding at least one pass of the station for each instant of the alphabet (first pass ~7 h after the
    # 2010-06-15 epoch); the start of the search is the argument date itself wherever a pass follows within 4 h
    off, hours = (5.5, 3) if d["Eu"].datetime.year == 2010 and d["Eu"].datetime.month == 6 else (0, 4)
    start = d["A"] + timedelta(hours=off) if off else d["A"]
    pts = list(sta.visibility(kep_orbit(d["E"]), start=start, stop=timedelta(hours=hours), step=timedelta(seconds=180), events=True))
    ev = [p for p in pts if p.event]
    # 2 cm of Earth-rotation quantisation (JD double, 40 us) seen from 2 000 km at >= 5e-4 rad/s of elevation rate
    out = {"events": ("dates", [p.date for p in ev], [str(p.event.info) for p in ev], 2e-5), "count": ("text", str(len(pts)))}
    vis = [p for p in pts if not p.event]
    if vis:
        out["first"] = ("state", sv6(vis[0].copy(form="cartesian")), "fixed", vis[0].date)
        out["first_date"] = ("date", vis[0].date)
    return out


def op_tle(d):
    from beyond.io.tle import Tle

    t = Tle.from_orbit(tle_orbit(d["E"]))
    l1, l2 = t.text.splitlines()[-2:]
    # everything but the epoch field (cols 19-32) and the checksum
    return {"epoch": ("dates", [t.epoch], ["epoch"], 0.864e-3 + 1e-6), "elements": ("text", l1[:18] + l1[32:68] + "|" + l2[:68])}


def _opm(d, fmt):
    from beyond.io import ccsds

    sv = with_mans(kep_orbit(d["E"]).copy(form="cartesian"), d).as_statevector()
    txt = ccsds.dumps(sv, fmt=fmt)
    back = ccsds.loads(txt)
    mans = back.maneuvers
    out = {
        "state": ("state", sv6(back), "print", back.date),
        "epoch": ("selfdate", back.date, d["E"]),
        "nb_man": ("text", str(len(mans))),
    }
    if len(mans) == 2:
        out["man1"] = ("selfdate", mans[0].date, d["M1"])
        out["man2"] = ("selfdate", mans[1].start, d["M2"])
    return out


def op_opm_kvn(d):
    return _opm(d, "kvn")


def op_opm_xml(d):
    return _opm(d, "xml")


def _oem(d, fmt):
    from beyond.io import ccsds
    from beyond.dates import timedelta

    eph = kep_orbit(d["E"]).ephem(start=d["A"], stop=timedelta(seconds=540), step=timedelta(seconds=60))
    back = ccsds.loads(ccsds.dumps(eph, fmt=fmt))
    out = {"count": ("text", str(len(back)))}
    for k in (0, len(eph) - 1):
        out[f"p{k}"] = ("state", sv6(back[k]), "print", back[k].date)
        out[f"d{k}"] = ("selfdate", back[k].date, eph[k].date)
    return out


def op_oem_kvn(d):
    return _oem(d, "kvn")


def op_oem_xml(d):
    return _oem(d, "xml")


def _oem_mixed(d, fmt):
    """an ephemeris assembled from points whose dates carry different labels (first point: label of 'epoch',
    the others: label of 'arg')"""
    from beyond.io import ccsds
    from beyond.orbits import Ephem
    from beyond.dates import timedelta

    eph = list(kep_orbit(d["Eu"]).ephem(start=d["Au"], stop=timedelta(seconds=540), step=timedelta(seconds=60)))
    for k, p in enumerate(eph):
        p.date = label(p.date, d["E"].scale.name if k == 0 else d["A"].scale.name)
    want = [p.date for p in eph]
    back = ccsds.loads(ccsds.dumps(Ephem(eph), fmt=fmt))
    out = {"count": ("text", str(len(back)))}
    for k in (0, 1, len(eph) - 1):
        out[f"d{k}"] = ("selfdate", back[k].date, want[k])
    return out


def _oem_multi(d, fmt):
    """a message made of two ephemerides (segments) whose dates carry different labels: first segment the label of
    'epoch', second segment the label of 'arg'"""
    from beyond.io import ccsds
    from beyond.orbits import Ephem
    from beyond.dates import timedelta

    orb = kep_orbit(d["Eu"])
    segs, want = [], []
    for start, L in ((d["Au"], d["E"].scale.name), (d["Au"] + timedelta(seconds=1200), d["A"].scale.name)):
        pts = list(orb.ephem(start=start, stop=timedelta(seconds=540), step=timedelta(seconds=60)))
        for p_ in pts:
            p_.date = label(p_.date, L)
        want.append([p_.date for p_ in pts])
        segs.append(Ephem(pts))
    back = ccsds.loads(ccsds.dumps(segs, fmt=fmt))
    if not isinstance(back, list):
        back = [back]
    out = {"segments": ("text", str([len(b) for b in back]))}
    for i, b in enumerate(back[:2]):
        for k in (0, len(b) - 1):
            if k < len(want[i]):
                out[f"s{i}p{k}"] = ("state", sv6(b[k]), "print", b[k].date)
                out[f"s{i}d{k}"] = ("selfdate", b[k].date, want[i][k])
    return out


def op_oem_multi_kvn(d):
    return _oem_multi(d, "kvn")


def op_oem_multi_xml(d):
    return _oem_multi(d, "xml")


def op_oem_mixed_kvn(d):
    return _oem_mixed(d, "kvn")


def op_oem_mixed_xml(d):
    return _oem_mixed(d, "xml")


def _omm(d, fmt):
    from beyond.io import ccsds

    orb = tle_orbit(d["E"])
    back = ccsds.loads(ccsds.dumps(orb, fmt=fmt))
    return {"elements": ("text", repr([float(v) for v in back])), "epoch": ("selfdate", back.date, d["E"])}


def _omm_tle_epoch(d, fmt):
    """an orbit made by Tle.orbit() (it carries the Tle object) whose own epoch is re-expressed in another scale"""
    from beyond.io import ccsds
    from beyond.io.tle import Tle

    orb = Tle(TLE_TEXT).orbit()
    orb.date = label(orb.date, d["E"].scale.name)
    back = ccsds.loads(ccsds.dumps(orb, fmt=fmt))
    return {"elements": ("text", repr([float(v) for v in back])), "epoch": ("selfdate", back.date, orb.date)}


def op_omm_tle_epoch_kvn(d):
    return _omm_tle_epoch(d, "kvn")


def op_omm_tle_epoch_xml(d):
    return _omm_tle_epoch(d, "xml")


def op_omm_kvn(d):
    return _omm(d, "kvn")


def op_omm_xml(d):
    return _omm(d, "xml")


# name -> (function, varied labels, call-site name used in signatures, flags)
#   "eop":   the operation reads the EOP record attached to the date (pole, dPsi/dEps, LOD) or converts it to UT1
#   "arith": the operation itself adds timedeltas to the labelled date (grids, steps, finite differences)
E_, A_ = frozenset({"eop"}), frozenset({"arith"})
OPS = {
    "sgp4": (op_sgp4, "EA", "Sgp4.propagate", frozenset()),
    "sgp4beta": (op_sgp4beta, "EA", "Sgp4Beta.propagate", frozenset()),
    "sgp4_td": (op_sgp4_td, "E", "Sgp4.propagate(timedelta)", A_),
    "sgp4beta_td": (op_sgp4beta_td, "E", "Sgp4Beta.propagate(timedelta)", A_),
    "kepler": (op_kepler, "EA", "Kepler.propagate", frozenset()),
    "j2": (op_j2, "EA", "J2.propagate", frozenset()),
    "kepler_30d": (op_kepler_30d, "EA", "Kepler.propagate/30-days", frozenset()),
    "j2_30d": (op_j2_30d, "EA", "J2.propagate/30-days", frozenset()),
    "keplernum": (op_keplernum, "EAM", "KeplerNum.propagate", A_),
    "cw": (op_cw, "EAM", "ClohessyWiltshire.propagate", A_),
    "sun": (op_sun, "A", "SunPropagator.propagate", E_ | A_),
    "moon": (op_moon, "A", "MoonPropagator.propagate", A_),
    "jpl": (op_jpl, "A", "JplPropagator.propagate", frozenset()),
    "frame1980": (op_frame1980, "A", "StateVector.copy(frame=ITRF)/EME2000", E_),
    "frame2010": (op_frame2010, "A", "StateVector.copy(frame=ITRF)/GCRF", E_),
    "interp": (op_interp, "EA", "Ephem.interpolate", frozenset()),
    "ephem_iter": (op_ephem_iter, "EA", "Ephem.iter", A_),
    "ephem_native": (op_ephem_native, "EA", "Ephem.iter(start,stop)-native-step", A_),
    "node_events": (op_node_events, "EA", "Orbit.iter+NodeListener", A_),
    "visibility": (op_visibility, "EA", "TopocentricFrame.visibility", E_ | A_),
    "tle": (op_tle, "E", "Tle.from_orbit", frozenset()),
    "opm_kvn": (op_opm_kvn, "EM", "opm.dumps-kvn", frozenset()),
    "opm_xml": (op_opm_xml, "EM", "opm.dumps-xml", frozenset()),
    "oem_kvn": (op_oem_kvn, "EA", "oem.dumps-kvn", A_),
    "oem_xml": (op_oem_xml, "EA", "oem.dumps-xml", A_),
    "oem_mixed_kvn": (op_oem_mixed_kvn, "EA", "oem.dumps-kvn/mixed-point-labels", frozenset()),
    "oem_mixed_xml": (op_oem_mixed_xml, "EA", "oem.dumps-xml/mixed-point-labels", frozenset()),
    "oem_multi_kvn": (op_oem_multi_kvn, "EA", "oem.dumps-kvn/segments-with-different-labels", frozenset()),
    "oem_multi_xml": (op_oem_multi_xml, "EA", "oem.dumps-xml/segments-with-different-labels", frozenset()),
    "omm_kvn": (op_omm_kvn, "E", "omm.dumps-kvn", frozenset()),
    "omm_xml": (op_omm_xml, "E", "omm.dumps-xml", frozenset()),
    "omm_tle_epoch_kvn": (op_omm_tle_epoch_kvn, "E", "omm.dumps-kvn/relabelled-epoch-of-Tle.orbit()", frozenset()),
    "omm_tle_epoch_xml": (op_omm_tle_epoch_xml, "E", "omm.dumps-xml/relabelled-epoch-of-Tle.orbit()", frozenset()),
}


def label_sets(varied):
    """list of (Le, La, Lm): full product over the varied roles; maneuver labels are varied on their own
    (with the other roles at UTC) in addition to the epoch x argument product"""
    out = []
    if "E" in varied and "A" in varied:
        out += [(e, a, "UTC") for e in LABELS for a in LABELS]
        if "M" in varied:
            out += [("UTC", "UTC", m) for m in LABELS[1:]]
            out += [(x, x, x) for x in LABELS[1:]]
    elif "E" in varied and "M" in varied:
        out += [(e, "UTC", m) for e in LABELS for m in LABELS]
    elif "E" in varied:
        out += [(e, "UTC", "UTC") for e in LABELS]
    elif "A" in varied:
        out += [("UTC", a, "UTC") for a in LABELS]
    seen, res = set(), []
    for x in out:
        if x not in seen:
            seen.add(x)
            res.append(x)
    return res


# ---------------------------------------------------------------------------
# the check


def run_op(op, d):
    import logging

    logging.disable(logging.CRITICAL)
    try:
        return OPS[op][0](d)
    finally:
        logging.disable(logging.NOTSET)


def _flush(op, inst):
    """an unrelated call of the same operation: whatever the operation remembers of its last call is not about `inst`"""
    other = "2012-arg-10s-before-0h" if inst == "2010-midday" else "2010-midday"
    try:
        run_op(op, dates_for(other, "UTC", "UTC", "UTC"))
    except Exception:
        pass


def baseline(op, inst, fields=None):
    """reference result: all dates UTC, computed right after an unrelated call.  fields=L: the instants of the
    'same clock fields labelled L' set"""
    key = (op, inst, fields)
    if key not in _G["base"]:
        if fields in (None, "UTC"):
            d = dates_for(inst, "UTC", "UTC", "UTC")
        else:
            d = dates_utc_of(dates_fields(inst, fields))
        _flush(op, inst)
        _G["base"][key] = run_op(op, d)
    return _G["base"][key]


def which(Le, La, Lm, varied):
    parts = []
    if "A" in varied and La != "UTC":
        parts.append("arg-date")
    if "E" in varied and Le != "UTC":
        parts.append("epoch")
    if "M" in varied and Lm != "UTC":
        parts.append("maneuver-date")
    return "+".join(parts)


# seconds after the epoch over which the operation itself adds timedeltas to a labelled date
SPAN = {"visibility": DT + 8 * 3600 + 600, "node_events": DT + 2 * 3600 + 600, "sun": 5 * 86400.0, "moon": 86400.0}


def check_case(case, t):
    from beyond.dates import timedelta

    op, inst, Le, La, Lm = case["op"], case["instant"], case["epoch"], case["arg"], case["man"]
    mode, prev = case.get("mode"), case.get("prev")
    fn, varied, site, flags = OPS[op]
    fixed = op in ("frame1980", "frame2010", "visibility")
    if op == "jpl" and inst.startswith("1995"):
        t.exclude("JPL kernel de403_2000-2020 does not cover 1995")
        return
    # mode None: one call, labels (Le, La, Lm), reference = the all-UTC call at the same instant.
    # mode 'same-instant': the call with every date labelled Le comes right after the same call labelled `prev` (same instants).
    # mode 'same-fields':  the call with every date showing the UTC calendar fields but labelled Le (another instant!) comes
    #                      right after the call with the same fields labelled `prev`; reference = the all-UTC call at ITS OWN instants.
    if mode == "same-fields":
        d, d_prev = dates_fields(inst, Le), dates_fields(inst, prev)
    else:
        d = dates_for(inst, Le, La, Lm)
        d_prev = dates_for(inst, prev, prev, prev) if mode else None
    if d is None or (mode and d_prev is None):
        t.exclude("relabelled date is not the same instant within 2 us (subject of C03)")
        return
    ref = baseline(op, inst, Le if mode == "same-fields" else None)
    t.trans()
    t.states_add(1)
    t.ev((op, inst, Le, La, Lm, mode, prev))
    wh = which(Le, La, Lm, varied) if not mode else f"call-sequence/{mode}"
    if mode:
        varied = "EAM"
        try:
            run_op(op, d_prev)
            t.trans()
        except Exception as e:
            t.fail(f"scale-label/{site}/{wh}/raises", "the operation succeeds whatever the label", case, "result", repr(e),
                   f"{op} at {inst}, preceding call with label {prev}")
            return
    used = [(d["Eu"], Le, "E"), (d["Au"], La, "A"), (d["Eu"], Lm, "M")]
    used = [(u, L) for u, L, role in used if role in varied and L != "UTC"]
    # (1) some varied label shows another calendar day than UTC at its date: the day-indexed EOP record is then
    #     the one of the label's clock day (0.1-1 m in Earth-fixed frames, < 5 ms in UT1 conversions)
    seam = any(clock_day_differs(u, L) for u, L in used)
    # (2) an UT1 label and the operation adds timedeltas to it across 0h UT1: the tabulated UT1-UTC steps there, so
    #     "start + k*step" in UT1 is another instant (<= one day's change of UT1-UTC per midnight) than in a uniform scale
    span = SPAN.get(op, DT + 3600 + 600)
    nights = 0
    drift = 0.0
    if "arith" in flags:
        for u, L in used:
            if L == "UT1":
                a = label(u - timedelta(seconds=span if op in ("sun", "moon") else 0), "UT1").datetime.date()
                b = label(u + timedelta(seconds=span), "UT1").datetime.date()
                nights = max(nights, (b - a).days)
            if L == "TDB":
                drift = 3.4e-10 * span  # d(TDB-TT)/dt <= 1.657e-3 s x 2 pi / yr: "k steps" in TDB is not k steps in TT

    def classify(tau, default):
        """tau = size of the discrepancy expressed as a time shift [s]"""
        if "eop" in flags and seam and tau <= 5e-3:
            return f"scale-label/{site}/eop-day-of-label-clock"
        if "arith" in flags and nights and tau <= 5e-3 * nights:
            return f"scale-label/{site}/UT1-arithmetic-across-0h"
        return default

    try:
        got = run_op(op, d)
    except Exception as e:
        t.fail(f"scale-label/{site}/{wh}/raises", "the operation succeeds whatever the label", case, "result", repr(e),
               f"{op} at {inst} with epoch {Le}, arg {La}, maneuver {Lm}")
        return
    where = f"{site} at {inst}: epoch label {Le}, argument label {La}, maneuver label {Lm}"
    if mode:
        where = f"{site} at {inst}: all dates labelled {Le} ({mode.replace('-', ' ')} as in the preceding call labelled {prev})"
    for name, r in ref.items():
        g = got.get(name)
        if g is None:
            t.fail(f"scale-label/{site}/{wh}/missing-result", "same results whatever the label", case, name, sorted(got))
            continue
        kind = r[0]
        if g[0] == "skip" or kind == "skip":
            t.exclude((g if g[0] == "skip" else r)[1])
            continue
        if kind == "state":
            x0, x1, sk = r[1], g[1], r[2]
            # a state is judged at the date it carries (the date itself is judged below)
            dt = d["res"] + 2e-6 + drift + abs(stored_diff(g[3], r[3]))
            dp = float(np.linalg.norm(x1[:3] - x0[:3]))
            dv = float(np.linalg.norm(x1[3:] - x0[3:]))
            rr, vv = float(np.linalg.norm(x0[:3])), float(np.linalg.norm(x0[3:]))
            acc = MU / max(rr, 6.4e6) ** 2
            if sk == "body":
                # JD double (40 us) in the series argument; velocity by central differences whose +-step is added in
                # the label's own scale: UT1 (LOD excess <= 4 ms/day) and TDB run at up to 5e-8 relative to TAI
                tp = vv * (dt + 50e-6) + 1e-15 * rr * 8 + 1e-6
                tv = vv * 5e-8 + 1e-5
            elif sk == "fixed":
                tp = vv * dt + OMEGA * 7.0e6 * 50e-6 + 1e-6
                tv = (acc + OMEGA * 7.6e3) * (dt + 50e-6) + OMEGA * OMEGA * 7.0e6 * 50e-6 + 1e-9
            elif sk == "relative":
                tp = max(vv, 1.0) * dt + 1e-6
                tv = 1e-2 * dt + 1e-9
            elif sk == "print":
                tp = vv * dt + 1e-3 + 1e-9  # one unit of the last printed digit of the coarser format (1e-6 km)
                tv = acc * dt + 1e-3 + 1e-9
            else:
                tp = vv * dt + 1e-6
                tv = acc * dt + 1e-9
            okp, okv = dp <= tp, dv <= tv
            if abs(stored_diff(g[3], r[3])) <= 2e-6:
                # the adequacy figures are taken where the two results carry the same date (otherwise the tolerance
                # is dominated by, and the ratio is ~1 because of, the difference of the dates, judged separately)
                t.margin(f"{op}: position difference [m] vs |v| x time residual", dp, tp, case)
                t.margin(f"{op}: velocity difference [m/s] vs |a| x time residual", dv, tv, case)
            if not (okp and okv):
                tau = max(dp / max(vv, 1.0), 0.0 if okv else dv / max(acc, 1e-3))
                if fixed:
                    tau = min(tau, dp / (OMEGA * 7.0e6))  # a pure Earth-rotation/EOP effect is smaller than |v| x tau suggests
                t.fail(classify(tau, f"scale-label/{site}/{wh}"),
                       "same physical result when the same instant is supplied in a different time scale", case,
                       [float(v) for v in x0], [float(v) for v in x1],
                       f"{where}: {name} moves by {dp:.6g} m / {dv:.6g} m/s (tolerance {tp:.3g} m / {tv:.3g} m/s)")
        elif kind == "date":
            dd = abs(stored_diff(g[1], r[1]))
            if not t.margin("date of the result [s] (tol 1 us + residual)", dd, 1e-6 + d["res"] + drift + 1e-9, case):
                t.fail(classify(dd, f"scale-label/{site}/{wh}/result-date"), "the result is dated at the requested instant", case, str(r[1]), str(g[1]),
                       f"{where}: {name} is {g[1]} instead of {r[1]} ({stored_diff(g[1], r[1]):+.6f} s)")
        elif kind == "selfdate":
            # a date read back from a message must be the instant that was written (whatever the label): compare with the input
            dd = abs(stored_diff(g[1], g[2]))
            if not t.margin("message round trip: date read back vs date written [s] (tol 1 us)", dd, 1e-6 + 1e-9, case):
                role = {"epoch": "epoch", "man1": "maneuver-date", "man2": "maneuver-date"}.get(name, "point-date")
                t.fail(classify(dd, f"scale-label/{site}/{role}"), "a message round trip returns the same instant whatever the label", case,
                       str(g[2]), str(g[1]), f"{where}: {name} written as {g[2]} is read back as {g[1]} ({stored_diff(g[1], g[2]):+.6f} s)")
        elif kind == "dates":
            tol = r[3] + d["res"] + drift + 2e-6
            if g[2] != r[2]:
                t.fail(f"scale-label/{site}/{wh}/events-differ", "same events whatever the label", case, r[2], g[2], where)
                continue
            for k, (a, b) in enumerate(zip(r[1], g[1])):
                dd = abs(stored_diff(b, a))
                if not t.margin(f"{op}: date of {name} [s]", dd, tol, case):
                    t.fail(classify(dd, f"scale-label/{site}/{wh}"),
                           "same physical result when the same instant is supplied in a different time scale", case, str(a), str(b),
                           f"{where}: {name}[{k}] ({r[2][k]}) moves by {stored_diff(b, a):+.6f} s (tolerance {tol:.3g} s)")
                    break
        elif kind == "text":
            if g[1] != r[1]:
                t.fail(f"scale-label/{site}/{wh}/{name}", "same result whatever the label", case, r[1], g[1], where)
    t.outcome((op, inst, "seam" if seam else "ut1-night" if nights else "plain"))
    if len(t.samples) < 2:
        t.sample(dict(case, results=sorted(got)))


# ---------------------------------------------------------------------------


HEAVY = ("visibility",)  # ~0.2 s per call: call sequences only for the pairs involving UTC


def seq_pairs(op):
    pairs = [(a, b) for a in LABELS for b in LABELS if a != b]
    if op in HEAVY:
        pairs = [(a, b) for a, b in pairs if "UTC" in (a, b)]
    return pairs


def units(tier, seed):
    u = []
    for op in OPS:
        for inst in INSTANTS:
            for part in ("labels", "same-instant", "same-fields"):
                u.append((CFG, dict(op=op, instant=inst, part=part)))
            # without IERS files (zero corrections): the label products; the call sequences are the business of the first group
            u.append((CFG0, dict(op=op, instant=inst, part="labels")))
    return u


def _setup_failed(t, case):
    if "setup_error" in _G:
        t.fail("setup/real-tables-do-not-load", "with the IERS files configured the EOP database loads", case, "database", _G["setup_error"])
        return True
    return False


def run_unit(p, t):
    op, inst, part = p["op"], p["instant"], p["part"]
    if _setup_failed(t, dict(config=_G["config"], op="setup")):
        return
    if part == "labels":
        for Le, La, Lm in label_sets(OPS[op][1]):
            if (Le, La, Lm) == ("UTC", "UTC", "UTC"):
                continue
            check_case(dict(config=_G["config"], op=op, instant=inst, epoch=Le, arg=La, man=Lm), t)
    else:
        for prev, cur in seq_pairs(op):
            check_case(dict(config=_G["config"], op=op, instant=inst, epoch=cur, arg=cur, man=cur, mode=part, prev=prev), t)


def replay(case, t):
    if _G.get("config") != case["config"]:
        raise RuntimeError("replay in a process configured for %r" % (_G.get("config"),))
    if _setup_failed(t, case) or case["op"] == "setup":
        return
    check_case(case, t)
