"""C20 — conversion routing is correct for every registration order.

Explicit-state search on the real `beyond.utils.node.Node` (and on the real
frame registries): a state is the history of link insertions that reaches it,
rebuilt on fresh objects; the invariant is evaluated in every state against a
breadth-first-search reference on the explicit edge list.
"""

import itertools
import math
from collections import deque

PROPERTY = "C20"
CLAIM = dict(
    text="Explicit-state model checking of the real Node class and frame registries: every insertion order and orientation of every tree up to 6 (quick) / 8 (thorough) nodes and of every ring up to 7 / 8 nodes, every insertion history of small general graphs (canonical-state BFS), and every repetition-free sequence of station / orbit-frame / body-frame registrations up to depth 3 / 4; in every intermediate state every ordered pair is checked against a BFS reference (termination, valid links, shortest length, ValueError for unconnected pairs), existing conversions are compared bit-for-bit with the pristine world, and every registered frame's origin and (local orbital frames) axes are compared with the object it was attached to. Exhaustive within the bounds, so it covers the quantifier of the property (all orders) rather than one order as the tests do.",
    note="Trusts: renaming invariance of Node (cross-checked on all labelled trees n<=5/6), the BFS reference, and world snapshot/restore of the registries. Beyond 8 nodes / the stated edge bounds nothing is claimed.",
    technique="explicit-state search over link-insertion histories on the real implementation, BFS reference model",
)
RULE = (
    "states = insertion histories (ordered, oriented link lists) of the real Node class, every prefix checked; "
    "trees: one labelled representative per isomorphism class (all labelled trees for n<=5), all (n-1)! orders x 2^(n-1) "
    "orientations; graphs: BFS over histories with canonical-state deduplication (neighbour order + routing tables), "
    "first edge fixed by renaming symmetry; registries: all repetition-free sequences of frame-creating operations. "
    "non-trivial = state with at least 3 linked nodes (a route of >=2 hops exists); distinct by history"
)
BOUNDS = {
    "quick": "trees n<=6 (classes) + all labelled trees n<=5; rings n<=7 (all orders x orientations, first link fixed by the dihedral symmetry); graphs: 4 nodes all edges, 5 nodes <=6 edges, 6 nodes <=6 edges; registry histories: all of length<=3 over the 8 core operations, all of length<=2 over the 17 operations, and every length-3 history placing a dependent operation (frame on the Moon frame, nested frame, re-registration) with its prerequisite (incl. two re-registrations of a used name and a local orbital frame on a body-centred parent)",
    "thorough": "trees n<=8 (classes) + all labelled trees n<=6; rings n<=8; graphs: 5 nodes <=8 edges, 6 nodes <=7 edges; registry histories: length<=4 over the core operations, length<=3 over all 17",
}
ASSUMPTIONS = [
    "Node behaviour is invariant under renaming of nodes (names are only compared for equality / used as dict keys); "
    "checked by exploring ALL labelled trees up to n=5 (quick) / 6 (thorough) besides the class representatives",
    "reference = breadth-first search on the explicit undirected edge list",
    "registry part runs with the EOP policy 'pass' (zero corrections): routing does not depend on EOP values",
]
NOT_COVERED = ("trees and rings with more than 8 nodes, graphs beyond the stated edge bounds; after a name is registered again only the NEW "
               "definition is checked (objects still expressed in the superseded frame follow the new links by design of the name-keyed registries)")


# ---------------------------------------------------------------------------
# reference: BFS distances / components on an explicit edge list


def ref_dist(n, edges):
    adj = [[] for _ in range(n)]
    for a, b in edges:
        adj[a].append(b)
        adj[b].append(a)
    dist = []
    for s in range(n):
        d = [-1] * n
        d[s] = 0
        q = deque([s])
        while q:
            u = q.popleft()
            for v in adj[u]:
                if d[v] < 0:
                    d[v] = d[u] + 1
                    q.append(v)
        dist.append(d)
    return dist


# ---------------------------------------------------------------------------
# tree enumeration


def prufer_to_edges(seq, n):
    degree = [1] * n
    for x in seq:
        degree[x] += 1
    edges = []
    import heapq

    leaves = [i for i in range(n) if degree[i] == 1]
    heapq.heapify(leaves)
    for x in seq:
        leaf = heapq.heappop(leaves)
        edges.append((min(leaf, x), max(leaf, x)))
        degree[x] -= 1
        if degree[x] == 1:
            heapq.heappush(leaves, x)
    a = heapq.heappop(leaves)
    b = heapq.heappop(leaves)
    edges.append((min(a, b), max(a, b)))
    return edges


def labelled_trees(n):
    if n == 1:
        return [[]]
    if n == 2:
        return [[(0, 1)]]
    return [prufer_to_edges(seq, n) for seq in itertools.product(range(n), repeat=n - 2)]


def tree_canon(n, edges):
    """AHU canonical form rooted at the centre(s)."""
    adj = [[] for _ in range(n)]
    for a, b in edges:
        adj[a].append(b)
        adj[b].append(a)
    # centres by leaf stripping
    deg = [len(a) for a in adj]
    layer = [i for i in range(n) if deg[i] <= 1]
    removed = len(layer)
    while removed < n:
        nxt = []
        for u in layer:
            for v in adj[u]:
                deg[v] -= 1
                if deg[v] == 1:
                    nxt.append(v)
        removed += len(nxt)
        layer = nxt
    def enc(u, p):
        return "(" + "".join(sorted(enc(v, u) for v in adj[u] if v != p)) + ")"
    return min(enc(c, -1) for c in layer)


def tree_classes(n):
    reps = {}
    for e in labelled_trees(n):
        reps.setdefault(tree_canon(n, e), e)
    return [reps[k] for k in sorted(reps)]


N_CLASSES = {1: 1, 2: 1, 3: 1, 4: 2, 5: 3, 6: 6, 7: 11, 8: 23}

# ---------------------------------------------------------------------------
# the real thing


def build(n, hist):
    from beyond.utils.node import Node

    nodes = [Node("n%d" % i) for i in range(n)]
    for a, b in hist:
        r = nodes[a] + nodes[b]
        if r is not nodes[b]:
            # `a + b` returns b, which is what makes chains such as A + B + C link B to C
            raise ChainContract(a, b)
    return nodes


class ChainContract(Exception):
    pass


def build_checked(n, hist, t, kind):
    """build(), turning a broken `a + b is b` contract into a violation. Returns None in that case."""
    try:
        return build(n, hist)
    except ChainContract as e:
        a, b = e.args
        t.fail("node/add-does-not-return-other", "`a + b` links a and b and returns b (chains A + B + C link B to C)",
               dict(kind=kind, n=n, history=[list(x) for x in hist]), f"node {b}", "another object", f"{a} + {b} after {hist[:-1]}")
        return None


def relink_checks(n, hist, t, kind):
    """Declaring an existing link again (either way round) keeps every invariant and still returns the other node."""
    und = sorted(set((min(a, b), max(a, b)) for a, b in hist))
    for a, b in und:
        for x, y in ((a, b), (b, a)):
            h2 = list(hist) + [(x, y)]
            nodes = build_checked(n, h2, t, kind + "+relink")
            t.trans(len(h2))
            if nodes is not None:
                check_state(n, h2, nodes, t, kind + "+relink")
            t.states_add(1)


def follow(nodes, idx, a, b, limit):
    """Follow the routing tables by hand (bounded: path() itself loops forever on a routing cycle)."""
    goal = nodes[b].name
    cur = nodes[a]
    out = [a]
    for _ in range(limit):
        r = cur.routes.get(goal)
        if r is None:
            return out, "no-route"
        cur = r.direction
        out.append(idx.get(id(cur), -1))
        if cur.name == goal:
            return out, "ok"
    return out, "loop"


def check_state(n, hist, nodes, t, kind):
    """Invariant of C20 in one state. Returns number of ordered pairs examined."""
    und = set((min(a, b), max(a, b)) for a, b in hist)
    dist = ref_dist(n, und)
    idx = {id(x): i for i, x in enumerate(nodes)}
    case = dict(kind=kind, n=n, history=[list(e) for e in hist])
    is_tree_like = len(und) == len(set(x for e in und for x in e)) - _ncomp_nontrivial(n, und)
    shape = "forest" if is_tree_like else "cyclic"
    pairs = 0
    for a in range(n):
        na = nodes[a]
        # self
        for how, goal in (("name", na.name), ("object", na)):
            try:
                p = na.path(goal)
                st = list(na.steps(goal))
                if len(p) != 1 or p[0] is not na or st:
                    t.fail(f"node/{shape}/self-path/{how}", "the chain from an item to itself is empty ([self], no steps)", case, [a], [[idx.get(id(x)) for x in p], len(st)])
            except Exception as e:
                t.fail(f"node/{shape}/self-path/{how}", "the chain from an item to itself is empty ([self], no steps)", case, [a], repr(e))
        comp = [b for b in range(n) if dist[a][b] > 0]
        for b in range(n):
            if a == b:
                continue
            pairs += 1
            d = dist[a][b]
            if d < 0:
                # unconnected -> must be reported
                try:
                    p = _bounded_path(nodes, idx, a, b, n + 2)
                    t.fail(f"node/{shape}/unconnected-not-reported", "unconnected items are reported (ValueError)", case,
                           "ValueError", p, f"{a}->{b} in different components")
                except ValueError:
                    pass
                continue
            chain, st = follow(nodes, idx, a, b, n + 2)
            if st != "ok":
                t.fail(f"node/{shape}/{st}", "every connected pair has a terminating chain", case,
                       f"chain {a}->{b} of length {d}", chain, f"{a}->{b}: {st}")
                continue
            bad = [(x, y) for x, y in zip(chain, chain[1:]) if (min(x, y), max(x, y)) not in und]
            if bad or chain[-1] != b:
                t.fail(f"node/{shape}/invalid-link", "chain uses only existing links", case, None, chain, f"{a}->{b}: {bad}")
                continue
            if len(chain) - 1 != d:
                t.fail(f"node/{shape}/non-shortest", "chain is the unique (tree) / a shortest (graph) chain", case,
                       d, chain, f"{a}->{b}: got {len(chain)-1} hops, shortest is {d}")
            # routes[...].steps bookkeeping must equal the real chain length (next-hop consistency)
            # the public API must agree with the tables
            p = [idx.get(id(x), -1) for x in na.path(nodes[b].name)]
            if p != chain:
                t.fail(f"node/{shape}/path-vs-routes", "path() follows the routing tables", case, chain, p)
            p2 = [idx.get(id(x), -1) for x in na.path(nodes[b])]
            s = [(idx.get(id(x), -1), idx.get(id(y), -1)) for x, y in na.steps(nodes[b].name)]
            if p2 != chain or s != list(zip(chain, chain[1:])):
                t.fail(f"node/{shape}/steps-vs-path", "steps() is the edge list of path()", case, chain, [p2, s])
        # .list enumerates the component
        try:
            lst = sorted(idx.get(id(x), -1) for x in na.list)
            if lst != sorted(comp + [a]):
                t.fail(f"node/{shape}/list", "Node.list is the connected component", case, sorted(comp + [a]), lst)
        except Exception as e:
            t.fail(f"node/{shape}/list", "Node.list is the connected component", case, sorted(comp + [a]), repr(e))
    return pairs


def _ncomp_nontrivial(n, und):
    parent = list(range(n))
    def f(x):
        while parent[x] != x:
            parent[x] = parent[parent[x]]
            x = parent[x]
        return x
    for a, b in und:
        parent[f(a)] = f(b)
    touched = set(x for e in und for x in e)
    return len(set(f(x) for x in touched))


def _bounded_path(nodes, idx, a, b, limit):
    """Node.path semantics with a hop limit (raises ValueError like path())."""
    goal = nodes[b].name
    if goal not in nodes[a].routes:
        # the real call, which must raise
        nodes[a].path(goal)
        return "returned"
    chain, st = follow(nodes, idx, a, b, limit)
    return chain


def canon_state(nodes):
    return tuple(
        (tuple(x.name for x in nd.neighbors), tuple(sorted((k, r.direction.name, r.steps) for k, r in nd.routes.items())))
        for nd in nodes
    )


# ---------------------------------------------------------------------------
# units


def units(tier, seed):
    u = []
    cfg = {"eop": "pass"}
    nmax_class = 6 if tier == "quick" else 8
    nmax_all = 5 if tier == "quick" else 6
    for n in range(2, nmax_class + 1):
        for ti, edges in enumerate(tree_classes(n)):
            if n <= 6:
                u.append((cfg, dict(part="tree", n=n, edges=edges, first=None, label=f"class{ti}")))
            else:
                for fi in range(len(edges)):
                    for fo in (0, 1):
                        u.append((cfg, dict(part="tree", n=n, edges=edges, first=[fi, fo], label=f"class{ti}")))
    for n in range(3, nmax_all + 1):
        trees = labelled_trees(n)
        chunk = 25 if n <= 5 else 12
        for i in range(0, len(trees), chunk):
            u.append((cfg, dict(part="trees", n=n, trees=trees[i : i + chunk])))
    # rings: every insertion order x orientation of the links of the n-cycle (first link fixed by the dihedral
    # symmetry of the ring, names play no role in the algorithm); long cycles are where a table update that stops
    # early leaves a longer way round
    for n in range(3, (7 if tier == "quick" else 8) + 1):
        ring = [(i, (i + 1) % n) for i in range(n)]
        if n <= 6:
            u.append((cfg, dict(part="ring", n=n, edges=ring, prefix=[[0, 0]])))
        else:
            for i in range(1, n):
                for o in (0, 1):
                    u.append((cfg, dict(part="ring", n=n, edges=ring, prefix=[[0, 0], [i, o]])))
    # general graphs
    graph_bounds = [(4, 6), (5, 6), (6, 6)] if tier == "quick" else [(4, 6), (5, 8), (6, 7)]
    for n, m in graph_bounds:
        # second-level prefixes (first edge fixed to 0+1 by renaming symmetry)
        all_e = [(a, b) for a in range(n) for b in range(n) if a != b]
        for e2 in all_e:
            if set(e2) == {0, 1}:
                continue
            u.append((cfg, dict(part="graph", n=n, m=m, prefix=[[0, 1], list(e2)])))
    # registries: explicit history lists (deviation-bounded: every history over the core operations to the full depth,
    # every history over ALL operations one level shallower, plus every length-3 history containing a dependent
    # operation right after / one step after the registration it needs)
    hs = registry_histories(tier)
    chunk = 12
    for i in range(0, len(hs), chunk):
        u.append((cfg, dict(part="registry", hists=hs[i : i + chunk])))
    return u


_SNAP = {}


def setup(config):
    from beyond.config import config as bc

    bc.update({"eop": {"missing_policy": "pass"}})
    import logging

    # the re-registration operations make the library log "A frame with the name ... is already registered" each time
    logging.getLogger("beyond.frames.frames").setLevel(logging.ERROR)


def run_unit(p, t):
    if p["part"] == "tree":
        run_tree(p["n"], [tuple(e) for e in p["edges"]], p["first"], t, "tree-class")
    elif p["part"] == "ring":
        run_tree(p["n"], [tuple(e) for e in p["edges"]], p["prefix"], t, "ring")
    elif p["part"] == "trees":
        for edges in p["trees"]:
            run_tree(p["n"], [tuple(e) for e in edges], None, t, "tree-labelled")
    elif p["part"] == "graph":
        run_graph(p["n"], p["m"], [tuple(e) for e in p["prefix"]], t)
    elif p["part"] == "registry":
        for h in p["hists"]:
            check_registry(h, t)


def run_tree(n, edges, first, t, kind):
    """DFS over all orders x orientations of the tree's edges; invariant in every prefix."""
    m = len(edges)

    def rec(hist, remaining):
        if hist:
            nodes = build_checked(n, hist, t, kind)
            if nodes is None:
                return
            t.trans(len(hist))
            t.states_add(1)
            pairs = check_state(n, hist, nodes, t, kind)
            if n <= 4:
                relink_checks(n, hist, t, kind)
            t.ev(("T", n, tuple(hist)) if len(hist) >= 2 else None)
            if len(hist) == m:
                t.outcome(("tree", n, canon_tables_shape(nodes)))
                if len(t.samples) < 2:
                    t.sample(dict(kind=kind, n=n, history=[list(e) for e in hist], pairs_checked=pairs))
        for i in remaining:
            a, b = edges[i]
            rest = [j for j in remaining if j != i]
            if len(hist) < len(prefix):
                if i != prefix[len(hist)][0]:
                    continue
                rec(hist + [(a, b) if prefix[len(hist)][1] == 0 else (b, a)], rest)
                continue
            rec(hist + [(a, b)], rest)
            rec(hist + [(b, a)], rest)

    # `first` is None, one [edge index, orientation] or a list of them (forced beginning of the history)
    prefix = [] if first is None else ([first] if not isinstance(first[0], (list, tuple)) else list(first))
    rec([], list(range(m)))


def canon_tables_shape(nodes):
    return tuple(sorted(tuple(sorted(r.steps for r in nd.routes.values())) for nd in nodes))


def run_graph(n, m, prefix, t):
    """BFS over insertion histories with canonical-state deduplication."""
    seen = set()
    frontier = deque([list(prefix)])
    nodes = build_checked(n, prefix, t, "graph")
    if nodes is None:
        return
    seen.add(canon_state(nodes))
    while frontier:
        hist = frontier.popleft()
        nodes = build_checked(n, hist, t, "graph")
        if nodes is None:
            continue
        t.trans(len(hist))
        t.state(("G", n, canon_state(nodes)))
        check_state(n, hist, nodes, t, "graph")
        if n <= 4:
            relink_checks(n, hist, t, "graph")
        t.ev(("G", n, tuple(hist)))
        und = set((min(a, b), max(a, b)) for a, b in hist)
        t.outcome(("graph", n, len(und), canon_tables_shape(nodes)))
        if len(t.samples) < 1 and len(und) > n:
            t.sample(dict(kind="graph", n=n, history=[list(e) for e in hist]))
        if len(und) >= m:
            continue
        for a in range(n):
            for b in range(n):
                if a == b or (min(a, b), max(a, b)) in und:
                    continue
                # keep the graph connected-as-it-grows or not: both are allowed (forests of components)
                h2 = hist + [(a, b)]
                nodes2 = build_checked(n, h2, t, "graph")
                if nodes2 is None:
                    continue
                k = canon_state(nodes2)
                t.trans(len(h2))
                if k not in seen:
                    seen.add(k)
                    frontier.append(h2)


# ---------------------------------------------------------------------------
# registries of the real frames

REG_OPS = ["sta1", "sta2", "staE", "orb0", "orbQ", "orbT", "moon", "sun", "orbM", "orbN", "lofM", "orb0b", "sta1b", "svQ", "staP", "staT", "lone"]
# operations that need an earlier registration: the frame their reference orbit is expressed in, or - for the
# re-registrations orb0b / sta1b - the name they define again with other data (the links of the new definition
# must then be the ones followed)
REG_NEEDS = {"orbM": "moon", "orbN": "orb0", "lofM": "moon", "orb0b": "orb0", "sta1b": "sta1"}
STATIONS = {"Sta1": (43.428889, 1.497778, 178.0), "Sta2": (-35.4, 148.98, 690.0), "StaE": (10.0, -60.0, 50.0),
            "Sta1@b": (-22.5, 114.1, 35.0), "StaP": (64.8, -147.7, 135.0), "StaT": (-0.6, 73.1, 2.0)}


# local orbital frames: orientation and parent frame of their definition
LOF_DEF = {"OrbQ": ("QSW", "EME2000"), "OrbT": ("TNW", "EME2000"), "SvQ": ("QSW", "EME2000"), "LofM": ("QSW", "Moon")}


def _enabled(op, hist):
    return op not in hist and (op not in REG_NEEDS or REG_NEEDS[op] in hist)
BUILTIN = ["EME2000", "MOD", "TOD", "TEME", "PEF", "ITRF", "TIRF", "CIRF", "GCRF", "G50"]
_REG = {}


def _reg_world():
    if "snap" not in _REG:
        import numpy as np
        from mc import world
        from beyond.dates import Date
        from beyond.orbits import Orbit
        from beyond.frames import frames

        _REG["snap"] = world.snapshot()
        date = Date(2010, 3, 1, 12, 0, 0)
        _REG["date"] = date
        _REG["ref_orb"] = lambda: Orbit(
            [7000e3, 0.001, 0.9, 0.3, 0.2, 0.1], date, "keplerian", "EME2000", "Kepler"
        )
        _REG["probe"] = lambda: Orbit(
            [6878e3, 1.2e6, -3.4e5, -900.0, 5200.0, 5400.0], date, "cartesian", "EME2000", "Kepler"
        )
        # pristine observation
        _REG["pristine"] = _observe_builtin()
    return _REG


def _observe_builtin():
    import numpy as np

    probe = _REG["probe"]()
    out = {}
    for a in BUILTIN:
        pa = probe.copy(frame=a)
        for b in BUILTIN:
            if a != b:
                out[a + ">" + b] = np.array(pa.copy(frame=b), dtype=float)
    return out


def _apply(op):
    from beyond.frames import create_station
    from beyond.frames.frames import orbit2frame
    from beyond.env import solarsystem

    if op == "sta1":
        _REG["sta_of"]["Sta1"] = STATIONS["Sta1"]
        return create_station("Sta1", (43.428889, 1.497778, 178.0)).name
    if op == "sta2":
        _REG["sta_of"]["Sta2"] = STATIONS["Sta2"]
        return create_station("Sta2", (-35.4, 148.98, 690.0)).name
    if op == "staE":
        _REG["sta_of"]["StaE"] = STATIONS["StaE"]
        return create_station("StaE", (10.0, -60.0, 50.0), equatorial=True).name
    if op == "sta1b":  # the name Sta1 is defined again, elsewhere
        _REG["sta_of"]["Sta1"] = STATIONS["Sta1@b"]
        return create_station("Sta1", STATIONS["Sta1@b"]).name
    if op == "orb0b":  # the name Orb0 is defined again, on another orbit
        from beyond.orbits import Orbit

        o = Orbit([8200e3, 0.02, 1.3, 2.0, 1.1, 4.0], _REG["date"], "keplerian", "EME2000", "Kepler")
        _REG["ref_of"]["Orb0"] = o
        return orbit2frame("Orb0", o, None, exists_warning=False).name
    if op in ("staP", "staT"):  # stations whose parent frame is not the default ITRF (the station is then fixed in that frame)
        from beyond.frames.frames import get_frame

        nm, par = ("StaP", "PEF") if op == "staP" else ("StaT", "TOD")
        _REG["sta_parent"][nm] = par
        _REG["sta_of"][nm] = STATIONS[nm]
        return create_station(nm, STATIONS[nm], parent_frame=get_frame(par)).name
    if op == "lone":  # a frame whose centre is linked to nothing: it must be reported as unconnected
        from beyond.frames.frames import Frame
        from beyond.frames.center import Center
        from beyond.frames import orient as _orient

        return Frame("Lone", _orient.EME2000, Center("Lone")).name
    if op == "svQ":  # local orbital frame on a plain (non-propagating) StateVector given in another frame than the parent
        from beyond.orbits import StateVector

        o = StateVector([-2.1e6, 6.4e6, 1.3e6, -6.9e3, -2.0e3, 1.5e3], _REG["date"], "cartesian", "TEME")
        _REG["ref_of"]["SvQ"] = o
        return orbit2frame("SvQ", o, "QSW").name
    if op == "lofM":  # local orbital frame whose parent frame is not named after its orientation (Moon frame, EME2000 axes)
        from beyond.orbits import Orbit
        from beyond.frames.frames import get_frame

        o = Orbit([2.5e6, -4.0e5, 6.0e5, 120.0, 1300.0, -500.0], _REG["date"], "cartesian", "Moon", "Kepler")
        _REG["ref_of"]["LofM"] = o
        return orbit2frame("LofM", o, "QSW", parent=get_frame("Moon")).name
    if op == "orbM":  # orbit expressed in the (already registered) Moon-centred frame
        from beyond.orbits import Orbit

        o = Orbit([2.0e6, 1.0e5, -3.0e5, -50.0, 1500.0, 300.0], _REG["date"], "cartesian", "Moon", "Kepler")
        _REG["ref_of"]["OrbM"] = o
        return orbit2frame("OrbM", o, None).name
    if op == "orbN":  # orbit expressed in the (already registered) orbit-attached frame Orb0
        from beyond.orbits import Orbit

        o = Orbit([150.0, -80.0, 40.0, 0.1, 0.2, -0.05], _REG["date"], "cartesian", "Orb0", "Kepler")
        _REG["ref_of"]["OrbN"] = o
        return orbit2frame("OrbN", o, None).name
    if op == "orb0":
        _REG["ref_of"]["Orb0"] = _REG["ref_orb"]()
        return orbit2frame("Orb0", _REG["ref_of"]["Orb0"], None).name
    if op == "orbQ":
        _REG["ref_of"]["OrbQ"] = _REG["ref_orb"]()
        return orbit2frame("OrbQ", _REG["ref_of"]["OrbQ"], "QSW").name
    if op == "orbT":
        # an orbit of its own: two local orbital frames attached to different orbits and used at the same date must
        # each keep their own axes
        from beyond.orbits import Orbit

        _REG["ref_of"]["OrbT"] = Orbit([7400e3, 0.03, 1.1, 4.0, 2.5, 5.2], _REG["date"], "keplerian", "EME2000", "Kepler")
        return orbit2frame("OrbT", _REG["ref_of"]["OrbT"], "TNW").name
    if op == "moon":
        return solarsystem.get_frame("Moon").name
    if op == "sun":
        return solarsystem.get_frame("Sun").name
    raise ValueError(op)


def check_registry(hist, t):
    import numpy as np
    from mc import world

    R = _reg_world()
    world.restore(R["snap"])
    R["ref_of"] = {}
    R["sta_of"] = {}
    R["sta_parent"] = {}
    case = dict(kind="registry", history=list(hist))
    new = []
    snaps = {}
    for op in hist:
        try:
            nm = _apply(op)
            if nm not in new:
                new.append(nm)
            if nm in R["ref_of"]:
                o = R["ref_of"][nm]
                snaps[nm] = (np.array(o, dtype=float).tobytes(), str(o.frame), str(o.form))
        except Exception as e:
            t.fail("registry/create-raises/" + op, "registering a frame under a new name succeeds", case, None, repr(e))
            world.restore(R["snap"])
            return
        t.trans()
    # (1) pre-existing conversions unchanged (bit-for-bit: same code path, same inputs)
    try:
        obs = _observe_builtin()
        t.trans(len(obs))
        for k, v in obs.items():
            ref = R["pristine"][k]
            if not np.array_equal(v, ref):
                t.fail("registry/builtin-conversion-changed", "registering new frames never changes existing conversions",
                       case, ref, v, f"{k} after {hist}: max diff {np.max(np.abs(v-ref)):.3e}")
                break
    except Exception as e:
        t.fail("registry/builtin-conversion-raises", "registering new frames never changes existing conversions", case, None, repr(e))
    # (2) every new frame reachable from/to every other frame, round trip closes
    probe = R["probe"]()
    p0 = np.array(probe, dtype=float)
    for a in new:
        for b in BUILTIN + [x for x in new if x != a]:
            if "Lone" in (a, b):
                # unconnected items are reported as such (ValueError), never silently converted
                if b == "Lone":
                    continue  # handled when a == "Lone"
                for src, dst in ((b, "Lone"), ("Lone", b)):
                    try:
                        if src == "Lone":
                            from beyond.orbits import StateVector

                            StateVector([7e6, 1e5, -2e5, 10.0, 7.5e3, 1e2], R["date"], "cartesian", "Lone").copy(frame=dst)
                        else:
                            probe.copy(frame=src).copy(frame=dst)
                        t.trans()
                        t.fail("registry/unconnected-not-reported/" + _kind(src) + "-" + _kind(dst), "unconnected items are reported as such",
                               case, "ValueError", "a converted state", f"{src}->{dst} after {hist}")
                    except ValueError:
                        t.trans()
                    except Exception as e:
                        t.fail("registry/unconnected-wrong-exception/" + _kind(src) + "-" + _kind(dst), "unconnected items are reported as such",
                               case, "ValueError", repr(e), f"{src}->{dst}")
                continue
            try:
                x = probe.copy(frame=b).copy(frame=a)
                y = x.copy(frame=b).copy(frame="EME2000")
                t.trans(4)
                err = np.max(np.abs(np.array(y, dtype=float)[:3] - p0[:3]))
                scale = 1.0 if a not in ("Sun",) and b not in ("Sun",) else 1e3
                if not t.margin("registry round trip [m]", err, 1e-3 * scale):
                    t.fail("registry/roundtrip/" + _kind(a) + "-" + _kind(b), "new frames convert to and from every frame",
                           case, 0.0, err, f"EME2000->{b}->{a}->{b}->EME2000")
            except Exception as e:
                t.fail("registry/unreachable/" + _kind(a) + "-" + _kind(b), "every pair of connected frames is convertible",
                       case, "conversion", repr(e), f"{b}->{a}")
    # (3) the link of a new frame is attached to the right node: the object a frame is attached to sits at its origin
    from beyond.env import solarsystem

    for a in new:
        try:
            if a in R["ref_of"]:
                o = R["ref_of"][a]
            elif a in ("Moon", "Sun"):
                o = solarsystem.get_body(a).propagate(R["date"])
            else:
                continue
            z = np.array(o.copy(form="cartesian").copy(frame=a), dtype=float)
            t.trans()
            scale = max(1.0, float(np.linalg.norm(np.array(o.copy(form="cartesian"), dtype=float)[:3])))
            if not t.margin("registry origin offset / |r|", float(np.linalg.norm(z[:3])) / scale, 1e-9):
                t.fail("registry/origin/" + _kind(a), "a frame attached to an orbit/body is linked where that object is (it sits at the frame's origin)",
                       case, 0.0, z.tolist(), f"{a}: reference object at {z[:3]} in its own frame after {hist}")
        except Exception as e:
            t.fail("registry/origin-raises/" + _kind(a), "every pair of connected frames is convertible", case, "conversion", repr(e), a)
    # (4) the orientation link of a local orbital frame: the probe's position in the frame is its offset from the
    # reference object projected on the textbook QSW / TNW triad of THAT frame's own reference state in the parent
    # frame; examined in registration order and then in reverse order (conversions at one date, one frame after the
    # other: the answer never depends on which frame was used before)
    lofs = [a for a in new if a in LOF_DEF and a in R["ref_of"]]
    for a in lofs + lofs[::-1]:
        orient_, par = LOF_DEF[a]
        try:
            got = np.array(probe.copy(frame=a), dtype=float)[:3]
            o = R["ref_of"][a]
            rv = np.array(o.copy(form="cartesian").copy(frame=par), dtype=float)
            rel = np.array(probe.copy(frame=par), dtype=float)[:3] - rv[:3]
            t.trans(3)
            r, v = rv[:3], rv[3:]
            w = np.cross(r, v)
            w /= np.linalg.norm(w)
            if orient_ == "QSW":
                x = r / np.linalg.norm(r)
            else:
                x = v / np.linalg.norm(v)
            y = np.cross(w, x)
            exp = np.array([rel @ x, rel @ y, rel @ w])
            err = float(np.linalg.norm(got - exp)) / max(1.0, float(np.linalg.norm(rel)))
            if not t.margin("registry local-orbital axes, |dr| / |r|", err, 1e-9):
                t.fail("registry/axes/" + _kind(a), "a local orbital frame is linked to the axes of its own reference orbit",
                       case, exp.tolist(), got.tolist(), f"{a}: probe position {err:.3e} (relative) off the {orient_} triad of its reference after {hist}")
        except Exception as e:
            t.fail("registry/axes-raises/" + _kind(a), "every pair of connected frames is convertible", case, "conversion", repr(e), a)
    # the objects handed to orbit2frame are the user's: conversions never modify them
    for nm, snap in snaps.items():
        o = R["ref_of"][nm]
        now = (np.array(o, dtype=float).tobytes(), str(o.frame), str(o.form))
        if now != snap:
            t.fail("registry/reference-mutated/" + _kind(nm), "conversions through an orbit-attached frame leave the object it is attached to unchanged",
                   case, [snap[1], snap[2]], [now[1], now[2]], f"{nm}: reference was {snap[1]}/{snap[2]}, now {now[1]}/{now[2]} after {hist}")
    # a station's origin is the geodetic point of its CURRENT definition (independent ellipsoid formula; a and f read
    # from the library's constants as data)
    from mc.ref import geodesy
    from beyond.constants import Earth as _E
    from beyond.orbits import StateVector

    for a, (lat, lon, alt) in R["sta_of"].items():
        try:
            z = StateVector([0, 0, 0, 0, 0, 0], R["date"], "cartesian", a).copy(frame=R["sta_parent"].get(a, "ITRF"))
            t.trans()
            exp = geodesy.geodetic_to_ecef(np.radians(lat), np.radians(lon), alt, _E.r, _E.f)
            err = float(np.linalg.norm(np.array(z, dtype=float)[:3] - np.asarray(exp)[:3]))
            if not t.margin("registry station origin [m]", err, 1e-6):
                t.fail("registry/origin/" + _kind(a), "a station frame is linked at the geodetic point of its definition",
                       case, list(map(float, exp[:3])), np.array(z, dtype=float)[:3].tolist(), f"{a}: origin {err:.3f} m off after {hist}")
        except Exception as e:
            t.fail("registry/origin-raises/" + _kind(a), "every pair of connected frames is convertible", case, "conversion", repr(e), a)
    t.state(("R", tuple(hist)))
    t.ev(("R", tuple(hist)))
    t.outcome(("registry", len(new)))
    if len(hist) >= 3:
        t.sample(case)
    world.restore(R["snap"])


def _kind(name):
    return {"Sta1": "station", "Sta2": "station", "StaE": "eq-station", "Orb0": "orbframe", "OrbM": "orbframe-on-body", "OrbN": "orbframe-nested", "OrbQ": "lof", "OrbT": "lof", "LofM": "lof-on-body", "SvQ": "lof-on-statevector", "StaP": "station-other-parent", "StaT": "station-other-parent", "Lone": "unlinked"}.get(name, "body" if name in ("Moon", "Sun") else "builtin")


REG_CORE = ["sta1", "sta2", "staE", "orb0", "orbQ", "orbT", "moon", "sun"]


def registry_histories(tier):
    full_depth = 3 if tier == "quick" else 4
    out, seen = [], set()

    def add(h):
        k = tuple(h)
        ok = all(_enabled(op, list(h[:i])) for i, op in enumerate(h))
        if ok and k not in seen:
            seen.add(k)
            out.append(list(h))

    def rec(h, ops, depth):
        if h:
            add(h)
        if len(h) >= depth:
            return
        for op in ops:
            if op not in h:
                rec(h + [op], ops, depth)

    rec([], REG_CORE, full_depth)
    rec([], REG_OPS, full_depth - 1)
    for d, n in REG_NEEDS.items():
        for x in REG_OPS:
            if x not in (d, n):
                add([n, d, x])
                add([n, x, d])
                add([x, n, d])
    return out


def run_registry(prefix, depth, t):
    def rec(hist):
        check_registry(hist, t)
        if len(hist) >= depth:
            return
        for op in REG_OPS:
            if _enabled(op, hist):
                rec(hist + [op])

    if len(prefix) == 1:
        check_registry(prefix, t)
    else:
        rec(prefix)


def replay(case, t):
    if case["kind"] == "registry":
        check_registry(case["history"], t)
    else:
        n = case["n"]
        hist = [tuple(e) for e in case["history"]]
        nodes = build_checked(n, hist, t, case["kind"].replace("+relink", ""))
        if nodes is not None:
            check_state(n, hist, nodes, t, case["kind"])
