"""C17 — local orbital frames and maneuvers follow their definitions.

Exhaustive products over finite alphabets of states, delta-v vectors, frame tags, element increments and
maneuver dates, executed on the real code (frames/local.py, orbit2frame, orbits/man.py, KeplerNum) and
compared with the vector definitions, the textbook RK schemes of mc/ref/rk.py marching the same grid,
and the element changes measured with mc/ref/twobody.py.
"""

import itertools
import math

import numpy as np

PROPERTY = "C17"
CLAIM = dict(
    text="Every state of a 72-element alphabet (radius along +-x, +-y, +-z and oblique; prograde, retrograde and steeply radial "
    "velocities, elliptic and hyperbolic speeds) is pushed through to_qsw / to_tnw / to_local, orbit2frame (orientation None, QSW, TNW; "
    "fixed and propagated reference), ImpulsiveMan.dv and ContinuousMan.accel for every delta-v vector and frame tag, and compared with "
    "the vector definitions. KeplerNum with 1-3 impulsive maneuvers (dates on the grid, at mid-step, 1 us after a node) must equal the "
    "textbook scheme marching the same grid with the impulse applied exactly once at the first node at or after its date; continuous burns "
    "must equal the textbook scheme with the thrust switched on the stage dates, and with bodies=[] deliver exactly their delta-v. "
    "dkep2dv is evaluated on the full (da, di, dOmega) grid from 1 m / 1e-6 rad to 100 km / 0.1 rad on four orbits and its result applied to the state: "
    "it must be finite and realise the increments to first order (measured with an independent cartesian -> elements conversion).",
    note="Trusts the vector definitions coded in the harness (q = r/|r|, w = r x v/|r x v|, s = w x q; t = v/|v|, n = w x t), mc/ref/rk.py, "
    "mc/ref/twobody.py (cart_to_kep) and the registry snapshot/restore of mc/world.py.",
    technique="exhaustive product over finite input alphabets on the real code vs. vector definitions and an independent reference integrator",
)
RULE = (
    "one case = (state, function[, vector, tag]) / (orbit, position, da, di, dOmega) / (method, maneuver list); all cases are distinct by "
    "construction; non-trivial = every case except zero vectors / zero increments"
)
BOUNDS = {
    "quick": "72 states; 5 vectors x 3 tags; orbit2frame on 24 states x 3 orientations x {fixed, propagated} x 2 dates, plus all ordered pairs of "
    "registrations under ONE frame name (4 orbits x 3 orientations, with / without a registry reset in between: 264 histories), plus references given as "
    "{StateVector, Kepler Orbit} x forms {cartesian, keplerian, spherical, keplerian_mean} x frames {EME2000, TEME} x 3 orientations on 3 states (6 in thorough); dkep2dv: 4 orbits x 245 increments "
    "(+ 5 positions for pure da); KeplerNum: {euler, rk4, dopri54} x 60 s x 24 steps, 3 date kinds x 3 tags x 4 vectors single impulses, all ordered pairs and "
    "a set of triples of a 6-maneuver alphabet; continuous burns: 5 windows x 3 tags x 3 methods; "
    "the same maneuver object (4 classes) used 2-3 times on two orbits in every order, through a propagation and through dv()/accel(), vs a fresh object; "
    "maneuver vectors given as list / tuple / int ndarray / float ndarray, the caller's buffer refilled after construction; orbit2frame references given in "
    "frames centred elsewhere (another orbit's frame, a station, the Moon)",
    "thorough": "as quick with steps {15, 60, 120} s, rkf54 added, all ordered triples of the 6-maneuver alphabet, orbit2frame on all 72 states and all registration pairs and triples under one name (6 072 histories), dkep2dv on 6 orbits",
}
ASSUMPTIONS = [
    "matrix tolerance 64 eps / cos(flight path angle) (conditioning of the normalised cross product)",
    "an impulse dated t_m is due at the first node t_k with t_k - h < t_m <= t_k (this realises 'exactly once' and 'no later than one step'); "
    "for a date 1 us after a node the neighbouring node is accepted as well if the two dates are not distinguishable as MJD doubles (0.6 us resolution)",
    "dkep2dv: first order means |realised - requested| <= (K eps + 1e-6) eps with eps = max(|da|/a, sqrt(di^2 + (dOmega sin i)^2)), K = 5 max(1, 1/tan i) "
    "(second-order terms of the spherical triangle scale with 1/tan i); increments not small against the inclination itself are excluded, "
    "plane change applied at the argument of latitude returned by dkep2aol, da at any true anomaly",
    "re-creating a frame under a name already in use is supported by the library ('Overriding' warning): after every registration the frame registered "
    "under that name must be the frame of the orbit attached last (origin, axes = its definition triad, lossless round trip)",
    "continuous burns: the reference switches the thrust on the stage dates t + c h exactly like the definition start <= t < stop",
]
NOT_COVERED = (
    "velocity convention of local orbital frames (no rotation-rate term is specified by the property), the accuracy of KeplerianContinuousMan (only its "
    "independence from earlier uses is checked), maneuvers during backward "
    "propagation, states interpolated across an impulse (off-grid output inside the 8-point stencil of a maneuver), ClohessyWiltshire maneuvers (C16)"
)

EPS = 2.220446049250313e-16
LIBERR = (ValueError, AttributeError, TypeError, RuntimeError, KeyError, IndexError, ArithmeticError)
_G = {}


def setup(config):
    from beyond.config import config as bc

    bc.update({"eop": {"missing_policy": "pass"}})
    from beyond.dates import Date
    from beyond.env.solarsystem import get_body
    from mc import world

    _G["earth"] = get_body("Earth")
    _G["mu"] = float(_G["earth"].mu)
    _G["epoch"] = Date(2020, 3, 1, 12, 0, 0)
    import beyond.frames.frames  # noqa

    _G["snap"] = world.snapshot()


def A(x):
    return np.array(x, dtype=float)


def at(us):
    from datetime import timedelta

    return _G["epoch"] + timedelta(microseconds=int(us))


def us_of(date):
    d = date - _G["epoch"]
    return d.days * 86400_000_000 + d.seconds * 1_000_000 + d.microseconds


# ---------------------------------------------------------------------------
# alphabets

RDIRS = [(1, 0, 0), (-1, 0, 0), (0, 1, 0), (0, -1, 0), (0, 0, 1), (0, 0, -1), (1, 2, 3), (-2, 1, -1)]
GAMMAS = [0.0, 0.3, -1.2]  # flight path angle
ALPHAS = [0.0, math.pi, 2.0]  # azimuth of the horizontal velocity in the local horizontal plane
VECS = {"x": (1.0, 0.0, 0.0), "y": (0.0, 1.0, 0.0), "z": (0.0, 0.0, 1.0), "obl": (0.7, -1.9, 0.4), "zero": (0.0, 0.0, 0.0)}
TAGS = [None, "QSW", "TNW"]


def states():
    if "states" in _G:
        return _G["states"]
    out = []
    for di, d in enumerate(RDIRS):
        rhat = A(d) / np.linalg.norm(d)
        # an orthonormal pair completing rhat (Gram-Schmidt on the least aligned axis)
        ax = np.eye(3)[int(np.argmin(np.abs(rhat)))]
        e1 = ax - (ax @ rhat) * rhat
        e1 /= np.linalg.norm(e1)
        e2 = np.cross(rhat, e1)
        for gi, g in enumerate(GAMMAS):
            for ai, al in enumerate(ALPHAS):
                rad = 7.0e6 if (di + gi) % 2 == 0 else 2.4e7
                speed = (7.4e3 if rad < 1e7 else 3.9e3) * (1.7 if (di + ai) % 5 == 4 else 1.0)  # some hyperbolic
                v = speed * (math.sin(g) * rhat + math.cos(g) * (math.cos(al) * e1 + math.sin(al) * e2))
                out.append((f"r{di}g{gi}a{ai}", np.concatenate([rad * rhat, v])))
    _G["states"] = out
    return out


def triad(kind, y):
    """Definition of the local orbital frames: rows are the axes expressed in the inertial frame."""
    r, v = y[:3], y[3:]
    w = np.cross(r, v)
    w = w / np.linalg.norm(w)
    if kind is None:
        return np.eye(3)
    if kind.upper() == "QSW":
        q = r / np.linalg.norm(r)
        return np.array([q, np.cross(w, q), w])
    t = v / np.linalg.norm(v)
    return np.array([t, np.cross(w, t), w])


def cond(y):
    r, v = y[:3], y[3:]
    return np.linalg.norm(r) * np.linalg.norm(v) / np.linalg.norm(np.cross(r, v))


# ---------------------------------------------------------------------------
# part M / V : matrices and projections


def check_state(case, t):
    from beyond.frames.local import to_qsw, to_tnw, to_local
    from beyond.orbits import StateVector
    from beyond.orbits.man import ImpulsiveMan, ContinuousMan
    from datetime import timedelta

    sid = case["state"]
    y = dict(states())[sid]
    c = cond(y)
    tolm = 64 * EPS * c
    sv = StateVector(y, _G["epoch"], "cartesian", "EME2000")
    hyper = 0.5 * (y[3:] @ y[3:]) - _G["mu"] / np.linalg.norm(y[:3]) > 0
    for kind, fn in (("QSW", to_qsw), ("TNW", to_tnw)):
        ref = triad(kind, y)
        for inp_name, inp in (("array", y), ("list", [float(x) for x in y]), ("statevector", sv)):
            key = ("M", sid, kind, inp_name)
            t.ev(key)
            try:
                m = A(fn(inp) if inp_name != "list" else fn(np.array(inp)))
                m6 = A(to_local(kind.lower() if inp_name == "list" else kind, inp if inp_name != "list" else np.array(inp)))
                m3 = A(to_local(kind, inp if inp_name != "list" else np.array(inp), expanded=False))
                t.trans(3)
            except LIBERR as e:
                t.fail(f"local/{kind}/raises-{type(e).__name__}", "the matrix is defined for every state with non-zero angular momentum",
                       dict(case, kind=kind), "matrix", repr(e)[:200])
                continue
            e_def = float(np.max(np.abs(m - ref)))
            e_ort = float(np.max(np.abs(m @ m.T - np.eye(3))))
            e_det = abs(float(np.linalg.det(m)) - 1.0)
            if not t.margin("M: rows vs definition triad / (64 eps / cos fpa)", e_def, tolm):
                t.fail(f"local/to_{kind.lower()}/axes", "rows are radial (velocity) direction, completion, angular momentum direction",
                       dict(case, kind=kind), ref.tolist(), m.tolist(), f"{sid} {kind}: max dev {e_def:.3e}")
            if not t.margin("M: orthonormality and det / (64 eps / cos fpa)", max(e_ort, e_det), tolm):
                t.fail(f"local/to_{kind.lower()}/not-a-proper-rotation", "the matrix is a proper rotation", dict(case, kind=kind), "R R^T = I, det = +1",
                       dict(orth=e_ort, det=e_det))
            blk = np.zeros((6, 6))
            blk[:3, :3] = m
            blk[3:, 3:] = m
            if m6.shape != (6, 6) or float(np.max(np.abs(m6 - blk))) > 0 or float(np.max(np.abs(m3 - m))) > 0:
                t.fail("local/to_local/expanded", "to_local(expanded) is the block-diagonal expansion of the 3x3 matrix", dict(case, kind=kind),
                       blk.tolist(), m6.tolist())
    t.states_add(1)
    t.outcome(("M", "hyperbolic" if hyper else "elliptic", round(c, 1)))
    # ---- projections of delta-v / acceleration ------------------------------------------------------
    forms = ["cartesian", "keplerian"]
    for vname, vec in VECS.items():
        vec = A(vec)
        for tag in TAGS:
            want = triad(tag, y).T @ vec
            for form in forms:
                for variant in ("impulse", "accel", "accel-from-dv"):
                    key = ("V", sid, vname, tag, form, variant)
                    t.ev(key if vname != "zero" else None)
                    orb = sv.copy(form=form)
                    if form != "cartesian":
                        back = A(orb.copy(form="cartesian"))
                        if not np.all(np.isfinite(A(orb))) or float(np.linalg.norm(back - y)) > 1e-7 * float(np.linalg.norm(y)):
                            t.exclude("keplerian form of this state is singular / does not round-trip (element conversions are C01's subject)")
                            continue
                    tagv = tag.lower() if (tag and form == "keplerian") else tag
                    try:
                        if variant == "impulse":
                            got = A(ImpulsiveMan(_G["epoch"], vec, frame=tagv).dv(orb))
                            scale = 1.0
                        elif variant == "accel":
                            got = A(ContinuousMan(_G["epoch"], timedelta(seconds=40), accel=vec, frame=tagv).accel(orb))
                            scale = 1.0
                        else:
                            got = A(ContinuousMan(_G["epoch"], timedelta(seconds=40), dv=vec, frame=tagv, date_pos="median").accel(orb))
                            scale = 1 / 40.0
                        t.trans()
                    except LIBERR as e:
                        t.fail(f"man/{variant}/raises-{type(e).__name__}", "delta-v / acceleration is defined for every state, vector and tag",
                               dict(case, vec=vname, tag=tag, form=form), "vector", repr(e)[:200])
                        continue
                    nv = float(np.linalg.norm(vec)) * scale
                    # the keplerian -> cartesian conversion of the state (trigonometric round trip) costs a few 1e-15 on the axes: allow 1e-12
                    tol = (tolm if form == "cartesian" else 1e-12 * c) * max(nv, 1e-300) + 1e-300
                    e1 = float(np.linalg.norm(got - want * scale))
                    e2 = abs(float(np.linalg.norm(got)) - nv)
                    lab = "V: projected vector vs definition / tol" + ("" if form == "cartesian" else " (keplerian input)")
                    if not t.margin(lab, e1, tol):
                        t.fail(f"man/{variant}/axes/{tag}", "the maneuver acts along the axes of its frame tag", dict(case, vec=vname, tag=tag, form=form),
                               (want * scale).tolist(), got.tolist(), f"{sid} {vname} {tag} {form}: |diff|={e1:.3e}")
                    if not t.margin("V: |projected vector| vs stated magnitude / (64 eps)", e2, 64 * EPS * max(nv, 1e-300) + 1e-300):
                        t.fail(f"man/{variant}/magnitude/{tag}", "the maneuver contributes exactly its stated magnitude", dict(case, vec=vname, tag=tag, form=form),
                               nv, float(np.linalg.norm(got)))


# ---------------------------------------------------------------------------
# part F : orbit2frame


FRAME_NAME = "C17Frame"


def _make_ref(sid, moving):
    from beyond.orbits import Orbit, StateVector

    y = dict(states())[sid]
    if moving:
        return Orbit(y, _G["epoch"], "cartesian", "EME2000", "Kepler")
    return StateVector(y, _G["epoch"], "cartesian", "EME2000")


def _register(ref, orient, moving):
    """Both public entry points: orbit2frame for a fixed state, Orbit.as_frame for a propagated one."""
    from beyond.frames.frames import orbit2frame

    if moving:
        return ref.as_frame(FRAME_NAME, orientation=orient)
    return orbit2frame(FRAME_NAME, ref, orient)


def _verify_frame(t, case, sid, orient, moving, ref, suffix="", dts=(0.0, 420.0), tol_r=1e-6):
    """Origin, axes (definition triad of the CURRENT orbit) and round trip of the frame currently registered as FRAME_NAME."""
    from datetime import timedelta
    from beyond.orbits import StateVector

    for dt in dts:
        date = _G["epoch"] + timedelta(seconds=dt)
        try:
            cur = ref.propagate(date) if moving else ref
            # the attached orbit as the library itself expresses it in the parent frame (form / frame changes are C01's / C02's subject)
            yc = A(cur.copy(form="cartesian", frame="EME2000"))
            if not np.all(np.isfinite(yc)):
                t.exclude("the Kepler propagator returns a non-finite state for this reference orbit (C01/C05's subject)")
                continue
            origin = StateVector(yc, date, "cartesian", "EME2000")
            o_in = A(origin.copy(frame=FRAME_NAME))
            probe_y = yc + np.array([130.0, -270.0, 55.0, 0.3, -0.2, 0.7])
            probe = StateVector(probe_y, date, "cartesian", "EME2000")
            p_in = probe.copy(frame=FRAME_NAME)
            back = A(p_in.copy(frame="EME2000"))
            t.trans(4)
        except LIBERR as e:
            t.fail(f"orbit2frame/{orient}/convert-raises-{type(e).__name__}{suffix}", "the attached frame converts to and from its parent", dict(case, dt=dt), "state", repr(e)[:200])
            continue
        # tol_r: 1e-6 m (+ 256 eps x distance of the reference frame's centre from the Earth when the chain passes through it)
        e0 = float(np.linalg.norm(o_in[:3]))
        e0v = float(np.linalg.norm(o_in[3:]))
        if not t.margin("F: orbit at the origin of its frame [m] / 1e-6", max(e0, e0v / 1e-3), tol_r):
            t.fail(f"orbit2frame/{orient}/origin{suffix}", "the frame places its orbit at the origin", dict(case, dt=dt), [0.0] * 6, o_in.tolist())
        if orient is None and cur.frame.name != "EME2000":
            # orientation None keeps the axes of the reference orbit's own frame
            want = A(probe.copy(frame=cur.frame))[:3] - A(cur.copy(form="cartesian"))[:3]
        else:
            want = triad(orient, yc) @ (probe_y[:3] - yc[:3])
        e1 = float(np.linalg.norm(A(p_in)[:3] - want))
        if not t.margin("F: probe position in the frame vs definition [m] / 1e-6", e1, tol_r):
            t.fail(f"orbit2frame/{orient}/axes{suffix}", "positions in the attached frame are expressed on the axes of its definition (triad of the attached orbit)", dict(case, dt=dt),
                   want.tolist(), A(p_in)[:3].tolist(), f"{sid} {orient} moving={moving} dt={dt}{suffix}: {e1:.3e} m")
        e2 = float(np.linalg.norm(back[:3] - probe_y[:3]))
        e2v = float(np.linalg.norm(back[3:] - probe_y[3:]))
        if not t.margin("F: round trip parent -> frame -> parent [m] / 1e-6", max(e2, e2v / 1e-3), tol_r):
            t.fail(f"orbit2frame/{orient}/round-trip{suffix}", "conversion to and from the parent frame is lossless", dict(case, dt=dt), probe_y.tolist(), back.tolist(),
                   f"{sid} {orient} moving={moving} dt={dt}{suffix}: |dr|={e2:.3e} |dv|={e2v:.3e}")


def check_frame(case, t):
    from mc import world

    sid, orient, moving = case["state"], case["orient"], case["moving"]
    world.restore(_G["snap"])
    try:
        key = ("F", sid, orient, moving)
        t.ev(key)
        t.state(key)
        ref = _make_ref(sid, moving)
        try:
            _register(ref, orient, moving)
            t.trans()
        except LIBERR as e:
            t.fail(f"orbit2frame/{orient}/raises-{type(e).__name__}", "a frame can be attached to any orbit", case, "frame", repr(e)[:200])
            return
        _verify_frame(t, case, sid, orient, moving, ref)
    finally:
        world.restore(_G["snap"])


# references given in other forms / frames: the frame is attached to "an orbit", whatever its representation
FR_STATES = ["r0g0a0", "r2g1a2", "r6g0a1", "r5g1a0", "r3g0a2", "r7g1a1"]
FR_FORMS = ["cartesian", "keplerian", "spherical", "keplerian_mean"]
FR_FRAMES = ["EME2000", "TEME"]
# frames whose CENTRE is not the parent's: another orbit's frame (a chaser given relative to its target), a ground station, the Moon
FR_OFFCENTRE = ["host-orbit", "station", "Moon"]


def _offcentre_frame(kind):
    """Create (after a registry reset) a frame whose centre is not the Earth's; returns (frame name, distance of its centre from the Earth)."""
    from beyond.orbits import Orbit

    if kind == "host-orbit":
        from beyond.frames.frames import orbit2frame
        from mc.ref import twobody

        host = Orbit(twobody.kep_to_cart(7.3e6, 0.01, 0.8, 0.4, 0.3, 0.2, _G["mu"]), _G["epoch"], "cartesian", "EME2000", "Kepler")
        orbit2frame("C17Host", host, None)
        return "C17Host", 7.3e6
    if kind == "station":
        from beyond.frames import create_station

        create_station("C17Station", (43.4, 1.5, 180.0))
        return "C17Station", 6.4e6
    if kind == "Moon":
        from beyond.env import solarsystem

        solarsystem.get_frame("Moon")
        return "Moon", 4.1e8
    raise ValueError(kind)


def check_frame_reference(case, t):
    from mc import world
    from beyond.orbits import Orbit, StateVector

    sid, orient, moving, form, frame = case["state"], case["orient"], case["moving"], case["form"], case["frame"]
    y = dict(states())[sid]
    world.restore(_G["snap"])
    try:
        key = ("FR", sid, orient, moving, form, frame)
        base = StateVector(y, _G["epoch"], "cartesian", "EME2000")
        dist = 0.0
        if frame in FR_OFFCENTRE:
            try:
                frame, dist = _offcentre_frame(frame)
                t.trans()
            except LIBERR as e:
                t.fail(f"orbit2frame/fixture-frame-raises-{type(e).__name__}", "the frame the reference orbit is given in can be created", case, "frame", repr(e)[:200])
                return
        try:
            given = base.copy(frame=frame, form=form)
            back = A(given.copy(form="cartesian", frame="EME2000"))
        except LIBERR:
            t.exclude("reference state not expressible in this form / frame (C01 / C02's subject)")
            return
        if not np.all(np.isfinite(A(given))) or not np.all(np.isfinite(back)) or float(np.linalg.norm(back - y)) > 1e-7 * float(np.linalg.norm(y)):
            t.exclude("this form of the reference state is singular / does not round-trip (element conversions are C01's subject)")
            return
        t.ev(key)
        t.state(key)
        if moving:
            ref = Orbit(A(given), _G["epoch"], form, frame, "Kepler")
        else:
            ref = given
        if form != "cartesian" and not moving:
            suffix = "/statevector-reference-not-cartesian"
        elif form != "cartesian":
            suffix = "/orbit-reference-not-cartesian"
        elif dist:
            suffix = "/reference-in-frame-with-another-centre"
        elif frame != "EME2000":
            suffix = "/reference-in-other-frame"
        else:
            suffix = ""
        try:
            _register(ref, orient, moving)
            t.trans()
        except LIBERR as e:
            t.fail(f"orbit2frame/{orient}/raises-{type(e).__name__}{suffix}", "a frame can be attached to any orbit", case, "frame", repr(e)[:200])
            return
        # a fixed state given in a frame that moves against the parent only designates a point at its own date
        dts = (0.0, 420.0) if (moving or frame == "EME2000") else (0.0,)
        _verify_frame(t, case, sid, orient, moving, ref, suffix, dts, tol_r=1e-6 + 256 * EPS * dist)
        t.outcome(("FR", form, frame, moving))
    finally:
        world.restore(_G["snap"])


# registration histories under ONE frame name: (state, orientation, moving) re-registered with / without a registry reset in between
FH_STATES = ["r0g0a0", "r2g1a2", "r6g0a1", "r7g2a0"]


def fh_alphabet():
    return [(s, o, (i + j) % 2 == 1) for i, s in enumerate(FH_STATES) for j, o in enumerate(TAGS)]


def check_frame_history(case, t):
    """case["history"] = [[state, orient, moving, restore_before], ...]: the library explicitly supports re-creating a frame under a
    name already in use ('Overriding' warning); after EVERY registration the frame must be the one of the orbit just attached."""
    import logging
    from mc import world

    hist = case["history"]
    world.restore(_G["snap"])
    logging.getLogger("beyond.frames.frames").setLevel(logging.ERROR)
    try:
        key = ("FH", tuple(tuple(h) for h in hist))
        t.ev(key)
        t.state(key)
        for k, (sid, orient, moving, restore) in enumerate(hist):
            if restore:
                world.restore(_G["snap"])
            ref = _make_ref(sid, moving)
            suffix = "" if k == 0 else ("/re-registered-name" + ("-after-reset" if restore else ""))
            try:
                _register(ref, orient, moving)
                t.trans()
            except LIBERR as e:
                t.fail(f"orbit2frame/{orient}/raises-{type(e).__name__}{suffix}", "a frame can be re-created under a name already in use", case, "frame", repr(e)[:200])
                return
            _verify_frame(t, dict(case, step=k), sid, orient, moving, ref, suffix)
        t.outcome(("FH", len(hist)))
    finally:
        world.restore(_G["snap"])


# ---------------------------------------------------------------------------
# part K : dkep2dv / dkep2aol

KORBITS = {  # a, e, i, Omega, omega
    "leo": (7.0e6, 1e-3, math.radians(51.6), 1.0, 0.7),
    "ecc": (1.0e7, 0.3, math.radians(63.4), 2.0, 1.2),
    "geo": (4.2164e7, 5e-4, math.radians(5.0), 0.3, 2.0),
    "retro": (7.5e6, 0.05, math.radians(120.0), 4.0, 5.0),
    # thorough tier only
    "polar": (7.2e6, 0.01, math.radians(90.0), 0.5, 1.0),
    "heo": (2.0e7, 0.6, math.radians(40.0), 1.0, 3.0),
}
KQUICK = ["leo", "ecc", "geo", "retro"]
DA = [0.0, 1.0, 10.0, 1e3, 1e5]
DANG = [0.0, 1e-6, -1e-6, 1e-3, -1e-3, 0.1, -0.1]
NUS = [0.0, 1.0, 2.5, math.pi, 4.5]


def check_dkep(case, t):
    from beyond.orbits import Orbit
    from beyond.orbits.man import dkep2dv, dkep2aol, KeplerianImpulsiveMan
    from mc.ref import twobody

    oname, da, di, dO = case["orbit"], case["da"], case["di"], case["dO"]
    a, e, inc, Om, w = KORBITS[oname]
    mu = _G["mu"]
    dangle = math.sqrt(di * di + (dO * math.sin(inc)) ** 2)
    if da == 0 and dangle == 0:
        icls = "zero-increments"
    elif dangle == 0:
        icls = "pure-da"
    elif da == 0:
        icls = "pure-plane-change"
    else:
        icls = "combined"
    if abs(di) >= 0.5 * min(inc, math.pi - inc) or dangle >= 0.5 * math.sin(inc):
        t.exclude("plane increment not small against the inclination itself (no first-order regime: the node line flips)")
        return
    if dangle:
        # position: the argument of latitude returned by the library's dkep2aol (checked against its definition)
        probe = Orbit(twobody.kep_to_cart(a, e, inc, Om, w, 0.3, mu), _G["epoch"], "cartesian", "EME2000", "Kepler")
        try:
            aol = float(dkep2aol(probe, di, dO))
            t.trans()
        except LIBERR as ex:
            t.fail(f"dkep2aol/raises-{type(ex).__name__}", "dkep2aol returns an argument of latitude", case, "angle", repr(ex)[:200])
            return
        want = math.atan2(dO * math.sin(inc), di)
        if not t.margin("K: dkep2aol vs atan2(dOmega sin i, di) / 1e-9", abs((aol - want + math.pi) % (2 * math.pi) - math.pi), 1e-9):
            t.fail("dkep2aol/value", "ideal argument of latitude = atan2(dOmega sin i, di)", case, want, aol)
            return
        nus = [aol - w]
    else:
        nus = NUS
    for nu in nus:
        key = ("K", oname, da, di, dO, round(nu, 6))
        t.ev(key if icls != "zero-increments" else None)
        t.state(key)
        c = dict(case, nu=nu)
        y = twobody.kep_to_cart(a, e, inc, Om, w, nu, mu)
        orb = Orbit(y, _G["epoch"], "cartesian", "EME2000", "Kepler")
        try:
            dv = A(dkep2dv(orb, da=da, di=di, dOmega=dO))
            t.trans()
        except LIBERR as ex:
            t.fail(f"dkep2dv/{icls}/raises-{type(ex).__name__}", "dkep2dv returns a delta-v", c, "vector", repr(ex)[:200])
            continue
        if not np.all(np.isfinite(dv)):
            t.outcome(("K", icls, "nan"))
            t.fail(f"dkep2dv/{icls}/nan", "the delta-v is finite for every size of increment", c, "finite", [repr(float(x)) for x in dv],
                   f"{oname} nu={nu:.3f} da={da} di={di} dOmega={dO}: dkep2dv = {dv}")
            continue
        # the library's own packaging of the same numbers
        try:
            dvi = A(KeplerianImpulsiveMan(_G["epoch"], da=da, di=di, dOmega=dO).dv(orb))
            t.trans()
            want_i = triad("TNW", y).T @ dv
            if not t.margin("K: KeplerianImpulsiveMan.dv vs TNW^T dkep2dv / 1e-12", float(np.linalg.norm(dvi - want_i)), 1e-12 * max(1.0, float(np.linalg.norm(dv)))):
                t.fail("man/KeplerianImpulsiveMan/axes", "KeplerianImpulsiveMan.dv is dkep2dv expressed in the inertial frame", c, want_i.tolist(), dvi.tolist())
        except LIBERR as ex:
            t.fail(f"man/KeplerianImpulsiveMan/raises-{type(ex).__name__}", "KeplerianImpulsiveMan.dv returns a vector", c, "vector", repr(ex)[:200])
        if icls == "zero-increments":
            if float(np.linalg.norm(dv)) != 0.0:
                t.fail("dkep2dv/zero-increments/non-zero", "zero increments need no delta-v", c, [0, 0, 0], dv.tolist())
            continue
        y2 = y.copy()
        y2[3:] += triad("TNW", y).T @ dv
        k1 = twobody.cart_to_kep(y, mu)
        k2 = twobody.cart_to_kep(y2, mu)
        eps = max(abs(da) / a, dangle)
        r_da = (k2["a"] - k1["a"] - da) / a
        r_di = k2["i"] - k1["i"] - di
        r_dO = ((k2["Om"] - k1["Om"] + math.pi) % (2 * math.pi) - math.pi - dO) * math.sin(inc)
        r_pl = math.hypot(r_di, r_dO)
        # second-order terms of the spherical geometry scale with 1/tan(i) (d_i ~ dOmega^2 sin i cos i / 2): constant 5 max(1, 1/tan i)
        K2 = 5 * max(1.0, 1 / abs(math.tan(inc)))
        tol = (K2 * eps + 1e-6) * eps
        fpa = math.atan2(e * math.sin(nu), 1 + e * math.cos(nu))
        t.outcome(("K", icls, "ok" if max(abs(r_da), r_pl) <= tol else "bad"))
        info = (f"{oname} nu={nu:.3f} fpa={math.degrees(fpa):.1f}deg da={da} di={di} dOmega={dO}: dv={dv.tolist()} realised "
                f"da={k2['a']-k1['a']:.6g} di={k2['i']-k1['i']:.6g} dOmega={(k2['Om']-k1['Om']+math.pi)%(2*math.pi)-math.pi:.6g}")
        if not t.margin("K: realised da error / first-order tolerance", abs(r_da), tol):
            t.fail(f"dkep2dv/{icls}/da-not-realised", "the delta-v realises the requested semi-major axis increment to first order", c,
                   da, k2["a"] - k1["a"], info)
        if not t.margin("K: realised plane (di, dOmega sin i) error / first-order tolerance", r_pl, tol):
            if icls == "pure-da":
                sym = "out-of-plane"
            elif abs(1 / math.cos(fpa) - 1) > tol / eps:
                sym = "plane-change-not-realised/nonzero-fpa"  # first-order bias where the velocity has a radial component
            elif dangle <= 1e-5:
                sym = "plane-change-not-realised/micro-radian"  # round-off of the triangle formula
            else:
                sym = "plane-change-not-realised"
            t.fail(f"dkep2dv/{icls}/{sym}" if icls == "pure-da" else f"dkep2dv/{sym}",
                   "the delta-v realises the requested inclination / node increments to first order (none requested: none produced)", c,
                   [di, dO], [k2["i"] - k1["i"], (k2["Om"] - k1["Om"] + math.pi) % (2 * math.pi) - math.pi], info)


# ---------------------------------------------------------------------------
# part N : KeplerNum with maneuvers vs the textbook scheme on the same grid

NSTEPS = 24
MAN_ALPHABET = {  # name -> (date as (node k, offset kind), vector, tag)
    "gT": ((5, "grid"), (1.5, 0.0, 0.0), "TNW"),
    "mQ": ((9, "mid"), (0.0, 2.0, -0.5), "QSW"),
    "uI": ((13, "us"), (0.3, -0.4, 1.1), None),
    "mT": ((9, "mid"), (-0.7, 0.2, 0.9), "TNW"),   # same step as mQ
    "gQ": ((14, "grid"), (0.0, 0.0, -1.2), "QSW"),  # step following uI
    "uT": ((20, "us"), (0.9, 0.9, 0.0), "TNW"),
}
NORBIT = (7.2e6, 0.02, 0.9, 0.3, 0.2, 0.5)


def man_date_us(spec, h_us):
    k, kind = spec
    return k * h_us + {"grid": 0, "mid": h_us // 2, "us": 1}[kind]


def make_num(method, h_us, mans, bodies=True, y0=None):
    from datetime import timedelta
    from beyond.orbits import Orbit
    from beyond.propagators.keplernum import KeplerNum
    from mc.ref import twobody

    if y0 is None:
        y0 = twobody.kep_to_cart(*NORBIT, _G["mu"])
    prop = KeplerNum(timedelta(microseconds=h_us), _G["earth"] if bodies else [], method=method)
    orb = Orbit(y0, _G["epoch"], "cartesian", "EME2000", prop)
    orb.maneuvers = mans
    return orb, A(y0)


def check_impulses(case, t):
    from beyond.orbits.man import ImpulsiveMan
    from mc.ref import rk

    method, h, names = case["method"], case["h"], case["mans"]
    h_us = h * 1_000_000
    mu = _G["mu"]
    specs = case.get("specs") or {n: MAN_ALPHABET[n] for n in names}
    mans = []
    plan = []  # (date_us, vec, tag)
    for n in names:
        (dspec, vec, tag) = specs[n] if not isinstance(specs[n], list) else (tuple(specs[n][0]), tuple(specs[n][1]), specs[n][2])
        u = man_date_us(tuple(dspec), h_us)
        mans.append(ImpulsiveMan(at(u), list(vec), frame=tag))
        plan.append((u, A(vec), tag))
    key = ("N", method, h, tuple(names), case.get("variant", ""))
    t.ev(key)
    t.state(key)
    orb, y0 = make_num(method, h_us, mans)
    fixed = method in ("euler", "rk4")
    try:
        kw = {} if fixed else {"real_steps": True}
        nodes = [(us_of(o.date), A(o)) for o in orb.iter(stop=at(NSTEPS * h_us), **kw)]
        t.trans(len(nodes))
    except LIBERR as e:
        t.fail(f"KeplerNum/{method}/maneuvers/raises-{type(e).__name__}", "propagation through maneuvers returns states", case, "states", repr(e)[:200])
        return
    tab = rk.TABLEAUX[method]
    f = rk.two_body_rhs(mu)
    # ---- per step accounting: what velocity increment did each step receive beyond the textbook step? -------------
    applied = {i: [] for i in range(len(plan))}
    clause = "an impulsive maneuver takes effect exactly once, no later than one integration step after its date, along its axes"
    tolv = 1e-9
    for k in range(len(nodes) - 1):
        (u0, ya), (u1, yb) = nodes[k], nodes[k + 1]
        dt = (u1 - u0) * 1e-6
        if not (0 < dt <= h):
            t.fail(f"KeplerNum/{method}/maneuvers/step-size", "steps are positive and bounded by the propagator's step", dict(case, node=k), h, dt)
            return
        yr, _ = rk.rk_step(tab, f, 0.0, ya, dt)
        pos_dev = float(np.linalg.norm(yb[:3] - yr[:3]))
        if not t.margin("N: position of a node vs one textbook step (an impulse must not move the position) / 1e-6 m", pos_dev, 1e-6):
            t.fail(f"KeplerNum/{method}/maneuvers/position-jump", "an impulse changes the velocity only", dict(case, node=k + 1), yr[:3].tolist(), yb[:3].tolist())
            return
        extra = yb[3:] - yr[3:]
        # which maneuvers are due at this node?  t_k < t_m <= t_{k+1}
        due = [i for i, (u, _, _) in enumerate(plan) if u0 < u <= u1]
        # 1 us after a node: the two dates may be indistinguishable for the library's MJD doubles
        amb = [i for i, (u, _, _) in enumerate(plan) if u - u1 == 1 or (u - u0 == 1 and i not in due)]
        yv = yr.copy()
        exp = np.zeros(3)
        for i in due:
            d = triad(plan[i][2], yv).T @ plan[i][1]
            yv[3:] += d
            exp += d
        dev = float(np.linalg.norm(extra - exp))
        ok = dev <= tolv
        used = list(due)
        if not ok and amb:
            # accept the MJD-rounding alternative: an ambiguous maneuver applied at the neighbouring node instead
            for sub in ([i for i in due if i not in amb] + [j for j in amb if j not in due], ):
                yv = yr.copy()
                exp2 = np.zeros(3)
                for i in sorted(sub):
                    d = triad(plan[i][2], yv).T @ plan[i][1]
                    yv[3:] += d
                    exp2 += d
                if float(np.linalg.norm(extra - exp2)) <= tolv:
                    ok, dev, used = True, float(np.linalg.norm(extra - exp2)), sorted(sub)
                    t.outcome(("N", "mjd-ambiguity-used"))
        t.margin("N: velocity increment received at a node vs due impulses / 1e-9 m/s", dev if ok else 0.0, tolv)
        for i in used:
            applied[i].append(k + 1)
        if not ok:
            t.fail(f"KeplerNum/{method}/maneuvers/wrong-impulse-at-node", clause, dict(case, node=k + 1), exp.tolist(), extra.tolist(),
                   f"{method} h={h}s maneuvers {names}: node {k+1} (t={u1*1e-6}s) received dv={extra.tolist()} beyond the textbook step, due={exp.tolist()} (maneuvers {due})")
            return
    for i, ks in applied.items():
        if len(ks) != 1:
            t.fail(f"KeplerNum/{method}/maneuvers/not-exactly-once", clause, case, 1, len(ks), f"maneuver {names[i]} applied at nodes {ks}")
    t.outcome(("N", method, len(names), "ok"))
    # ---- fixed step: the whole trajectory equals the textbook scheme with impulses at the due nodes -----------------
    if fixed:
        def post(tp, tn, y):
            u0, u1 = round(tp * 1e6), round(tn * 1e6)
            y = y.copy()
            for i, (u, vec, tag) in enumerate(plan):
                if applied[i] and applied[i][0] == round(u1 / h_us):
                    y[3:] += triad(tag, y).T @ vec
            return y

        ref = rk.march(tab, f, 0.0, y0, float(h), NSTEPS, post_step=post)
        worst = max(float(np.linalg.norm(a[1][:3] - b[1][:3])) for a, b in zip(nodes, ref))
        if len(nodes) != len(ref) or not t.margin("N: trajectory with maneuvers vs textbook scheme + impulses / 1e-5 m", worst, 1e-5):
            t.fail(f"KeplerNum/{method}/maneuvers/trajectory", "KeplerNum with maneuvers equals the textbook scheme with impulses at the due nodes", case,
                   len(ref), dict(nodes=len(nodes), worst=worst))


# ---------------------------------------------------------------------------
# part C : continuous burns

BURNS = {  # (start node, start offset kind), (stop node, stop kind)
    "grid-grid": ((4, "grid"), (9, "grid")),
    "mid-mid": ((4, "mid"), (9, "mid")),
    "grid-mid": ((6, "grid"), (7, "mid")),
    "us-grid": ((5, "us"), (11, "grid")),
    "inside-one-step": ((8, "q"), (8, "qq")),
}


def burn_us(spec, h_us):
    k, kind = spec
    return k * h_us + {"grid": 0, "mid": h_us // 2, "us": 1, "q": h_us // 4 + 3, "qq": (3 * h_us) // 4 - 7}[kind]


def check_burn(case, t):
    from datetime import timedelta
    from beyond.orbits.man import ContinuousMan
    from mc.ref import rk

    method, h, bname, tag, bodies = case["method"], case["h"], case["burn"], case["tag"], case["bodies"]
    h_us = h * 1_000_000
    mu = _G["mu"] if bodies else 0.0
    s_us, e_us = burn_us(BURNS[bname][0], h_us), burn_us(BURNS[bname][1], h_us)
    dv = A((1.2, -0.8, 0.5)) if tag is None or bodies else A((1.6, 0.0, 0.0))
    dur = (e_us - s_us) * 1e-6
    acc = dv / dur
    man = ContinuousMan(at(s_us), timedelta(microseconds=e_us - s_us), dv=list(dv), frame=tag)
    key = ("C", method, h, bname, tag, bodies)
    t.ev(key)
    t.state(key)
    orb, y0 = make_num(method, h_us, [man], bodies=bodies)
    fixed = method in ("euler", "rk4")
    try:
        kw = {} if fixed else {"real_steps": True}
        nodes = [(us_of(o.date), A(o)) for o in orb.iter(stop=at(NSTEPS * h_us), **kw)]
        t.trans(len(nodes))
    except LIBERR as e:
        t.fail(f"KeplerNum/{method}/continuous/raises-{type(e).__name__}", "propagation through a continuous burn returns states", case, "states", repr(e)[:200])
        return
    tab = rk.TABLEAUX[method]

    # ---- every step equals one textbook step with the thrust switched on the stage dates ----------------------------
    bad = None
    for k in range(len(nodes) - 1):
        (u0, ya), (u1, yb) = nodes[k], nodes[k + 1]
        dt = (u1 - u0) * 1e-6
        if not (0 < dt <= h):
            t.fail(f"KeplerNum/{method}/continuous/step-size", "steps are positive and bounded by the propagator's step", dict(case, node=k), h, dt)
            return
        # stage dates of the library are rounded to the microsecond (timedelta arithmetic): do the same
        def extra(ts, y, _u0=u0):
            u = _u0 + int(round(ts * 1e6))
            if s_us <= u < e_us:
                return triad(tag, y).T @ acc
            return np.zeros(3)

        f = rk.two_body_rhs(mu, extra=extra)
        yr, _ = rk.rk_step(tab, f, 0.0, ya, dt)
        d = max(float(np.linalg.norm(yb[:3] - yr[:3])), float(np.linalg.norm(yb[3:] - yr[3:])) * 1e3)
        if not t.margin("C: step through a burn vs one textbook step with stage-dated thrust / 1e-6", d, 1e-6) and bad is None:
            bad = (k + 1, d, yr, yb)
    if bad is not None:
        k, d, yr, yb = bad
        t.fail(f"KeplerNum/{method}/continuous/step-vs-textbook-scheme", "a continuous burn adds its acceleration while start <= t < stop (stage dates)",
               dict(case, node=k), yr.tolist(), yb.tolist(), f"{method} h={h}s burn {bname} tag={tag} bodies={bodies}: node {k} deviates by {d:.3e}")
    # ---- delivered delta-v (free motion only: gravity-free velocity change is the integral of the thrust) ----------
    # (QSW axes rotate along a straight line: the vector integral is not dv along the initial axes; the step check above covers it)
    if not bodies and tag != "QSW":
        got = nodes[-1][1][3:] - y0[3:]
        want = triad(tag, y0).T @ dv
        err = float(np.linalg.norm(got - want))
        on_grid = s_us % h_us == 0 and e_us % h_us == 0 and fixed
        tol = 1e-12 * NSTEPS if on_grid else float(np.linalg.norm(acc)) * h + 1e-12
        lab = "C: delivered delta-v, edges on the grid / (N 1e-12)" if on_grid else "C: delivered delta-v, edges off the grid / (|a| h)"
        t.outcome(("C", "on" if on_grid else "off", method))
        if not t.margin(lab, err, tol):
            t.fail(f"KeplerNum/{method}/continuous/delivered-dv/{'on' if on_grid else 'off'}-grid", "a continuous burn delivers its full delta-v over its duration", case,
                   want.tolist(), got.tolist(), f"{method} h={h}s burn {bname} tag={tag}: |error|={err:.3e} m/s (tol {tol:.3e})")


# ---------------------------------------------------------------------------
# part MH : one maneuver OBJECT used more than once (other orbit, other order); oracle = a brand-new object with the same arguments

MH_ORBITS = {"A": (7.2e6, 0.02, 0.9, 0.3, 0.2, 0.5), "B": (4.2164e7, 0.1, 0.3, 1.0, 2.0, 4.0)}
MH_CLASSES = ["ImpulsiveMan", "KeplerianImpulsiveMan", "ContinuousMan", "KeplerianContinuousMan"]


def _new_man(cls, h_us):
    from datetime import timedelta
    from beyond.orbits import man as M

    if cls == "ImpulsiveMan":
        return M.ImpulsiveMan(at(4 * h_us + h_us // 2), [0.8, -0.3, 0.5], frame="TNW")
    if cls == "KeplerianImpulsiveMan":
        return M.KeplerianImpulsiveMan(at(4 * h_us + h_us // 2), da=50e3, di=1e-3, dOmega=-2e-3)
    if cls == "ContinuousMan":
        return M.ContinuousMan(at(3 * h_us), timedelta(microseconds=4 * h_us), dv=[0.6, 0.2, -0.4], frame="QSW")
    if cls == "KeplerianContinuousMan":
        return M.KeplerianContinuousMan(at(3 * h_us), timedelta(microseconds=4 * h_us), da=50e3, di=1e-3)
    raise ValueError(cls)


def _public(man):
    out = {}
    for k, v in sorted(vars(man).items()):
        if k.startswith("_"):
            continue
        if hasattr(v, "_d") and hasattr(v, "_s"):
            out[k] = ("date", v._d, v._s)
        elif isinstance(v, np.ndarray):
            out[k] = np.asarray(v, dtype=float).tobytes().hex()
        else:
            out[k] = repr(v)
    return out


def _use(man, oname, kind, h_us):
    """One use of a maneuver object on orbit `oname`: a KeplerNum propagation through it, or a direct dv()/accel() call."""
    from mc.ref import twobody

    y0 = twobody.kep_to_cart(*MH_ORBITS[oname], _G["mu"])
    orb, _ = make_num("rk4", h_us, [man], y0=y0)
    if kind == "propagation":
        return A(list(orb.iter(stop=at(12 * h_us)))[-1])
    o = orb.copy()
    o.date = at(4 * h_us + h_us // 2)
    return A(man.dv(o)) if hasattr(man, "dv") else A(man.accel(o))


def check_man_reuse(case, t):
    cls, order, kind = case["cls"], case["order"], case["kind"]
    h_us = 60_000_000
    key = ("MH", cls, tuple(order), kind)
    t.ev(key)
    t.state(key)
    shared = _new_man(cls, h_us)
    pub0 = _public(shared)
    for k, oname in enumerate(order):
        try:
            got = _use(shared, oname, kind, h_us)
            want = _use(_new_man(cls, h_us), oname, kind, h_us)
            t.trans(2)
        except LIBERR as e:
            t.fail(f"man/{cls}/reused-object/raises-{type(e).__name__}", "a maneuver object can be used in more than one propagation", case, "result", repr(e)[:200])
            return
        t.outcome(("MH", cls, kind, k))
        if not np.array_equal(got, want):
            d = float(np.linalg.norm(got[:3] - want[:3]))
            t.fail(f"man/{cls}/reused-object/differs-from-fresh-object",
                   "the effect of a maneuver is a function of its definition and of the orbit it is applied to, not of earlier uses of the object", case,
                   [float(x) for x in want], [float(x) for x in got],
                   f"{cls} used on orbits {order[:k+1]} ({kind}): use {k+1} differs from a fresh maneuver object by {d:.4e} (first three components)")
            return
        t.margin("MH: re-used maneuver object vs fresh object (bit-identical expected) / 1e-12", float(np.max(np.abs(got - want))), 1e-12)
        pub = _public(shared)
        if pub != pub0:
            changed = sorted(k2 for k2 in set(pub) | set(pub0) if pub.get(k2) != pub0.get(k2))
            t.fail(f"man/{cls}/public-attributes-changed-by-use", "using a maneuver does not change its definition", case, {k2: pub0.get(k2) for k2 in changed},
                   {k2: pub.get(k2) for k2 in changed}, f"{cls} after use {k+1} on {order[:k+1]}: {changed}")
            return


# ---------------------------------------------------------------------------
# part MA : how the vector argument of a maneuver is given (list, tuple, int / float ndarray) and what the caller does with it afterwards

MA_ARGS = ["ImpulsiveMan.dv", "ContinuousMan.dv", "ContinuousMan.accel"]
MA_CONTAINERS = ["list", "tuple", "int-ndarray", "float-ndarray"]
MA_VALUES = (10.0, 0.0, -4.0)
MA_AFTER = (0.0, 3.0, 4.0)


def _ma_container(kind, values):
    if kind == "list":
        return [float(v) for v in values]
    if kind == "tuple":
        return tuple(float(v) for v in values)
    if kind == "int-ndarray":
        return np.array([int(v) for v in values])
    if kind == "float-ndarray":
        return np.array(values, dtype=float)
    if kind == "float32-ndarray":
        return np.array(values, dtype=np.float32)
    raise ValueError(kind)


def _ma_man(arg, vec, h_us):
    from datetime import timedelta
    from beyond.orbits import man as M

    if arg == "ImpulsiveMan.dv":
        return M.ImpulsiveMan(at(4 * h_us + h_us // 2), vec, frame="TNW")
    if arg == "ContinuousMan.dv":
        return M.ContinuousMan(at(3 * h_us), timedelta(microseconds=4 * h_us), dv=vec, frame="TNW")
    return M.ContinuousMan(at(3 * h_us), timedelta(microseconds=4 * h_us), accel=vec, frame="TNW")


def check_man_argument(case, t):
    arg, cont, kind, mutate = case["arg"], case["container"], case["kind"], case["mutate"]
    h_us = 60_000_000
    key = ("MA", arg, cont, kind, mutate)
    t.ev(key)
    t.state(key)
    clause = "a maneuver contributes exactly its STATED delta-v / acceleration: the value given at construction, whatever container it came in"
    try:
        want = _use(_ma_man(arg, [float(v) for v in MA_VALUES], h_us), "A", kind, h_us)  # oracle: plain list, used once
        buf = _ma_container(cont, MA_VALUES)
        man = _ma_man(arg, buf, h_us)
        if mutate:
            if isinstance(buf, list):
                buf[:] = list(MA_AFTER)
            elif isinstance(buf, np.ndarray):
                buf[:] = MA_AFTER
            else:
                t.exclude("a tuple cannot be modified by the caller")
                return
        before = np.array(buf, dtype=float)
        got = _use(man, "A", kind, h_us)
        t.trans(2)
    except LIBERR as e:
        t.fail(f"man/{arg}/argument-{cont}/raises-{type(e).__name__}", clause, case, "result", repr(e)[:200])
        return
    t.outcome(("MA", arg, cont, mutate))
    dev = float(np.max(np.abs(got - want)))
    if not t.margin("MA: maneuver built from another container / modified buffer vs built from a list (bit-identical expected) / 1e-12", dev, 1e-12):
        sym = "caller-buffer-aliased" if mutate else "container-changes-value"
        t.fail(f"man/{arg}/{sym}", clause, case, [float(x) for x in want], [float(x) for x in got],
               f"{arg} given as {cont}" + (" and the caller's buffer refilled afterwards" if mutate else "") + f" ({kind}): result differs by {dev:.4e}")
    if not np.array_equal(np.array(buf, dtype=float), before):
        t.fail(f"man/{arg}/caller-buffer-modified-by-use", "using a maneuver does not write into the caller's array", case, before.tolist(), np.array(buf, dtype=float).tolist())


# ---------------------------------------------------------------------------
# part CL : continuous burns of one day and longer (dv= form)

CL_DURATIONS = {"26h": 26 * 3600, "1d": 86400, "2d": 2 * 86400, "1d+1us": 86400 + 1e-6, "3h": 3 * 3600}


def check_long_burn(case, t):
    from datetime import timedelta
    from beyond.orbits import Orbit, StateVector
    from beyond.orbits.man import ContinuousMan
    from beyond.propagators.keplernum import KeplerNum

    dname, tag = case["duration"], case["tag"]
    T = CL_DURATIONS[dname]
    dur = timedelta(seconds=T)
    dv = A((1.2, -0.8, 0.5))
    y = dict(states())["r6g0a1"]
    key = ("CL", dname, tag)
    t.ev(key)
    t.state(key)
    clause = "a continuous maneuver given by its delta-v has the acceleration delta-v / duration along its axes, and delivers its full delta-v over its duration"
    try:
        man = ContinuousMan(_G["epoch"] + timedelta(hours=1), dur, dv=list(dv), frame=tag)
        sv = StateVector(y, _G["epoch"] + timedelta(hours=2), "cartesian", "EME2000")
        acc = A(man.accel(sv))
        t.trans()
    except LIBERR as e:
        t.fail(f"man/ContinuousMan.dv/long-duration/raises-{type(e).__name__}", clause, case, "acceleration", repr(e)[:200])
        return
    want = triad(tag, y).T @ dv / dur.total_seconds()
    err = float(np.linalg.norm(acc - want)) if np.all(np.isfinite(acc)) else float("inf")
    if not t.margin("CL: acceleration of a long burn vs dv / duration along the axes / (64 eps cond)", err, 64 * EPS * cond(y) * float(np.linalg.norm(want)) + 1e-300):
        t.fail("man/ContinuousMan.dv/long-duration/acceleration", clause, case, want.tolist(), [repr(float(x)) for x in acc],
               f"duration {dname} tag {tag}: |accel| x duration = {float(np.linalg.norm(acc)) * dur.total_seconds()!r} m/s for |dv| = {float(np.linalg.norm(dv))!r}")
        return
    if tag is not None:
        return
    # delivered delta-v in free motion (no body), one-hour steps, burn edges on the grid
    try:
        prop = KeplerNum(timedelta(hours=1), [], method="rk4")
        orb = Orbit(y, _G["epoch"], "cartesian", "EME2000", prop)
        orb.maneuvers = [ContinuousMan(_G["epoch"] + timedelta(hours=1), dur, dv=list(dv), frame=None)]
        n = int(math.ceil(T / 3600.0)) + 3
        last = A(list(orb.iter(stop=_G["epoch"] + timedelta(hours=n)))[-1])
        t.trans(n)
    except LIBERR as e:
        t.fail(f"man/ContinuousMan.dv/long-duration/propagation-raises-{type(e).__name__}", clause, case, "states", repr(e)[:200])
        return
    got = last[3:] - y[3:]
    on_grid = abs(T / 3600.0 - round(T / 3600.0)) < 1e-12
    tol = 1e-10 if on_grid else float(np.linalg.norm(dv)) / T * 3600.0 + 1e-10
    e2 = float(np.linalg.norm(got - dv)) if np.all(np.isfinite(got)) else float("inf")
    if not t.margin("CL: delivered delta-v of a long burn (free motion) / tol", e2, tol):
        t.fail("man/ContinuousMan.dv/long-duration/delivered-dv", clause, case, dv.tolist(), [repr(float(x)) for x in got], f"duration {dname}: delivered {got.tolist()}")


# ---------------------------------------------------------------------------
# units


def units(tier, seed):
    cfg = {"eop": "pass"}
    u = []
    sts = [s for s, _ in states()]
    for i in range(0, len(sts), 9):
        u.append((cfg, dict(part="MV", states=sts[i : i + 9])))
    fsts = sts if tier == "thorough" else sts[::3]
    fc = [dict(part="F", state=s, orient=o, moving=m) for s in fsts for o in TAGS for m in (False, True)]
    for i in range(0, len(fc), 24):
        u.append((cfg, dict(part="F", cases=fc[i : i + 24])))
    frs = FR_STATES if tier == "thorough" else FR_STATES[:3]
    rc = [dict(part="FR", state=st, orient=o, moving=m, form=f, frame=fr) for st in frs for o in TAGS for m in (False, True) for f in FR_FORMS for fr in FR_FRAMES]
    rc += [dict(part="FR", state=st, orient=o, moving=False, form="cartesian", frame=fr) for st in frs for o in TAGS for fr in FR_OFFCENTRE]
    for i in range(0, len(rc), 36):
        u.append((cfg, dict(part="FR", cases=rc[i : i + 36])))
    # registration histories under one name: all ordered pairs (quick) / triples (thorough) of the 12-element alphabet with a change at
    # every step, each later registration with and without a registry reset before it
    alpha = fh_alphabet()
    depth = 2 if tier == "quick" else 3
    hc = []
    for n in range(2, depth + 1):
        for combo in itertools.product(alpha, repeat=n):
            if any(combo[i][:2] == combo[i + 1][:2] for i in range(n - 1)):
                continue
            for flags in itertools.product((False, True), repeat=n - 1):
                hc.append(dict(part="FH", history=[list(c) + [False if i == 0 else flags[i - 1]] for i, c in enumerate(combo)]))
    per = max(1, len(hc) // (8 if tier == "quick" else 32))
    for i in range(0, len(hc), per):
        u.append((cfg, dict(part="FH", cases=hc[i : i + per])))
    for oname in (KQUICK if tier == "quick" else list(KORBITS)):
        kc = [dict(part="K", orbit=oname, da=da, di=di, dO=dO) for da in DA for di in DANG for dO in DANG]
        for i in range(0, len(kc), 62):
            u.append((cfg, dict(part="K", cases=kc[i : i + 62])))
    mh = [dict(part="MH", cls=c, order=list(o), kind=k) for c in MH_CLASSES for o in (("A", "B"), ("B", "A"), ("A", "A"), ("B", "B"), ("A", "B", "A"))
          for k in ("propagation", "direct-call")]
    u.append((cfg, dict(part="MH", cases=mh)))
    u.append((cfg, dict(part="CL", cases=[dict(part="CL", duration=d, tag=tg) for d in CL_DURATIONS for tg in TAGS])))
    ma = [dict(part="MA", arg=a, container=c, kind=k, mutate=m) for a in MA_ARGS for c in MA_CONTAINERS for k in ("propagation", "direct-call") for m in (False, True)]
    u.append((cfg, dict(part="MA", cases=ma)))
    methods = ["euler", "rk4", "dopri54"] + (["rkf54"] if tier == "thorough" else [])
    hs = [60] if tier == "quick" else [15, 60, 120]
    names = list(MAN_ALPHABET)
    for method in methods:
        for h in hs:
            nc = []
            # single impulses: every date kind x tag x vector
            for kind in ("grid", "mid", "us"):
                for tag in TAGS:
                    for vname in ("x", "y", "z", "obl"):
                        nm = f"{kind}-{tag}-{vname}"
                        nc.append(dict(part="N", method=method, h=h, mans=[nm], variant="single",
                                       specs={nm: [[7, kind], list(VECS[vname]), tag]}))
            for a, b in itertools.permutations(names, 2):
                nc.append(dict(part="N", method=method, h=h, mans=[a, b]))
            trip = list(itertools.permutations(names, 3))
            if tier == "quick":
                trip = trip[::6]
            for tr in trip:
                nc.append(dict(part="N", method=method, h=h, mans=list(tr)))
            for i in range(0, len(nc), 40):
                u.append((cfg, dict(part="N", cases=nc[i : i + 40])))
            cc = [dict(part="C", method=method, h=h, burn=b, tag=tag, bodies=bod) for b in BURNS for tag in TAGS for bod in (True, False)]
            u.append((cfg, dict(part="C", cases=cc)))
    return u


def run_unit(p, t):
    if p["part"] == "MV":
        for s in p["states"]:
            check_state(dict(part="MV", state=s), t)
    else:
        for c in p["cases"]:
            check_case(c, t)


def check_case(case, t):
    part = case["part"]
    if part == "MV":
        check_state(case, t)
    elif part == "F":
        check_frame(case, t)
    elif part == "FH":
        check_frame_history(case, t)
    elif part == "FR":
        check_frame_reference(case, t)
    elif part == "MH":
        check_man_reuse(case, t)
    elif part == "MA":
        check_man_argument(case, t)
    elif part == "CL":
        check_long_burn(case, t)
    elif part == "K":
        check_dkep(case, t)
    elif part == "N":
        check_impulses(case, t)
    elif part == "C":
        check_burn(case, t)
    else:
        raise ValueError(part)


def replay(case, t):
    check_case(case, t)
