"""C15 — state vectors have value semantics and change atomically.

Explicit-state search (E1) on the real StateVector / Orbit / Cov / Man objects: a state is the history of
copy / convert / assign / failing operations that reaches it, rebuilt by replaying the history on fresh objects.
Up to three objects are alive (the original and two derived ones).  The oracle is a reference model made of plain
immutable values (mc/ref/svmodel.py), updated by the obvious rule for each operation; after EVERY step EVERY live
object is compared with its model, so an alias shows up as a change in an object the operation did not name, and a
non-atomic failure as a change after an operation that raised.

A second, product-style part checks element access by index / name / alias / item for every form.
"""

import math
import pickle

import numpy as np

PROPERTY = "C15"
CLAIM = dict(
    text="Explicit-state model checking of the real StateVector/Orbit objects (with covariance, maneuvers and metadata "
    "attached, and bare): breadth-first search over all histories of 22 kinds of copy / convert / assign / read / failing "
    "operations on up to three live objects, deduplicated on the canonical state (all live objects' data plus the "
    "identity structure of their mutable parts). After every step every live object is compared with a reference "
    "model of immutable values; any sharing of mutable data between a copy and its source, any change of a receiver "
    "by a conversion that returns a new object, and any change left behind by a failing form/frame assignment is "
    "reported. A separate exhaustive product checks access by index, name, alias and item for all forms.",
    note="Trusts the frame code for the 6x6 maps between EME2000, MOD and ITRF at the fixed date (C02) and the reference "
    "form conversions of mc/ref (cross-checked by self-tests). as_orbit()/as_statevector() results are allowed to share "
    "the maneuver list and the covariance object with the receiver (the property only demands that values and metadata "
    "are preserved); the sharing is observed by identity at creation and modelled, and is reported as a note.",
    technique="explicit-state search over operation histories on the real objects vs. reference model of immutable values",
)
RULE = (
    "states = canonical (models of all live objects, identity structure of their mutable parts, hidden covariance "
    "fields) reached by replaying a history on fresh objects; every applicable operation of the alphabet is applied in "
    "every state in which the model and the objects agree; a case = (root, history, operation). non-trivial = the "
    "operation creates an object or changes the canonical state; distinct by (root, source state, operation). access "
    "part: every (form, frame, parameter, access path) combination"
)
BOUNDS = {
    "quick": "4 roots (StateVector/Orbit x full/bare); histories of length <= 3 with the full alphabet (22 operation kinds, "
    "3 forms x 3 frames, 3 live objects; the bare roots without the infos read); 2 full roots: length <= 4 with the core alphabet + centre-failing frame change + infos read; access product over all 10 forms x 2 frames; "
    "12 collision chains (4 epochs / 3 orbits / 3 root forms, both orders, one process each, full alphabet length <= 2); "
    "dynamic frames (user frame, station, orbit-attached frame, Hill): histories of length <= 4 of dumps / loads / "
    "re-register the frame name with another definition / write / metadata / copy / frame assignment",
    "thorough": "full alphabet (22 operation kinds, 3 forms x 3 frames, 3 live objects): histories of length <= 4 on the 2 full "
    "roots, length <= 4 without the infos read on the 2 bare roots, length <= 3 on the covariance-only / maneuvers-only "
    "roots; 2 full roots: length <= 6 (the property's bound) with the core alphabet (2 forms, 2 frames, 2 live objects; "
    "copy, copy(form), copy(frame), as_orbit/as_statevector, form=, frame=, frame=Hill, write by index, append / edit a "
    "maneuver, write a covariance cell) and length <= 5 with the core alphabet + centre-failing frame change + infos "
    "read; access product over all 10 forms x 2 frames; 12 collision chains (full alphabet length <= 2 and core-plus "
    "alphabet length <= 3 per root); dynamic-frame histories to length 5",
}
ASSUMPTIONS = [
    "forms of the history alphabet: cartesian, keplerian, spherical; frames: EME2000, ITRF, MOD (+ Hill and unknown "
    "names for the failing operations); one elliptic orbit (e = 0.123, i = 52 deg), one date",
    "writes use a value derived from the model (current value rounded to 3 significant digits)",
    "failing frame changes: unknown name, Hill (fails in the orientation lookup after the form was switched), a frame "
    "whose centre is linked to nothing and a frame attached to an ephemeris that does not cover the date (both fail in "
    "the translation part only, orientation ITRF resolvable), by assignment and through copy(frame=)",
    "derived quantities (`infos`: r, v, a, energy) are read by an explicit operation; they are compared with the model "
    "of THAT object, and must belong to it, for the target of a read and in every state for every object that carries a "
    "stored helper (a helper built on the spot cannot be stale; its formulas are property C01's business); the check's "
    "own reads leave no trace in the objects",
    "a state in which an object disagrees with its model is reported and not expanded",
    "the covariance expressed in the state's frame follows the state's frame change (clause of C14) — part of the model",
    "dynamic frames: the point a state denotes is A x + b with (A, b) the affine map of the ORIGINAL frame definition to "
    "EME2000, taken from Frame.transform on basis states while the registry is pristine; the definition a frame object "
    "carries is compared as plain data (class, name, station coordinates, reference orbit, local orientation, centre offset)",
    "conversions of station / orbit-attached frames are looked up by NAME in class-level tables of the library, so after "
    "a name is registered again every frame object of that name converts with the new definition; this registry "
    "behaviour is not a C15 matter: after a re-registration such frames are compared by definition only (user frames "
    "built on a built-in orientation keep the point check)",
]
NOT_COVERED = (
    "other forms/frames inside histories, more than three live objects, histories beyond the stated lengths, "
    "numpy views/slices of a state vector, propagation; what re-registering a station / orbit-frame name does to "
    "existing objects of that frame; whether as_orbit()/as_statevector() results may share "
    "containers with the receiver (allowed here, reported as a note; set STRICT_CONVERSION_ALIASING to flag it)"
)

STRICT_CONVERSION_ALIASING = False

EPOCHS = {
    "d0": (2012, 6, 15, 8, 30, 17, 250000),
    "d1": (2012, 6, 15, 14, 30, 17, 250000),
    "d2": (2012, 6, 18, 8, 30, 17, 250000),
    "d3": (2004, 2, 29, 21, 15, 40, 0),
}
DATE_ARGS = EPOCHS["d0"]
KEP0 = (7.2345e6, 0.12345, 0.91234, 1.12345, 2.34567, 0.71234)
ORBITS = {
    "o0": KEP0,
    "o1": (8.1234e6, 0.054321, 1.72345, 4.23456, 0.54321, 3.45678),
    "o2": (1.23456e7, 0.34567, 0.43210, 5.43210, 1.23456, 5.67890),
}
FORMS_FULL = ["cartesian", "keplerian", "spherical"]
FRAMES_FULL = ["EME2000", "ITRF", "MOD"]
FORMS_RED = ["cartesian", "keplerian"]
FRAMES_RED = ["EME2000", "ITRF"]
RESERVED = {"date", "form", "frame", "propagator", "cov", "maneuvers", "infos"}
BAD_CENTER = "C15NoLink"  # orientation ITRF, centre not linked to anything: the translation part fails
BAD_EPHEM = "C15Probe"  # attached to a one hour ephemeris of 2020 given in ITRF: its centre is undefined at the epochs used here
W_IDX = 0
W_NAME = {"cartesian": 1, "keplerian": 2, "spherical": 3}
W_ALIAS = {"cartesian": ("z_dot", 5), "keplerian": ("raan", 3), "spherical": ("theta", 1)}
COV0 = np.diag([123.4 ** 2, 234.5 ** 2, 345.6 ** 2, 0.1234 ** 2, 0.2345 ** 2, 0.3456 ** 2]) + np.outer(
    [10.0, -20.0, 30.0, 0.01, 0.02, -0.03], [10.0, -20.0, 30.0, 0.01, 0.02, -0.03]
)
ROOTS = {
    "sv_full": dict(cls="StateVector", form="cartesian", full=True),
    "orb_full": dict(cls="Orbit", form="keplerian", full=True),
    "sv_bare": dict(cls="StateVector", form="keplerian", full=False),
    "orb_bare": dict(cls="Orbit", form="cartesian", full=False),
    "sv_cov": dict(cls="StateVector", form="spherical", full="cov"),
    "orb_mans": dict(cls="Orbit", form="cartesian", full="mans"),
}

# Tolerances (dimensionless: positions / |r|, velocities / |v|, covariance entries / block sigmas).
# One form conversion is <= 2 edges of ~50 floating operations, conditioning <= 1/e = 8 for the split of the argument of
# latitude (recombined before comparison since the comparison is made in cartesian space): <= 1e-14 per conversion;
# a history has <= 6 operations of <= 3 conversions each, model and object each: <= 4e-13.  TOL = 2e-11 leaves x50.
TOL_COORD = 2e-11
TOL_COV = 2e-11
# r, |v|, a = -mu/2E, E from the object's current state: the library goes through its keplerian / spherical conversions
# (a few dozen operations, cancellation in E = v^2/2 - mu/r bounded by |v^2/2| / |E| <= 3 for these orbits)
TOL_INFOS = 1e-11

_W = {}


def setup(config):
    from beyond.config import config as bc

    bc.update({"eop": {"missing_policy": "pass"}})
    from beyond.constants import Earth

    _W["mu"] = float(Earth.mu)
    _W["fm"] = {}
    # re-registering a frame name is an operation of the dynamic-frame part; the library logs "Overriding" each time
    import logging

    logging.getLogger("beyond.frames.frames").setLevel(logging.ERROR)
    _make_bad_frames()


def _make_bad_frames():
    """Targets of frame changes that fail in the TRANSLATION part only (orientation resolvable, centre not)."""
    from beyond.frames import frames, orient, center
    from beyond.dates import Date, timedelta
    from beyond.orbits import Orbit

    if BAD_CENTER not in frames.dynamic:
        frames.Frame(BAD_CENTER, orient.ITRF, center.Center(BAD_CENTER), exists_warning=False)
    if BAD_EPHEM not in frames.dynamic:
        t0 = Date(2020, 5, 17, 12)
        ref = Orbit([7.0e6, 0.01, 0.9, 1.0, 0.5, 0.3], t0, "keplerian", "EME2000", "Kepler")
        eph = ref.ephem(start=t0, stop=timedelta(hours=1), step=timedelta(minutes=1))
        frames.orbit2frame(BAD_EPHEM, eph.copy(frame="ITRF"), exists_warning=False)


def _date():
    """Date of the root being explored (roots are explored one after the other; build_root selects the epoch)."""
    from beyond.dates import Date

    e = _W.get("epoch", "d0")
    if ("date", e) not in _W:
        _W[("date", e)] = Date(*EPOCHS[e])
    return _W[("date", e)]


def root_spec(root):
    """A root is the name of a base root or a dict(base=, epoch=, orbit=, form=) overriding one coordinate of it."""
    if isinstance(root, str):
        return dict(ROOTS[root], epoch="d0", orbit="o0")
    spec = dict(ROOTS[root["base"]], epoch=root.get("epoch", "d0"), orbit=root.get("orbit", "o0"))
    if root.get("form"):
        spec["form"] = root["form"]
    return spec


def root_id(root):
    return root if isinstance(root, str) else tuple(sorted(root.items()))


def fmap(a, b):
    """6x6 state map between two built-in frames at the root's date: data taken from the frame code (C02)."""
    k = (_W.get("epoch", "d0"), a, b)
    if k not in _W["fm"]:
        from beyond.frames.frames import get_frame

        _W["fm"][k] = np.array(get_frame(a).orientation.convert_to(_date(), get_frame(b).orientation), dtype=float)
    return _W["fm"][k]


def sm():
    from mc.ref import svmodel

    return svmodel


# ---------------------------------------------------------------------------
# maneuvers as values


def _mk_man(spec):
    from beyond.orbits.man import ImpulsiveMan, ContinuousMan
    from beyond.dates import timedelta

    kind, hours, dv, frame, comment, dur = spec
    date = _date() + timedelta(hours=hours)
    if kind == "ImpulsiveMan":
        return ImpulsiveMan(date, list(dv), frame=frame, comment=comment)
    return ContinuousMan(date, timedelta(seconds=dur), dv=list(dv), frame=frame, comment=comment)


MAN_SPECS = [
    ("ImpulsiveMan", 1, (1.5, -2.5, 3.5), "TNW", "first", None),
    ("ContinuousMan", 2, (0.5, 0.25, -0.125), None, "second", 600.0),
]
MAN_ADDED = ("ImpulsiveMan", 3, (0.1, 0.2, 0.3), "QSW", "added", None)


def date_key(d):
    return (int(d.d), round(float(d.s), 6), str(d.scale))


def man_model(spec):
    from beyond.dates import timedelta

    kind, hours, dv, frame, comment, dur = spec
    return (kind, date_key(_date() + timedelta(hours=hours)), tuple(float(v) for v in dv), frame, comment, dur)


def man_val(m):
    dur = getattr(m, "duration", None)
    return (
        type(m).__name__,
        date_key(m.date),
        tuple(float(v) for v in m._dv),
        m.frame,
        m.comment,
        None if dur is None else float(dur.total_seconds()),
    )


# ---------------------------------------------------------------------------
# world = real objects + their models


class World:
    def __init__(self):
        self.objs = []
        self.models = []
        self.origin = []  # (parent index | None, producer kind)
        self.share_mans = []  # group id per object: objects whose maneuver list may legitimately be one object
        self.share_cov = []
        self.probe = None


def build_root(rootname):
    from beyond.orbits import StateVector, Orbit
    from beyond.orbits.cov import Cov

    spec = root_spec(rootname)
    _W["epoch"] = spec["epoch"]
    mu = _W["mu"]
    S = sm()
    cart = S.to_cart(ORBITS[spec["orbit"]], "keplerian", mu)
    coords = S.from_cart(cart, spec["form"], mu)
    full = spec["full"]
    kw, meta, mans, cov = {}, [], (), None
    if full:
        kw["name"] = "SAT-1"
        kw["cospar_id"] = "2012-001A"
        meta = [("name", "SAT-1"), ("cospar_id", "2012-001A")]
    if full in (True, "mans"):
        kw["maneuvers"] = [_mk_man(s) for s in MAN_SPECS]
        mans = tuple(man_model(s) for s in MAN_SPECS)
    if spec["cls"] == "Orbit":
        x = Orbit(list(coords), _date(), spec["form"], "EME2000", "Kepler", **kw)
        prop = "Kepler"
    else:
        x = StateVector(list(coords), _date(), spec["form"], "EME2000", **kw)
        prop = None
    if full in (True, "cov"):
        x.cov = Cov(x, COV0, x.frame)
        cov = ("EME2000", tuple(float(v) for v in COV0.flatten()))
    w = World()
    w.objs.append(x)
    w.models.append(S.new(spec["cls"], spec["form"], "EME2000", coords, meta, mans, cov, prop))
    w.origin.append((None, "root"))
    w.share_mans.append(0)
    w.share_cov.append(0)
    return w


PRODUCERS = ("copy", "copy_form", "copy_frame", "copy_same", "pickle", "conv")
PROBES = ("form_call",)  # call, compare the result, edit the result in place: no live object may change
FAILING = ("bad_form", "bad_frame", "hill", "bad_center", "bad_ephem", "copy_bad_center")
IN_PLACE = ("form", "frame", "w_idx", "w_name", "w_alias", "meta", "man_append", "man_edit", "cov_cell")


LEVELS = {
    # name: (forms, frames, max live objects, operation kinds or None = all)
    "full": (FORMS_FULL, FRAMES_FULL, 3, None),
    # the full alphabet without the read of derived quantities (which doubles the hidden state of every object)
    "full-noinfos": (FORMS_FULL, FRAMES_FULL, 3, {"copy", "copy_form", "copy_frame", "copy_same", "pickle", "conv", "form",
                                                   "frame", "bad_form", "bad_frame", "hill", "bad_center", "bad_ephem",
                                                   "copy_bad_center", "form_call", "w_idx", "w_name", "w_alias", "meta", "man_append",
                                                   "man_edit", "cov_cell"}),
    "reduced": (FORMS_RED, FRAMES_RED, 2, {"copy", "copy_form", "copy_frame", "pickle", "conv", "form", "frame", "bad_form",
                                            "bad_frame", "hill", "bad_center", "bad_ephem", "copy_bad_center", "read_infos", "form_call", "w_idx", "w_name", "w_alias", "meta", "man_append",
                                            "man_edit", "cov_cell"}),
    # covariance taken out of the state's frame (QSW), state moved, then copies / pickles: the FUTURE of the covariance
    "covlocal": (FORMS_RED, FRAMES_FULL, 2, {"cov_qsw", "frame", "form", "copy", "copy_frame", "pickle", "conv", "w_idx"}),
    "core": (FORMS_RED, FRAMES_RED, 2, {"copy", "copy_form", "copy_frame", "conv", "form", "frame", "hill", "w_idx",
                                         "man_append", "man_edit", "cov_cell"}),
    "core-plus": (FORMS_RED, FRAMES_RED, 2, {"copy", "copy_form", "copy_frame", "conv", "form", "frame", "hill", "bad_center", "read_infos", "form_call", "w_idx",
                                         "man_append", "man_edit", "cov_cell"}),
}


def alphabet(w, level):
    forms, frames, maxobj, kinds = LEVELS[level]
    ops = []
    n = len(w.objs)
    for i in range(n):
        M = w.models[i]
        if n < maxobj:
            ops.append(["copy", i])
            ops += [["copy_form", i, f] for f in forms]
            ops += [["copy_frame", i, F] for F in frames]
            ops += [["copy_same", i, j] for j in range(n) if j != i]
            ops.append(["pickle", i])
            ops.append(["conv", i])
        ops += [["form", i, f] for f in forms]
        ops += [["frame", i, F] for F in frames]
        ops += [["bad_form", i], ["bad_frame", i], ["hill", i], ["bad_center", i], ["bad_ephem", i], ["copy_bad_center", i]]
        ops.append(["read_infos", i])
        ops += [["form_call", i, f] for f in forms]
        ops += [["w_idx", i], ["w_name", i], ["w_alias", i], ["meta", i]]
        if len(M["mans"]) < 3:
            ops.append(["man_append", i])
        if len(M["mans"]) >= 1:
            ops.append(["man_edit", i])
        if M["cov"] is not None:
            ops.append(["cov_cell", i])
            if level == "covlocal" and M["cov"][0] != "QSW":
                ops.append(["cov_qsw", i])
    if kinds is not None:
        ops = [op for op in ops if op[0] in kinds]
    return ops


def model_step(w, op):
    """The obvious rule.  Returns (models after, model of the new object or None, must_raise)."""
    S = sm()
    mu = _W["mu"]
    k, i = op[0], op[1]
    M = w.models[i]
    ms = list(w.models)
    new = None
    if k == "copy" or k == "pickle":
        new = dict(M)
    elif k == "copy_form":
        new = S.set_form(M, op[2], mu)
    elif k == "copy_frame":
        new = S.set_frame(M, op[2], fmap, mu)
    elif k == "copy_same":
        o = w.models[op[2]]
        new = S.set_form(S.set_frame(M, o["frame"], fmap, mu), o["form"], mu)
    elif k == "conv":
        new = S.with_(M, cls="StateVector", prop=None) if M["cls"] == "Orbit" else S.with_(M, cls="Orbit", prop="Kepler")
    elif k == "form":
        ms[i] = S.set_form(M, op[2], mu)
    elif k == "frame":
        ms[i] = S.set_frame(M, op[2], fmap, mu)
        if ms[i]["cov"] != M["cov"]:
            _propagate(w, ms, i, "cov", w.share_cov)
    elif k == "cov_qsw":
        ms[i] = S.with_(M, cov=("QSW", M["cov"][1]))  # values adopted from the object after the call (numerics: C14)
    elif k == "read_infos" or k == "form_call":
        pass  # reading derived quantities / calling the form as a function changes nothing
    elif k in FAILING:
        return ms, None, True
    elif k == "w_idx":
        ms[i] = S.write(M, W_IDX, S.sig3(M["coords"][W_IDX]))
    elif k == "w_name":
        j = W_NAME[M["form"]]
        ms[i] = S.write(M, j, S.sig3(M["coords"][j]))
    elif k == "w_alias":
        j = W_ALIAS[M["form"]][1]
        ms[i] = S.write(M, j, S.sig3(M["coords"][j]))
    elif k == "meta":
        ms[i] = S.set_meta(M, "name", "renamed")
    elif k == "man_append":
        ms[i] = S.with_(M, mans=M["mans"] + (man_model(MAN_ADDED),))
        _propagate(w, ms, i, "mans", w.share_mans)
    elif k == "man_edit":
        m0 = M["mans"][0]
        dv = (m0[2][0], 42.0, m0[2][2])
        ms[i] = S.with_(M, mans=((m0[0], m0[1], dv, m0[3], "edited", m0[5]),) + M["mans"][1:])
        _propagate(w, ms, i, "mans", w.share_mans)
    elif k == "cov_cell":
        c = list(M["cov"][1])
        c[0] = S.sig3(c[0])
        ms[i] = S.with_(M, cov=(M["cov"][0], tuple(c)))
        _propagate(w, ms, i, "cov", w.share_cov)
    else:
        raise ValueError(k)
    return ms, new, False


def _propagate(w, ms, i, field, groups):
    for j in range(len(ms)):
        if j != i and groups[j] == groups[i]:
            ms[j] = sm().with_(ms[j], **{field: ms[i][field]})


def real_step(w, op):
    """Execute the operation on the real objects. Returns the new object (producers) or None."""
    S = sm()
    k, i = op[0], op[1]
    x = w.objs[i]
    M = w.models[i]
    if k == "copy":
        return x.copy()
    if k == "copy_form":
        return x.copy(form=op[2])
    if k == "copy_frame":
        return x.copy(frame=op[2])
    if k == "copy_same":
        return x.copy(same=w.objs[op[2]])
    if k == "pickle":
        return pickle.loads(pickle.dumps(x))
    if k == "conv":
        return x.as_statevector() if M["cls"] == "Orbit" else x.as_orbit("Kepler")
    if k == "form":
        x.form = op[2]
    elif k == "frame":
        x.frame = op[2]
    elif k == "bad_form":
        x.form = "no_such_form"
    elif k == "bad_frame":
        x.frame = "NoSuchFrame"
    elif k == "hill":
        x.frame = "Hill"
    elif k == "bad_center":
        x.frame = BAD_CENTER
    elif k == "bad_ephem":
        x.frame = BAD_EPHEM
    elif k == "copy_bad_center":
        x.copy(frame=BAD_CENTER)
    elif k == "cov_qsw":
        x.cov.frame = "QSW"
    elif k == "form_call":
        w.probe = x.form(x, op[2])  # documented callable: elements of x in another (or the same) form
    elif k == "read_infos":
        inf = x.infos
        inf.kep, inf.sphe, inf.r, inf.energy
    elif k == "w_idx":
        x[W_IDX] = S.sig3(M["coords"][W_IDX])
    elif k == "w_name":
        j = W_NAME[M["form"]]
        setattr(x, x.form.param_names[j], S.sig3(M["coords"][j]))
    elif k == "w_alias":
        a, j = W_ALIAS[M["form"]]
        x[a] = S.sig3(M["coords"][j])
    elif k == "meta":
        x.name = "renamed"
    elif k == "man_append":
        x.maneuvers.append(_mk_man(MAN_ADDED))
    elif k == "man_edit":
        m = x.maneuvers[0]
        m._dv[1] = 42.0
        m.comment = "edited"
    elif k == "cov_cell":
        x.cov[0, 0] = S.sig3(M["cov"][1][0])
    else:
        raise ValueError(k)
    return None


def commit(w, op, ms, new_model, new_obj):
    """Install the successor state in the world."""
    w.models = ms
    if new_obj is not None:
        i = op[1]
        w.objs.append(new_obj)
        w.models.append(new_model)
        w.origin.append((i, op[0]))
        gm, gc = max(w.share_mans) + 1, max(w.share_cov) + 1
        if op[0] == "conv" and not STRICT_CONVERSION_ALIASING:
            src = w.objs[i]
            lm, ln = src._data.get("maneuvers"), new_obj._data.get("maneuvers")
            if lm is not None and lm is ln:
                gm = w.share_mans[i]
            cm, cn = src._data.get("cov"), new_obj._data.get("cov")
            if cm is not None and cm is cn:
                gc = w.share_cov[i]
        w.share_mans.append(gm)
        w.share_cov.append(gc)


def uncommit_last(w):
    w.objs.pop()
    w.models.pop()
    w.origin.pop()
    w.share_mans.pop()
    w.share_cov.pop()


# ---------------------------------------------------------------------------
# observation and comparison


def observe(x, force_infos=False):
    o = {}
    o["cls"] = type(x).__name__
    o["form"] = x.form.name
    o["frame"] = x.frame.name
    o["coords"] = tuple(float(v) for v in np.array(x, dtype=float))
    o["date"] = date_key(x.date)
    d = x._data
    o["meta"] = tuple(sorted((k, v) for k, v in d.items() if k not in RESERVED))
    ml = d.get("maneuvers")
    o["mans"] = tuple(man_val(m) for m in (ml if ml is not None else []))
    c = d.get("cov")
    if c is None:
        o["cov"] = None
    else:
        try:
            o["cov"] = (c.frame if isinstance(c.frame, str) else c.frame.name, tuple(float(v) for v in np.array(c, dtype=float).flatten()))
        except AttributeError as e:
            o["cov"] = ("<unreadable: %r>" % (e,), ())
    o["prop"] = type(d["propagator"]).__name__ if "propagator" in d else None
    # derived quantities, whenever the object carries a stored helper (only then can they be stale or belong to another
    # object; a helper built on the spot is property C01's business); the read must not leave a trace
    had, prev = "infos" in d, d.get("infos")
    if not had and not force_infos:
        return o
    try:
        inf = x.infos
        o["infos"] = (float(inf.r), float(inf.v), float(inf.kep.a), float(inf.energy))
        o["infos_bound"] = inf.orb is x
    except Exception as e:
        o["infos"] = repr(e)
        o["infos_bound"] = None
    if had:
        d["infos"] = prev
    else:
        d.pop("infos", None)
    return o


def compare(o, M):
    """-> list of (field, expected, observed, magnitude)"""
    S = sm()
    mu = _W["mu"]
    out = []
    for f in ("cls", "form", "frame", "prop"):
        if o[f] != M[f]:
            out.append((f, M[f], o[f], None))
    if o["date"] != date_key(_date()):
        out.append(("date", date_key(_date()), o["date"], None))
    if o["meta"] != M["meta"]:
        out.append(("meta", M["meta"], o["meta"], None))
    if o["mans"] != M["mans"]:
        out.append(("man-list" if len(o["mans"]) != len(M["mans"]) else "man-object", M["mans"], o["mans"], None))
    if o["form"] == M["form"] and o["frame"] == M["frame"]:
        if not all(math.isfinite(v) for v in o["coords"]):
            out.append(("coords", M["coords"], o["coords"], float("inf")))
        else:
            ce = np.array(S.to_cart(M["coords"], M["form"], mu))
            rn, vn = math.sqrt(ce[:3] @ ce[:3]), math.sqrt(ce[3:] @ ce[3:])
            try:
                # the OBSERVED numbers may be anything (e.g. cartesian values under a keplerian label)
                co = np.array(S.to_cart(o["coords"], M["form"], mu))
                err = max(float(np.max(np.abs(ce[:3] - co[:3])) / rn), float(np.max(np.abs(ce[3:] - co[3:])) / vn))
                if not math.isfinite(err):
                    raise ValueError("non-finite")
                out.append(("coords?", M["coords"], o["coords"], err))
            except (ValueError, OverflowError, ZeroDivisionError, FloatingPointError):
                out.append(("inconsistent-values-for-form", M["coords"], o["coords"], None))
    if o["form"] == M["form"] and o["frame"] == M["frame"] and "infos" in o:
        if o["infos_bound"] is not True:
            out.append(("infos-binding", "infos describes the object it is read from", o["infos_bound"] if o["infos_bound"] is not None else o["infos"], None))
        elif isinstance(o["infos"], str):
            out.append(("infos-values", "values", o["infos"], None))
        else:
            c6 = np.array(S.to_cart(M["coords"], M["form"], mu))
            r = math.sqrt(c6[:3] @ c6[:3])
            v2 = float(c6[3:] @ c6[3:])
            en = v2 / 2 - mu / r
            exp = (r, math.sqrt(v2), -mu / (2 * en), en)
            err = max(abs(a - b) / abs(b) for a, b in zip(o["infos"], exp))
            out.append(("infos-values?", exp, o["infos"], err))
    if (o["cov"] is None) != (M["cov"] is None):
        out.append(("cov-presence", M["cov"], o["cov"], None))
    elif o["cov"] is not None:
        if o["cov"][0] != M["cov"][0]:
            out.append(("cov-frame", M["cov"][0], o["cov"][0], None))
        else:
            e = np.array(M["cov"][1]).reshape(6, 6)
            c = np.array(o["cov"][1]).reshape(6, 6)
            s = np.array([math.sqrt(np.trace(e[:3, :3]) / 3)] * 3 + [math.sqrt(np.trace(e[3:, 3:]) / 3)] * 3)
            err = float(np.max(np.abs(e - c) / np.outer(s, s)))
            out.append(("cov-values?", M["cov"], o["cov"], err))
    return out


def exact_bits(w):
    out = []
    for x in w.objs:
        c = x._data.get("cov")
        out.append((np.array(x, dtype=float).tobytes(), None if c is None else np.array(c, dtype=float).tobytes()))
    return out


def relation(w, i, j):
    """Kinds of producer edges on the lineage path between objects i and j."""

    def up(a):
        chain = []
        while a is not None:
            chain.append(a)
            a = w.origin[a][0]
        return chain

    ci, cj = up(i), up(j)
    common = next(a for a in ci if a in cj)
    edges = [w.origin[a][1] for a in ci[: ci.index(common)]] + [w.origin[a][1] for a in cj[: cj.index(common)]]
    kinds = set("copy" if e.startswith("copy") else e for e in edges)
    for pref in ("copy", "pickle", "conv"):
        if pref in kinds:
            return pref
    return "self"


def check_access(x, t, case, where):
    """index / name / item / alias must agree with form.param_names."""
    from beyond.orbits.forms import Form

    ok = True
    names = x.form.param_names
    for k, name in enumerate(names):
        v = np.ndarray.__getitem__(x, k)
        paths = [("attr", name), ("item", name)] + [("attr", a) for a, tgt in Form.alt.items() if tgt == name]
        for how, nm in paths:
            try:
                got = getattr(x, nm) if how == "attr" else x[nm]
                bad = not (got == v or (got != got and v != v))
            except (AttributeError, KeyError) as e:
                got, bad = repr(e), True
            if bad:
                shadow = Form.alt.get(name, name) != name
                sig = f"access/{x.form.name}/" + ("param-name-shadowed-by-alias" if shadow else f"read-{how}")
                t.fail(sig, "element access by name, alias or index agrees with the current form's ordering", case,
                       float(v), got, f"{where}: {how} {nm!r} vs index {k} in form {x.form.name}")
                ok = False
    return ok


def alias_structure(w):
    ids = {}

    def n(o):
        return None if o is None else ids.setdefault(id(o), len(ids))

    out = []
    for x in w.objs:
        d = x._data
        ml = d.get("maneuvers")
        c = d.get("cov")
        ch = None
        if c is not None:
            cd = getattr(c, "_data", None)
            if cd is None:
                ch = ("no-_data",)
            else:
                po = cd.get("orb")
                ch = (n(c), n(c.base), n(cd), n(po), None if po is None else po.frame.name,
                      getattr(getattr(c, "_orb_frame", None), "name", None))
        out.append(
            (
                n(d), n(x.base), x.base is None, n(ml),
                tuple((n(m), n(m._dv)) for m in (ml or [])),
                ch, n(d.get("propagator")), d["frame"] is _registry_frame(d["frame"]),
                n(d.get("infos")), None if d.get("infos") is None else d["infos"].orb is x,
            )
        )
    return tuple(out)


def _registry_frame(f):
    from beyond.frames.frames import dynamic

    return dynamic.get(f.name)


def _r9(v):
    return float("%.9g" % v)


def canon(w):
    ms = []
    for M in w.models:
        cov = None if M["cov"] is None else (M["cov"][0], tuple(_r9(v) for v in M["cov"][1]))
        ms.append((M["cls"], M["form"], M["frame"], tuple(_r9(v) for v in M["coords"]), M["meta"], M["mans"], cov, M["prop"]))

    def part(g):
        first = {}
        return tuple(first.setdefault(v, len(first)) for v in g)

    return (tuple(ms), alias_structure(w), part(w.share_mans), part(w.share_cov))


# ---------------------------------------------------------------------------
# one transition = one case


def step(w, op, case, t, checking=True):
    """Execute `op` in world w (real objects and models), compare every live object with its model.
    Returns ok; the world is advanced (also when not ok)."""
    k, i = op[0], op[1]
    ms, new_model, must_raise = model_step(w, op)
    unpickled = w.objs[i].base is None
    where = f"{op} on object {i} ({w.models[i]['cls']}, {w.models[i]['form']}, {w.models[i]['frame']}, origin {w.origin[i][1]})"
    raised = None
    new_obj = None
    bits = exact_bits(w) if checking and (k in PRODUCERS or k in PROBES) else None
    try:
        new_obj = real_step(w, op)
    except Exception as e:  # library raised
        raised = e
    t.trans()
    if k == "cov_qsw" and raised is None:
        c = w.objs[i]._data["cov"]
        ms[i] = sm().with_(ms[i], cov=("QSW", tuple(float(v) for v in np.array(c, dtype=float).flatten())))
        _propagate(w, ms, i, "cov", w.share_cov)
    if not checking:
        if raised is None or must_raise:
            commit(w, op, ms, new_model, new_obj)
        return True
    ok = True
    if must_raise and raised is None:
        t.fail(f"{k}/no-exception", "an impossible form/frame change is refused", case, "an exception", "no exception", where)
        return False
    if not must_raise and raised is not None:
        if unpickled:
            sig = "unpickled-object/" + ("copy" if k.startswith("copy") or k in ("pickle", "conv") else "convert" if k in ("form", "frame") else k) + "/raises"
        else:
            sig = f"{k}/raises"
        t.fail(sig, "copy / conversion / assignment yields the documented result", case, "success", repr(raised), where)
        return False
    commit(w, op, ms, new_model, new_obj)
    n = len(w.objs)
    new_idx = n - 1 if new_obj is not None else None
    if k == "form_call":
        ok = _check_form_call(w, op, case, t, where)
    if new_idx is not None and w.models[i]["cov"] is not None and w.models[new_idx]["cov"] == w.models[i]["cov"] and (
        k == "pickle" or w.models[i]["cov"][0] != w.models[i]["frame"]
    ):
        ok = _check_cov_future(w, i, new_idx, k, case, t, where) and ok
    if bits is not None and exact_bits(w)[: len(bits)] != bits:
        # a method that returns a new object must leave every existing object bit-for-bit unchanged
        t.fail(f"{k}/receiver-changed/bits", "conversion methods that return a new object leave the receiver unchanged",
               case, "unchanged coordinates / covariance", "changed", where)
        ok = False
    for j in range(n):
        o = observe(w.objs[j], force_infos=(k == "read_infos" and j == i))
        for fld, exp, obs, mag in compare(o, w.models[j]):
            if fld.endswith("?"):
                name = {"coords?": "coordinates vs model (scaled)", "cov-values?": "covariance vs model (scaled)",
                        "infos-values?": "infos r, v, a, energy vs model (relative)"}[fld]
                tol = {"coords?": TOL_COORD, "cov-values?": TOL_COV, "infos-values?": TOL_INFOS}[fld]
                if mag <= tol:
                    t.margin(name, mag, tol, case)
                    continue
                fld = fld[:-1]
            ok = False
            detail = f"{where}: object {j} field {fld}" + (f" error {mag:.3e}" if mag is not None else "")
            if j == new_idx:
                sig, clause = f"{k}/result-{fld}", "the new object carries the same values and metadata (converted as requested)"
            elif j == i and (k in PRODUCERS or k in PROBES):
                sig, clause = f"{k}/receiver-changed/{fld}", "conversion methods that return a new object leave the receiver unchanged"
            elif j == i and must_raise:
                sig, clause = f"{k}/not-atomic/{fld}", "a form or frame change that fails leaves the object in its previous form/frame/values"
            elif j == i:
                sig, clause = f"{k}/wrong-{fld}", "assignment changes exactly what it names"
            else:
                sig = f"alias/{relation(w, i, j)}/{fld}"
                clause = "a copy shares no mutable data with the original: changing one never shows in the other"
            t.fail(sig, clause, case, exp, obs, detail)
        if not check_access(w.objs[j], t, case, where):
            ok = False
    return ok


def _check_cov_future(w, i, j, k, case, t, where):
    """The covariance of a copy / unpickled object is the same physical quantity as the original's: converted (on
    throw-away copies) to probe frames it gives the same matrix, bit for bit."""
    ok = True
    ca, cb = w.objs[i]._data.get("cov"), w.objs[j]._data.get("cov")
    if ca is None or cb is None:
        return True
    for pf in ("QSW", "TNW", "EME2000"):
        try:
            a = np.array(ca.copy(frame=pf), dtype=float)
            b = np.array(cb.copy(frame=pf), dtype=float)
            t.trans(2)
            same = np.array_equal(a, b, equal_nan=True)
            obs = b
        except Exception as e:
            same, a, obs = False, None, repr(e)
        if not same:
            t.fail(f"{k}/result-cov-future", "copying / pickling preserves the covariance: expressed in any other frame it gives the "
                   "same matrix as the original's", case, a, obs, f"{where}: covariance converted to {pf}")
            ok = False
            break
    return ok


def _check_form_call(w, op, case, t, where):
    """The result of form(x, target) holds the elements of x in the target form; it is then edited in place (the
    comparison of every live object with its model that follows shows whether that reached x)."""
    S = sm()
    mu = _W["mu"]
    M = w.models[op[1]]
    r = w.probe
    w.probe = None
    ok = True
    try:
        got = tuple(float(v) for v in np.array(r, dtype=float))
        exp = S.convert_form(M["coords"], M["form"], op[2], mu)
        ce, co = np.array(S.to_cart(exp, op[2], mu)), np.array(S.to_cart(got, op[2], mu))
        rn, vn = math.sqrt(ce[:3] @ ce[:3]), math.sqrt(ce[3:] @ ce[3:])
        err = max(float(np.max(np.abs(ce[:3] - co[:3])) / rn), float(np.max(np.abs(ce[3:] - co[3:])) / vn))
        good = len(got) == 6 and math.isfinite(err) and t.margin("form(x, target) vs model (scaled)", err, TOL_COORD, case)
    except (ValueError, OverflowError, ZeroDivisionError, FloatingPointError, TypeError) as e:
        good, got, exp = False, repr(e), None
    if not good:
        t.fail("form_call/result-values", "form(x, target) returns the elements of x in the target form", case, exp, got, where)
        ok = False
    try:
        r[0] = float(r[0]) * 0.5 + 1.0
        r[4] = -float(r[4]) - 1.0
    except Exception as e:
        t.fail("form_call/result-not-editable", "the result of form(x, target) is an array of its own", case, "editable", repr(e), where)
        ok = False
    return ok


def rebuild(rootname, hist, t):
    w = build_root(rootname)
    for op in hist:
        step(w, op, None, t, checking=False)
    return w


def check_case(case, t):
    if case.get("part") == "access":
        return check_access_case(case, t)
    if case.get("part") == "dyn":
        return dyn_check_case(case, t)
    if case.get("part") == "boundary":
        return bnd_check_case(case, t)
    w = rebuild(case["root"], case["history"][:-1], t)
    return step(w, case["history"][-1], case, t)


# ---------------------------------------------------------------------------
# exploration


def explore(rootname, depth, level, first_ops, t):
    rid = (root_id(rootname), level)
    w0 = build_root(rootname)
    seen = {canon(w0)}
    t.state((rid, canon(w0)))
    frontier = [[]]
    shares = 0
    for d in range(depth):
        nxt = []
        for hist in frontier:
            w = rebuild(rootname, hist, t)
            ksrc = canon(w)
            ops = alphabet(w, level)
            if d == 0 and first_ops is not None:
                ops = [op for n, op in enumerate(ops) if n % first_ops[1] == first_ops[0]]
            fresh = True
            for op in ops:
                if not fresh:
                    w = rebuild(rootname, hist, t)
                case = dict(root=rootname, history=[list(x) for x in hist] + [list(op)])
                ok = step(w, op, case, t)
                k = canon(w) if ok else None
                t.ev((rid, ksrc, tuple(op)) if (k is not None and k != ksrc) or not ok else None)
                t.outcome((op[0], ok, len(w.objs)))
                if ok and op[0] == "conv" and (w.share_mans.count(w.share_mans[-1]) > 1 or w.share_cov.count(w.share_cov[-1]) > 1):
                    shares += 1
                if ok and k not in seen:
                    seen.add(k)
                    t.state((rid, k))
                    nxt.append(hist + [list(op)])
                    if len(hist) + 1 >= 3 and len(t.samples) < 2:
                        t.sample(case)
                # producers leave the sources untouched (just verified): drop the new object and go on
                if ok and op[0] in PRODUCERS:
                    uncommit_last(w)
                    fresh = True
                elif ok and op[0] in PROBES:
                    fresh = True
                else:
                    fresh = False
        frontier = nxt
        if not frontier:
            t.note("sub-searches that reached their fixpoint", 1)
            break
    if shares:
        t.note("as_orbit()/as_statevector() results sharing the maneuver list / covariance object with the receiver "
               "(allowed by the model, see NOT_COVERED)", shares)


# ---------------------------------------------------------------------------
# access product (E2)


def all_forms():
    from beyond.orbits import forms

    out = []
    for f in forms._cache.values():
        if f not in out:
            out.append(f)
    return out


def check_access_case(case, t):
    """One form x frame: read paths, write paths (index, name, alias, item), foreign names, failing assignments."""
    from beyond.orbits.forms import Form, _cache_param_names

    rootname, formname, frame = case["root"], case["form"], case["frame"]
    ok = True

    def fresh():
        w = build_root(rootname)
        x = w.objs[0]
        if frame != "EME2000":
            x.frame = frame
        x.form = formname
        t.trans(2)
        return x

    x = fresh()
    where = f"{rootname} in {formname}/{frame}"
    if x.form.name != formname:
        t.fail("form/label", "form assignment sets the form", case, formname, x.form.name, where)
        return False
    ok &= check_access(x, t, case, where)
    names = list(x.form.param_names)
    t.state(("access", rootname, formname, frame))
    # writes
    for k, name in enumerate(names):
        paths = [("index", k), ("attr", name), ("item", name)]
        paths += [("attr", a) for a, tgt in Form.alt.items() if tgt == name] + [("item", a) for a, tgt in Form.alt.items() if tgt == name]
        for how, nm in paths:
            x = fresh()
            before = np.array(x, dtype=float)
            v = sm().sig3(before[k]) * 1.0009765625
            try:
                if how == "index":
                    x[nm] = v
                elif how == "attr":
                    setattr(x, nm, v)
                else:
                    x[nm] = v
                after = np.array(x, dtype=float)
                exp = before.copy()
                exp[k] = v
                bad = not np.array_equal(after, exp)
                obs = after
            except (AttributeError, KeyError) as e:
                bad, obs, exp = True, repr(e), None
            t.trans()
            t.ev(("w", rootname, formname, frame, k, how, nm))
            if bad:
                shadow = Form.alt.get(name, name) != name
                sig = f"access/{formname}/" + ("param-name-shadowed-by-alias" if shadow else f"write-{how}")
                t.fail(sig, "element access by name, alias or index agrees with the current form's ordering", case,
                       exp, obs, f"{where}: write {how} {nm!r} (index {k})")
                ok = False
    # names of other forms are refused and change nothing
    x = fresh()
    before = np.array(x, dtype=float)
    resolvable = set(names) | {a for a, tgt in Form.alt.items() if tgt in names}
    for nm in sorted(_cache_param_names | set(Form.alt)):
        if nm in resolvable or Form.alt.get(nm, nm) in names:
            continue
        for how in ("get", "set", "getitem", "setitem"):
            try:
                if how == "get":
                    getattr(x, nm)
                elif how == "set":
                    setattr(x, nm, 1.0)
                elif how == "getitem":
                    x[nm]
                else:
                    x[nm] = 1.0
                refused = False
            except (AttributeError, KeyError):
                refused = True
            t.trans()
            t.ev(("foreign", rootname, formname, frame, nm, how))
            if not refused or not np.array_equal(np.array(x, dtype=float), before) or nm in x._data:
                t.fail(f"access/{formname}/foreign-name-accepted", "a name of another form is not available in the current form",
                       case, "AttributeError/KeyError", "accepted", f"{where}: {how} {nm!r}")
                ok = False
                x = fresh()
    # failing assignments are atomic in every form
    for what, setter in (("bad_form", lambda o: setattr(o, "form", "no_such_form")),
                         ("bad_frame", lambda o: setattr(o, "frame", "NoSuchFrame")),
                         ("hill", lambda o: setattr(o, "frame", "Hill")),
                         ("bad_center", lambda o: setattr(o, "frame", BAD_CENTER)),
                         ("bad_ephem", lambda o: setattr(o, "frame", BAD_EPHEM))):
        x = fresh()
        before = np.array(x, dtype=float)
        meta_before = observe(x)
        try:
            setter(x)
            t.fail(f"{what}/no-exception", "an impossible form/frame change is refused", case, "an exception", "no exception", where)
            ok = False
        except Exception:
            pass
        t.trans()
        t.ev(("fail", rootname, formname, frame, what))
        o = observe(x)
        for f in ("cls", "form", "frame", "meta", "mans", "prop", "date", "cov"):
            if o[f] != meta_before[f]:
                t.fail(f"{what}/not-atomic/{f}", "a form or frame change that fails leaves the object in its previous form/frame/values",
                       case, meta_before[f], o[f], where)
                ok = False
        after = np.array(x, dtype=float)
        scale = np.maximum(np.abs(before), 1e-3)
        diff = np.abs(after - before)
        # angles may come back modulo 2 pi
        diff = np.minimum(diff, np.abs(diff - 2 * math.pi))
        err = float(np.max(diff / scale))
        if not t.margin("values after a failing assignment (relative)", err, 1e-11, case):
            t.fail(f"{what}/not-atomic/coords", "a form or frame change that fails leaves the object in its previous form/frame/values",
                   case, before, after, f"{where}: relative change {err:.3e}")
            ok = False
    return ok


# ---------------------------------------------------------------------------
# states expressed in dynamic frames: pickle.dumps / pickle.loads with operations in between (E1)
#
# A state given in a frame created at run time (user frame, station, orbit-attached frame) or in the Hill frame is
# dumped, the world goes on (the source is modified, the frame NAME is registered again with another definition, ...),
# and the dump is loaded.  Oracle: plain values remembered at dump time; the loaded object must carry the same numbers
# and metadata and denote the same point of space, i.e. the affine map (A, b) of the ORIGINAL frame definition to
# EME2000 -- taken from Frame.transform on basis states while the registry was pristine -- applied to its numbers.

DYN_KINDS = ["custom", "station", "orbitframe", "hill"]
DYN_NAME = {"custom": "C15Frm", "station": "C15Sta", "orbitframe": "C15Orb", "hill": "Hill"}
DYN_COORDS = {
    "custom": (6.9e6, 1.1e5, -5.2e4, 12.5, 7.51e3, 3.1e2),
    "station": (1.2345e6, -4.321e5, 8.7654e5, 1.234e3, 2.345e3, -3.456e3),
    "orbitframe": (123.4, -2345.6, 12.3, 0.0123, -0.234, 0.00123),
    "hill": (123.4, -2345.6, 12.3, 0.0123, -0.234, 0.00123),
}
DYN_OPS_MAXOBJ = 3
TOL_POINT = 1e-13  # scaled by 7e6 m / 7e3 m/s: the same affine map evaluated twice in double precision (observed 7e-17)


def _dyn_snap():
    if "snap" not in _W:
        from mc import world
        from beyond.frames import stations  # noqa: make sure every module that registers things is imported

        _W["snap"] = world.snapshot()
    return _W["snap"]


def _dyn_ref_orbit(variant):
    from beyond.orbits import Orbit

    S = sm()
    kep = ORBITS["o0"] if variant == 0 else ORBITS["o1"]
    return Orbit(list(S.to_cart(kep, "keplerian", _W["mu"])), _date(), "cartesian", "EME2000", "Kepler")


def dyn_make_frame(kind, variant):
    """variant 0: the definition the objects are created with; variant 1: another definition under the same name."""
    from beyond.frames import frames, orient, center
    from beyond.frames.stations import create_station

    if kind == "custom":
        return frames.Frame("C15Frm", orient.EME2000 if variant == 0 else orient.ITRF, center.Earth, exists_warning=False)
    if kind == "station":
        return create_station("C15Sta", (43.428889, 1.497778, 178.0) if variant == 0 else (-35.4, 148.98, 690.0))
    if kind == "orbitframe":
        return frames.orbit2frame("C15Orb", _dyn_ref_orbit(variant), "QSW" if variant == 0 else "TNW", exists_warning=False)
    if kind == "hill":
        return frames.get_frame("Hill") if variant == 0 else frames.HillFrame("TNW")
    raise ValueError(kind)


def _vals(x):
    try:
        return tuple(float(v) for v in np.array(x, dtype=float))
    except Exception:
        return repr(x)


def frame_desc(f):
    """The DEFINITION a frame object carries, as plain values (class, name, orientation data, centre data)."""
    o = f.orientation
    c = f.center
    if isinstance(o, str):
        od = o
    else:
        od = (type(o).__name__, getattr(o, "name", None))
        if hasattr(o, "latlonalt"):
            od += (_vals(o.latlonalt),)
        if hasattr(o, "statevector"):
            sv = o.statevector
            od += (o.orient, _vals(sv), sv.frame.name, date_key(sv.date), getattr(o.parent, "name", None))
    cd = (type(c).__name__, getattr(c, "name", None))
    off = getattr(c, "offset", None)
    if off is not None:
        cd += (_vals(off),)
        if hasattr(off, "frame"):
            cd += (off.frame.name, date_key(off.date))
    return (type(f).__name__, f.name, od, cd)


class DynWorld:
    def __init__(self):
        self.objs = []
        self.models = []  # dict(cls, coords, fdesc, meta, cov, same) plain values
        self.blobs = []  # (bytes, model at dump time) ; None once loaded
        self.rereg = False
        self.kind = None
        self.A = None
        self.b = None
        self.F0 = None


def dyn_affine(F0, date):
    """(A, b) with  state_EME2000 = A @ state_F0 + b, from Frame.transform on plain basis states."""
    from beyond.orbits import StateVector
    from beyond.frames.frames import get_frame

    eme = get_frame("EME2000")
    z = np.array(F0.transform(StateVector([0.0] * 6, date, "cartesian", F0), eme), dtype=float)
    cols = []
    for k in range(6):
        h = 1e6 if k < 3 else 1e3
        e = [0.0] * 6
        e[k] = h
        cols.append((np.array(F0.transform(StateVector(e, date, "cartesian", F0), eme), dtype=float) - z) / h)
    return np.array(cols).T, z


def dyn_build(kind):
    from mc import world
    from beyond.orbits import StateVector
    from beyond.orbits.cov import Cov

    world.restore(_dyn_snap())
    _W["epoch"] = "d0"
    w = DynWorld()
    w.kind = kind
    F0 = dyn_make_frame(kind, 0)
    w.F0 = F0
    if kind != "hill":
        w.A, w.b = dyn_affine(F0, _date())
    x = StateVector(list(DYN_COORDS[kind]), _date(), "cartesian", F0, name="SAT-D", maneuvers=[_mk_man(MAN_SPECS[0])])
    cov = None
    if kind in ("custom", "station"):
        x.cov = Cov(x, COV0, F0)
        cov = ("=", tuple(float(v) for v in COV0.flatten()))  # "=": expressed in the state's own frame object
    w.objs.append(x)
    w.models.append(dict(cls="StateVector", coords=tuple(float(v) for v in DYN_COORDS[kind]), fdesc=frame_desc(F0),
                         meta=(("name", "SAT-D"),), mans=(man_model(MAN_SPECS[0]),), cov=cov))
    return w


def dyn_alphabet(w):
    ops = []
    n = len(w.objs)
    for i in range(n):
        dyn = w.models[i]["fdesc"][1] != "EME2000"
        if sum(b is not None for b in w.blobs) < 2 and len(w.blobs) < 3:
            ops.append(["dumps", i])
        ops.append(["w_idx", i])
        ops.append(["meta", i])
        if n < DYN_OPS_MAXOBJ:
            ops.append(["copy", i])
        # conversions of station / orbit frames are looked up BY NAME in class-level tables of the library: once the
        # name is registered again they are those of the new definition for every frame object (registry semantics,
        # not a matter of value semantics) -> no conversion of such frames after a re-registration
        if dyn and w.kind != "hill" and (w.kind == "custom" or not w.rereg):
            ops.append(["to_eme", i])
            if not w.rereg:
                ops.append(["to_self", i])
    for b, blob in enumerate(w.blobs):
        if blob is not None and n < DYN_OPS_MAXOBJ:
            ops.append(["loads", b])
    if not w.rereg:
        ops.append(["rereg"])
    return ops


def dyn_point(x):
    """Where the library says the object is, in EME2000, through the object's OWN frame."""
    from beyond.orbits import StateVector
    from beyond.frames.frames import get_frame

    plain = StateVector(list(np.array(x, dtype=float)), x.date, "cartesian", x.frame)
    return np.array(x.frame.transform(plain, get_frame("EME2000")), dtype=float)


def dyn_observe(x):
    d = x._data
    c = d.get("cov")
    cov = None
    if c is not None:
        cov = ("=" if c.frame is d["frame"] else frame_desc(c.frame) if not isinstance(c.frame, str) else c.frame,
               tuple(float(v) for v in np.array(c, dtype=float).flatten()))
    return dict(cls=type(x).__name__, coords=tuple(float(v) for v in np.array(x, dtype=float)), fdesc=frame_desc(d["frame"]),
                meta=tuple(sorted((k, v) for k, v in d.items() if k not in RESERVED)),
                mans=tuple(man_val(m) for m in (d.get("maneuvers") or [])), cov=cov,
                form=d["form"].name, date=date_key(d["date"]))


def dyn_step(w, op, case, t, checking=True):
    S = sm()
    k = op[0]
    kind = w.kind
    ms = [dict(m) for m in w.models]
    where = f"{op} [{kind} frame, re-registered={w.rereg}]"
    new_model = None
    try:
        if k == "dumps":
            i = op[1]
            w.blobs.append((pickle.dumps(w.objs[i]), dict(ms[i])))
        elif k == "loads":
            blob, snap = w.blobs[op[1]]
            w.blobs[op[1]] = None
            new_model = snap
            w.objs.append(pickle.loads(blob))
        elif k == "rereg":
            dyn_make_frame(kind, 1)
            w.rereg = True
        elif k == "w_idx":
            i = op[1]
            v = S.sig3(ms[i]["coords"][0]) * 1.0009765625
            w.objs[i][0] = v
            ms[i]["coords"] = (v,) + ms[i]["coords"][1:]
        elif k == "meta":
            i = op[1]
            w.objs[i].name = "renamed"
            ms[i]["meta"] = (("name", "renamed"),)
        elif k == "copy":
            i = op[1]
            new_model = dict(ms[i])
            w.objs.append(w.objs[i].copy())
        elif k == "to_eme":
            i = op[1]
            exp = w.A @ np.array(ms[i]["coords"]) + w.b
            w.objs[i].frame = "EME2000"
            ms[i]["coords"] = tuple(float(v) for v in exp)
            ms[i]["fdesc"] = _W.setdefault("eme_desc", frame_desc(__import__("beyond.frames.frames", fromlist=["x"]).get_frame("EME2000")))
            if ms[i]["cov"] is not None and ms[i]["cov"][0] == "=":
                c = np.array(ms[i]["cov"][1]).reshape(6, 6)
                ms[i]["cov"] = ("=", tuple(float(v) for v in (w.A @ c @ w.A.T).flatten()))
        elif k == "to_self":
            i = op[1]
            w.objs[i].frame = DYN_NAME[kind]
        else:
            raise ValueError(k)
        raised = None
    except Exception as e:
        raised = e
    t.trans()
    if new_model is not None and raised is None:
        ms.append(new_model)
    w.models = ms
    if not checking:
        if raised is None and k in ("to_eme", "to_self"):
            _dyn_resync(w, op[1])
        return raised is None
    if raised is not None:
        sig = f"pickle-dyn/{kind}/loads-raises" if k == "loads" else f"dyn/{kind}/{k}/raises"
        t.fail(sig, "pickling preserves values and metadata / copy, conversion, assignment yield the documented result",
               case, "success", repr(raised), where)
        return False
    ok = True
    new_idx = len(w.objs) - 1 if k in ("loads", "copy") else None
    for j, x in enumerate(w.objs):
        o = dyn_observe(x)
        M = w.models[j]
        if j == new_idx:
            base = f"pickle-dyn/{kind}" if k == "loads" else f"dyn/{kind}/copy/result"
            clause = "pickling / copying preserves values and metadata (the frame is part of them)"
        elif k in ("loads", "copy", "dumps", "rereg") or j != op[1]:
            base = f"dyn/{kind}/{k}/other-object-changed"
            clause = "an operation changes only the object it names"
        else:
            base = f"dyn/{kind}/{k}/wrong"
            clause = "assignment changes exactly what it names"
        bad = []
        for f in ("cls", "meta", "mans"):
            if o[f] != M[f]:
                bad.append((f, M[f], o[f]))
        if o["form"] != "cartesian" or o["date"] != date_key(_date()):
            bad.append(("form-or-date", ("cartesian", date_key(_date())), (o["form"], o["date"])))
        if o["fdesc"] != M["fdesc"]:
            bad.append(("frame-definition", M["fdesc"], o["fdesc"]))
        exact = k not in ("to_eme", "to_self") or j != op[1]
        ce, co = np.array(M["coords"]), np.array(o["coords"])
        sc = np.array([7e6] * 3 + [7e3] * 3)
        if exact:
            if o["coords"] != M["coords"]:
                bad.append(("values", M["coords"], o["coords"]))
        else:
            err = float(np.max(np.abs(ce - co) / sc))
            if not t.margin("dynamic frame: coordinates after frame assignment (scaled)", err, TOL_POINT, case):
                bad.append(("values", M["coords"], o["coords"]))
        if (o["cov"] is None) != (M["cov"] is None):
            bad.append(("cov-presence", M["cov"], o["cov"]))
        elif o["cov"] is not None:
            if o["cov"][0] != M["cov"][0]:
                bad.append(("cov-frame", M["cov"][0], o["cov"][0]))
            else:
                e6, c6 = np.array(M["cov"][1]).reshape(6, 6), np.array(o["cov"][1]).reshape(6, 6)
                s6 = np.array([math.sqrt(np.trace(e6[:3, :3]) / 3)] * 3 + [math.sqrt(np.trace(e6[3:, 3:]) / 3)] * 3)
                err = float(np.max(np.abs(e6 - c6) / np.outer(s6, s6)))
                if not t.margin("dynamic frame: covariance vs model (scaled)", err, TOL_COV, case):
                    bad.append(("cov-values", M["cov"], o["cov"]))
        # the point of space the object denotes, through its own frame, vs the ORIGINAL definition applied to the model
        point_ok = kind == "custom" or (kind != "hill" and not w.rereg)
        if not point_ok:
            pass
        elif not any(f == "frame-definition" for f, _, _ in bad):
            try:
                if M["fdesc"][1] == "EME2000":
                    exp = np.array(M["coords"])
                else:
                    exp = w.A @ np.array(M["coords"]) + w.b
                got = dyn_point(x)
                err = float(np.max(np.abs(exp - got) / sc))
                if not t.margin("dynamic frame: point denoted in EME2000 (scaled)", err, TOL_POINT, case):
                    bad.append(("point", exp, got))
            except Exception as e:
                bad.append(("point", "convertible to EME2000", repr(e)))
        else:
            # the frame changed its definition: show what that does to the point
            try:
                exp = w.A @ np.array(M["coords"]) + w.b
                got = dyn_point(x)
                if float(np.max(np.abs(exp - got) / sc)) > TOL_POINT:
                    bad.append(("point", exp, got))
            except Exception as e:
                bad.append(("point", "convertible to EME2000", repr(e)))
        for f, e_, o_ in bad:
            t.fail(f"{base}/{f}", clause, case, e_, o_, f"{where}: object {j} field {f}")
            ok = False
    if ok and k in ("to_eme", "to_self"):
        _dyn_resync(w, op[1])
    return ok


def _dyn_resync(w, i):
    """After an assignment compared within tolerance the model adopts the object's numbers, so that all later
    comparisons (copies, pickles, untouched objects) are bit-exact."""
    o = dyn_observe(w.objs[i])
    w.models[i] = dict(w.models[i], coords=o["coords"])
    if o["cov"] is not None and w.models[i]["cov"] is not None and o["cov"][0] == w.models[i]["cov"][0]:
        w.models[i]["cov"] = o["cov"]


def dyn_canon(w):
    reg = None
    from beyond.frames.frames import dynamic

    objs = []
    for x, M in zip(w.objs, w.models):
        d = x._data
        c = d.get("cov")
        objs.append((M["cls"], tuple(_r9(v) for v in M["coords"]), M["fdesc"], M["meta"], M["mans"],
                     None if M["cov"] is None else (M["cov"][0], tuple(_r9(v) for v in M["cov"][1])),
                     d["frame"] is dynamic.get(DYN_NAME[w.kind]), d["frame"] is w.F0,
                     None if c is None else c.frame is d["frame"]))
    ids = {}
    mans = tuple(tuple(ids.setdefault(id(m), len(ids)) for m in (x._data.get("maneuvers") or [])) for x in w.objs)
    blobs = tuple(None if b is None else (tuple(_r9(v) for v in b[1]["coords"]), b[1]["meta"], b[1]["fdesc"]) for b in w.blobs)
    return (w.kind, tuple(objs), mans, blobs, w.rereg)


def dyn_rebuild(kind, hist, t):
    w = dyn_build(kind)
    for op in hist:
        dyn_step(w, op, None, t, checking=False)
    return w


def dyn_check_case(case, t):
    w = dyn_rebuild(case["kind"], case["history"][:-1], t)
    return dyn_step(w, case["history"][-1], case, t)


def dyn_explore(kind, depth, t):
    w0 = dyn_build(kind)
    seen = {dyn_canon(w0)}
    t.state(("dyn", dyn_canon(w0)))
    frontier = [[]]
    for d in range(depth):
        nxt = []
        for hist in frontier:
            w = dyn_rebuild(kind, hist, t)
            ksrc = dyn_canon(w)
            for op in dyn_alphabet(w):
                w = dyn_rebuild(kind, hist, t)
                case = dict(part="dyn", kind=kind, history=[list(x) for x in hist] + [list(op)])
                ok = dyn_step(w, op, case, t)
                k = dyn_canon(w) if ok else None
                t.ev(("dyn", ksrc, tuple(op)) if k != ksrc else None)
                t.outcome(("dyn", kind, op[0], ok))
                if ok and k not in seen:
                    seen.add(k)
                    t.state(("dyn", k))
                    nxt.append(hist + [list(op)])
                    if op[0] == "loads" and w.rereg and len(t.samples) < 3:
                        t.sample(case)
        frontier = nxt
        if not frontier:
            break
    from mc import world

    world.restore(_dyn_snap())


# ---------------------------------------------------------------------------
# boundary states: form / frame changes that produce NaN or are refused (E2 over roots x operations, two steps deep)
#
# Exactly equatorial, exactly circular and on-axis states sit on the singularities of the element forms.  No reference
# conversion exists there; the oracle is atomic consistency: either the assignment succeeds and the object then holds,
# under the new label, bit for bit (NaN == NaN) what the pure conversion form(fresh, target) of a fresh plain copy
# gives, or it raises and the object is bit for bit what it was (labels, values, metadata, covariance).

ALL_FORMS = ["tle", "keplerian_circular", "keplerian_mean", "keplerian_mean_circular", "keplerian_eccentric", "keplerian",
             "spherical", "cartesian", "equinoctial", "cylindrical"]
BOUNDARY_ROOTS = {
    "equatorial-cartesian": ("cartesian", (42164000.0, 0.0, 0.0, 0.0, 3074.66, 0.0)),
    "equatorial-keplerian": ("keplerian", (42164000.0, 0.001, 0.0, 0.5, 0.3, 1.0)),
    "circular-keplerian": ("keplerian", (7.2e6, 0.0, 0.9, 1.1, 0.0, 2.0)),
    "circular-kepcirc": ("keplerian_circular", (7.2e6, 0.0, 0.0, 0.9, 1.1, 2.0)),
    "circular-meancirc": ("keplerian_mean_circular", (7.2e6, 0.0, 0.0, 0.9, 1.1, 2.0)),
    "on-axis-cartesian": ("cartesian", (0.0, 0.0, 7.2e6, 7.5e3, 0.0, 0.0)),
    "polar-spherical": ("spherical", (7.2e6, 0.3, math.pi / 2, 10.0, 1e-3, 0.0)),
}
BND_OPS = [["form", f] for f in ALL_FORMS] + [["frame", F] for F in ("EME2000", "ITRF", "MOD")]


def bnd_build(root, t=None):
    from beyond.orbits import StateVector
    from beyond.orbits.cov import Cov

    _W["epoch"] = "d0"
    form, coords = BOUNDARY_ROOTS[root]
    x = StateVector(list(coords), _date(), form, "EME2000", name="BND", maneuvers=[_mk_man(MAN_SPECS[0])])
    try:
        x.cov = Cov(x, COV0, x.frame)
    except Exception:
        # attaching a covariance converts a private copy to cartesian; if the tree refuses that for a singular state the
        # root simply goes without covariance (building a Cov is not an operation of this property)
        if t is not None:
            t.exclude("boundary root explored without covariance: Cov() refused the singular state")
    return x


def bnd_snapshot(x):
    d = x._data
    c = d.get("cov")
    return dict(
        form=d["form"].name, frame=d["frame"].name, values=np.array(x, dtype=float).tobytes(),
        meta=tuple(sorted((k, v) for k, v in d.items() if k not in RESERVED)),
        mans=tuple(man_val(m) for m in (d.get("maneuvers") or [])),
        cov=None if c is None else (c.frame if isinstance(c.frame, str) else c.frame.name, np.array(c, dtype=float).tobytes()),
        date=date_key(d["date"]),
    )


def bnd_apply(x, op):
    if op[0] == "form":
        x.form = op[1]
    else:
        x.frame = op[1]


def bnd_step(x, op, case, t):
    from beyond.orbits import StateVector

    s0 = bnd_snapshot(x)
    vals0 = np.array(x, dtype=float)
    where = f"{op} on {s0['form']}/{s0['frame']} {vals0.tolist()}"
    # what the conversion of a fresh plain copy gives (pure function for forms; same assignment for frames)
    fresh = StateVector(list(vals0), x.date, s0["form"], s0["frame"])
    exp, exp_exc = None, None
    try:
        if op[0] == "form":
            exp = np.array(fresh.form(fresh, op[1]), dtype=float)
        else:
            fresh.frame = op[1]
            exp = np.array(fresh, dtype=float)
    except Exception as e:
        exp_exc = e
    raised = None
    try:
        bnd_apply(x, op)
    except Exception as e:
        raised = e
    t.trans(2)
    s1 = bnd_snapshot(x)
    ok = True
    if raised is not None:
        t.outcome(("bnd", op[0], "refused"))
        for f in s0:
            if s1[f] != s0[f]:
                obs = np.frombuffer(s1[f], dtype=float).tolist() if f == "values" else (s1[f] if f != "cov" else s1[f][0])
                exp_ = vals0.tolist() if f == "values" else (s0[f] if f != "cov" else s0[f][0])
                t.fail(f"boundary/{op[0]}/not-atomic/{f}", "a form or frame change that fails leaves the object in its previous form/frame/values",
                       case, exp_, obs, f"{where}: raised {raised!r}")
                ok = False
        return ok
    got = np.array(x, dtype=float)
    t.outcome(("bnd", op[0], "nan" if np.isnan(got).any() else "finite"))
    want = dict(s0)
    want["form" if op[0] == "form" else "frame"] = op[1]
    for f in ("form", "frame", "meta", "mans", "date"):
        if s1[f] != want[f]:
            t.fail(f"boundary/{op[0]}/wrong-{f}", "assignment changes exactly what it names", case, want[f], s1[f], where)
            ok = False
    if exp is not None and not np.array_equal(got, exp, equal_nan=True):
        t.fail(f"boundary/{op[0]}/values-vs-pure-conversion", "label and values agree: the object holds what the conversion of its "
               "previous elements gives", case, exp.tolist(), got.tolist(), where)
        ok = False
    if exp is None:
        t.fail(f"boundary/{op[0]}/succeeds-where-conversion-raises", "label and values agree", case, repr(exp_exc), got.tolist(), where)
        ok = False
    if op[0] == "form" and s1["cov"] != s0["cov"]:
        t.fail("boundary/form/wrong-cov", "assignment changes exactly what it names", case, s0["cov"] and s0["cov"][0],
               s1["cov"] and s1["cov"][0], where)
        ok = False
    if op[0] == "frame" and s0["cov"] is not None and s0["cov"][0] == s0["frame"] and (s1["cov"] is None or s1["cov"][0] != op[1]):
        t.fail("boundary/frame/wrong-cov-frame", "a covariance expressed in the state's frame follows the state", case, op[1],
               None if s1["cov"] is None else s1["cov"][0], where)
        ok = False
    if not check_access(x, t, case, where):
        ok = False
    return ok


def bnd_check_case(case, t):
    x = bnd_build(case["root"], t)
    for op in case["history"][:-1]:
        try:
            bnd_apply(x, op)
        except Exception:
            pass
        t.trans()
    return bnd_step(x, case["history"][-1], case, t)


def bnd_explore(root, t):
    for op1 in BND_OPS:
        case = dict(part="boundary", root=root, history=[op1])
        ok = bnd_check_case(case, t)
        t.state(("bnd", root, tuple(op1)))
        t.ev(("bnd", root, tuple(op1)))
        if not ok:
            continue
        for op2 in BND_OPS:
            case = dict(part="boundary", root=root, history=[op1, op2])
            bnd_check_case(case, t)
            t.state(("bnd", root, tuple(op1), tuple(op2)))
            t.ev(("bnd", root, tuple(op1), tuple(op2)))


# ---------------------------------------------------------------------------


def units(tier, seed):
    """Measured CPU per root: full alphabet depth 3 = 12-30 s, depth 4 = ~300 s; core alphabet depth 5 = 115 s,
    depth 6 = ~600 s.  A root's search is split by its first operation (deduplication is per unit)."""
    cfg = {"eop": "pass"}
    u = []
    if tier == "quick":
        split = 8
        for r in ("sv_full", "orb_full", "sv_bare", "orb_bare"):
            lvl = "full" if r in ("sv_full", "orb_full") else "full-noinfos"
            for s in range(split):
                u.append((cfg, dict(part="hist", root=r, depth=3, level=lvl, first=[s, split])))
        for r in ("sv_full", "orb_full"):
            for s in range(4):
                u.append((cfg, dict(part="hist", root=r, depth=4, level="core-plus", first=[s, 4])))
            u.append((cfg, dict(part="hist", root=r, depth=4, level="covlocal", first=None)))
    else:
        split = 16
        for r in ("sv_full", "orb_full"):
            for s in range(11):
                u.append((cfg, dict(part="hist", root=r, depth=6, level="core", first=[s, 11])))
            for s in range(13):
                u.append((cfg, dict(part="hist", root=r, depth=5, level="core-plus", first=[s, 13])))
            for s in range(4):
                u.append((cfg, dict(part="hist", root=r, depth=5, level="covlocal", first=[s, 4])))
        for r in ("sv_full", "orb_full", "sv_bare", "orb_bare"):
            lvl = "full" if r in ("sv_full", "orb_full") else "full-noinfos"
            for s in range(split):
                u.append((cfg, dict(part="hist", root=r, depth=4, level=lvl, first=[s, split])))
        for r in ("sv_cov", "orb_mans"):
            for s in range(4):
                u.append((cfg, dict(part="hist", root=r, depth=3, level="full", first=[s, 4])))
    # collision chains: roots that differ in exactly one coordinate (epoch / orbit / form of the root), explored one
    # after the other in ONE process, in both orders: anything the library keeps between calls that is keyed without
    # that coordinate makes the later root disagree with its own model
    first = []
    clevels = [["full", 2]] if tier == "quick" else [["full", 2], ["core-plus", 3]]
    for base in ("sv_full", "orb_full"):
        for kind, roots in (
            ("epoch", [dict(base=base, epoch=e) for e in EPOCHS]),
            ("orbit", [dict(base=base, orbit=o) for o in ORBITS]),
            ("form", [dict(base=base, form=f) for f in FORMS_FULL]),
        ):
            first.append((cfg, dict(part="chain", chain=kind, roots=roots, levels=clevels)))
            first.append((cfg, dict(part="chain", chain=kind + "-reversed", roots=roots[::-1], levels=clevels)))
    for kind in DYN_KINDS:
        first.append((cfg, dict(part="dyn", kind=kind, depth=4 if tier == "quick" else 5)))
    broots = list(BOUNDARY_ROOTS)
    u.append((cfg, dict(part="boundary", roots=broots[:4])))
    u.append((cfg, dict(part="boundary", roots=broots[4:])))
    # the long units go first so that the pool stays balanced
    u = first + u
    forms = ["tle", "keplerian_circular", "keplerian_mean", "keplerian_mean_circular", "keplerian_eccentric", "keplerian",
             "spherical", "cartesian", "equinoctial", "cylindrical"]
    for r in ("sv_full", "orb_bare"):
        u.append((cfg, dict(part="access", root=r, forms=forms, frames=["EME2000", "ITRF"])))
    return u


def run_unit(p, t):
    if p["part"] == "access":
        names = [f.name for f in all_forms()]
        missing = [n for n in names if n not in p["forms"]]
        if missing:
            raise RuntimeError(f"forms not in the access product: {missing}")
        for f in p["forms"]:
            for fr in p["frames"]:
                check_access_case(dict(part="access", root=p["root"], form=f, frame=fr), t)
        return
    if p["part"] == "dyn":
        dyn_explore(p["kind"], p["depth"], t)
        return
    if p["part"] == "boundary":
        for r in p["roots"]:
            bnd_explore(r, t)
        return
    if p["part"] == "chain":
        for r in p["roots"]:
            for level, depth in p["levels"]:
                explore(r, depth, level, None, t)
        t.note("collision chains (roots differing in one coordinate, explored in one process)", 1)
        return
    explore(p["root"], p["depth"], p["level"], p["first"], t)


def replay(case, t):
    check_case(case, t)
