"""C19 — mission-design helpers are consistent with the dynamics they target.

Lambert (certificate check: reference two-body propagation of the returned
velocity must arrive), sun-synchronous solver (self-inverse, node drift of the
real J2 propagator), B-plane (asymptote from the reference propagation, hyperbola
geometry), LTAN <-> RAAN, Walker constellations, beta angle.
"""

import itertools
import math

import numpy as np

PROPERTY = "C19"
CLAIM = dict(
    text="Every element of finite input grids is run through the real helpers and checked against the dynamics they target: "
    "Lambert velocities are propagated by an independent universal-variable two-body model and must arrive (position, "
    "velocity, direction of motion); sso() is inverted in its three modes and its inclination is fed to the real J2 "
    "propagator whose node drift must be the mean solar rate; the B-plane triad is compared with the incoming asymptote "
    "obtained from the reference propagation and with the hyperbola's geometric construction; LTAN/RAAN conversions are "
    "composed both ways; every Walker triple t/p/f up to the bound is enumerated; beta is compared with the elevation of "
    "the body over the plane of the QSW triad.",
    note="Trusts mc/ref/twobody.py (self-tested); Sun/Moon positions are taken from the library (checked by C18); EOP policy 'pass'.",
    technique="exhaustive product over finite input alphabets on the real code, certificate checks against an independent two-body model",
)
RULE = (
    "Lambert: |r0| x transfer angle x radius ratio x plane x time-of-flight class x prograde flag; SSO: (a, e) grid; B-plane: "
    "e x anomaly x orientation x body; LTAN: date x node x type; Walker: every t<=bound, p|t, f<p, Star/Delta, 7 values of raan0 (0, > pi, negative); beta: "
    "orbit x date x frame x body. non-trivial = all cases (none is an identity); distinct by tuple"
)
BOUNDS = {
    "quick": "Lambert 2x5x3x2x4x2=480 cases; SSO 120x6; B-plane 4x6x3x2; LTAN 24x24x2 both ways; Walker t<=24; beta 8 orbits x 12 dates x 8 frames x 2 bodies + 24 pole cases",
    "thorough": "Lambert 3 radii x 22 angles x 4 ratios x 5 planes x 6 tof; SSO 480x9; B-plane 7 e x 10 anomalies x 5 orientations x 3 bodies; LTAN 96x96; Walker t<=72; beta 16 orbits x 48 dates",
}
ASSUMPTIONS = [
    "'prograde' means positive z-component of the angular momentum in the frame of orb0 (the library's documented flag)",
    "'to within metres' is read as 5 m / 5 mm/s (DESIGN.md); a converged solver is at the 1e-6 m level, so the reading is generous",
    "mean solar rate = 2 pi per tropical year; 1e-4 relative covers the sidereal/tropical year difference",
    "beta: the orbit plane is the inertial plane of the motion; an orbit handed over in an Earth-fixed frame denotes the same physical orbit",
]
NOT_COVERED = (
    "Lambert: hyperbolic and multi-revolution transfers, transfer angles within 15 deg of 0/180/360, orbit planes containing the z axis; "
    "flyby() (references undefined names, not in the property); beta with an Orbit/Ephem as secondary object"
)

_G = {}


def setup(config):
    from beyond.config import config as bc
    from beyond.constants import Earth

    bc.update({"eop": {"missing_policy": "pass"}})
    _G["mu"] = float(Earth.mu)
    from mc import world

    _G["snap"] = world.snapshot()


def _ensure():
    if "mu" not in _G:
        setup(None)


def us(x):
    return round(x * 1e6) / 1e6


# ---------------------------------------------------------------------------
# Lambert


def lambert_geometry(R0, ratio, delta_deg, inc_deg, u0=0.3):
    i = math.radians(inc_deg)
    p = np.array([1.0, 0.0, 0.0])
    q = np.array([0.0, math.cos(i), math.sin(i)])
    d = math.radians(delta_deg)
    r0 = R0 * (math.cos(u0) * p + math.sin(u0) * q)
    r1 = R0 * ratio * (math.cos(u0 + d) * p + math.sin(u0 + d) * q)
    return r0, r1


def flown_angle(r0, r1, prograde):
    """Angle swept from r0 to r1 by a motion whose angular momentum has the requested sign of h_z."""
    short = math.acos(max(-1.0, min(1.0, (r0 @ r1) / (np.linalg.norm(r0) * np.linalg.norm(r1)))))
    cz = np.cross(r0, r1)[2]
    want = 1.0 if prograde else -1.0
    return short if cz * want > 0 else 2 * math.pi - short


def lambert_times(r0, r1, phi, mu):
    """(parabolic, minimum-energy) times of flight for the swept angle phi (Lagrange's time equation)."""
    R0, R1 = np.linalg.norm(r0), np.linalg.norm(r1)
    c = np.linalg.norm(r1 - r0)
    s = (R0 + R1 + c) / 2
    sg = 1.0 if phi < math.pi else -1.0
    tp = math.sqrt(2 / mu) / 3 * (s**1.5 - sg * (s - c) ** 1.5)
    am = s / 2
    bm = 2 * math.asin(math.sqrt((s - c) / s)) * sg
    tme = math.sqrt(am**3 / mu) * (math.pi - (bm - math.sin(bm)))
    return tp, tme


TOF_CLASSES = {"1.05tp": ("p", 1.05), "0.8tme": ("m", 0.8), "1.0tme": ("m", 1.0), "1.5tme": ("m", 1.5),
               "1.3tp": ("p", 1.3), "2.5tme": ("m", 2.5)}


def check_lambert(case, t):
    from mc.ref import twobody
    from beyond.dates import Date, timedelta
    from beyond.orbits import Orbit
    from beyond.utils.lambert import lambert

    _ensure()
    mu = _G["mu"]
    r0, r1 = lambert_geometry(case["R0"], case["ratio"], case["delta"], case["inc"])
    pro = case["prograde"]
    phi = flown_angle(r0, r1, pro)
    tp, tme = lambert_times(r0, r1, phi, mu)
    kind, f = TOF_CLASSES[case["tof"]]
    tof = us(f * (tp if kind == "p" else tme))
    if tof <= 1.02 * tp:
        t.exclude("transfer time not above the parabolic time (hyperbolic transfer)")
        return
    d0 = Date(2020, 3, 1, 6, 0, 0)
    o0 = Orbit(list(r0) + [0.0, 0.0, 0.0], d0, "cartesian", "EME2000", None)
    o1 = Orbit(list(r1) + [0.0, 0.0, 0.0], d0 + timedelta(seconds=tof), "cartesian", "EME2000", None)
    f0, f1 = case.get("f0", "EME2000"), case.get("f1", "EME2000")
    mixed = (f0, f1) != ("EME2000", "EME2000") or case.get("form1", "cartesian") != "cartesian"
    if mixed:
        # the same two positions, handed over in different frames sharing the centre (and another form for the target):
        # the computation frame is orb0's; the target position in that frame comes from the library's frame code
        if f0 != "EME2000":
            o0 = o0.copy(frame=f0)
        if f1 != "EME2000":
            o1 = o1.copy(frame=f1)
        if case.get("form1", "cartesian") != "cartesian":
            o1 = o1.copy(form=case["form1"])
        r0 = np.array(o0.copy(form="cartesian"), dtype=float)[:3]
        r1 = np.array(o1.copy(frame=f0, form="cartesian"), dtype=float)[:3]
        t.trans(4)
    way = "short" if phi < math.pi else "long"
    cls = f"{'prograde' if pro else 'retrograde'}-{way}"
    clause = "Lambert velocities propagated with two-body dynamics for the transfer time arrive at the target position"
    try:
        a, b = lambert(o0, o1, prograde=pro)
        t.trans()
    except Exception as e:
        t.fail("lambert/raises", clause, case, "two orbits", repr(e))
        return
    a = np.array(a, dtype=float)
    b = np.array(b, dtype=float)
    if not (np.array_equal(a[:3], r0) and np.array_equal(b[:3], r1)):
        t.fail("lambert/positions-changed" + ("/mixed-frames" if mixed else ""), "end positions are those requested (in the frame of the initial orbit)", case, [r0, r1], [a[:3], b[:3]])
    if not (np.all(np.isfinite(a)) and np.all(np.isfinite(b))):
        t.fail("lambert/non-finite", clause, case, "finite velocities", [a[3:], b[3:]], f"phi={math.degrees(phi):.0f} tof={tof}")
        t.outcome(("lambert", cls, "nan"))
        return
    hz = np.cross(a[:3], a[3:])[2]
    if (hz > 0) != pro:
        t.fail("lambert/direction", "the solution moves in the requested direction (prograde / retrograde)", case,
               "h_z > 0" if pro else "h_z < 0", hz)
    energy = a[3:] @ a[3:] / 2 - mu / np.linalg.norm(r0)
    x = twobody.propagate_uv(a, tof, mu)
    t.trace()
    miss = np.linalg.norm(x[:3] - r1)
    dv = np.linalg.norm(x[3:] - b[3:])
    ok1 = t.margin("Lambert arrival miss [m] / 5 m", miss, 5.0, case)
    ok2 = t.margin("Lambert arrival velocity [m/s] / 5 mm/s", dv, 5e-3, case)
    if not (ok1 and ok2):
        t.fail("lambert/arrival" + ("/mixed-frames" if mixed else ""), clause + " to within metres", case, [0.0, 0.0], [miss, dv],
               f"miss {miss:.3f} m, velocity mismatch {dv*1e3:.3f} mm/s; {cls} phi={math.degrees(phi):.0f} deg tof={tof:.3f} s (tp={tp:.1f}, tme={tme:.1f}); energy {energy:.3e}")
    t.outcome(("lambert", cls, case["tof"], "miss>1m" if miss > 1 else "miss<1m"))


# ---------------------------------------------------------------------------
# SSO

TROPICAL_YEAR = 365.24219 * 86400.0


def check_sso(case, t):
    from beyond.utils.leo import sso
    from beyond.dates import Date, timedelta
    from beyond.orbits import Orbit

    a, e = case["a"], case["e"]
    i = float(sso(a=a, e=e))
    t.trans()
    if not math.isfinite(i):
        t.exclude("no sun-synchronous inclination for this (a, e)")
        return
    if not (math.pi / 2 < i <= math.pi):
        t.fail("sso/i-mode/range", "a sun-synchronous inclination is retrograde", case, "(pi/2, pi]", i)
    a2 = float(sso(e=e, i=i))
    e2 = float(sso(a=a, i=i))
    t.trans(2)
    # conditioning: cos i = -K a^3.5 (1-e^2)^2 ; d a/a = (2/7) d(cos i)/cos i ; tan(i) amplifies the arccos
    k = abs(math.tan(i)) + 1
    if not t.margin("sso: a -> i -> a [rel]", abs(a2 / a - 1) if math.isfinite(a2) else float("inf"), 4e-16 * 8 * k, case):
        t.fail("sso/a-mode", "sso is self-inverse (a from e, i)", case, a, a2)
    # e = sqrt(1 - sqrt(X)), X = (1-e^2)^2 known to 1e-15 relative -> e^2 known to ~1e-15 absolute
    if not math.isfinite(e2):
        t.fail("sso/e-mode/nan" + ("-circular" if e == 0 else ""), "sso is self-inverse (e from a, i)", case, e, e2,
               "1 - sqrt(X) rounds below zero")
    elif not t.margin("sso: e -> i -> e [|e'^2 - e^2|]", abs(e2 * e2 - e * e), 4e-16 * 8 * k, case):
        t.fail("sso/e-mode", "sso is self-inverse (e from a, i)", case, e, e2)
    # node drift of the real J2 propagator
    d0 = Date(2015, 6, 1)
    days = 10
    orb = Orbit([a, e, i, 1.0, 0.5, 0.2], d0, "keplerian_mean", "EME2000", "J2")
    try:
        r = orb.propagate(d0 + timedelta(days=days))
        t.trans()
        Om = float(r.copy(form="keplerian")[3])
    except Exception as ex:
        t.fail("sso/j2-raises", "J2 propagation of a sun-synchronous orbit", case, "a state", repr(ex))
        return
    dOm = (Om - 1.0 + math.pi) % (2 * math.pi) - math.pi
    rate = dOm / (days * 86400.0)
    want = 2 * math.pi / TROPICAL_YEAR
    if not t.margin("sso: J2 node drift vs mean solar rate [rel] / 1e-4", abs(rate / want - 1), 1e-4, case):
        t.fail("sso/node-drift", "sun-synchronous inclination makes the J2 node drift equal the mean solar rate", case, want, rate)
    # the same drift measured on the points of Orbit.iter() / Orbit.ephem() over the 10 days (one propagator, many dates)
    for how in ("iter", "ephem"):
        orb2 = Orbit([a, e, i, 1.0, 0.5, 0.2], d0, "keplerian_mean", "EME2000", "J2")
        try:
            if how == "iter":
                pts = list(orb2.iter(stop=timedelta(days=days), step=timedelta(days=2)))
            else:
                pts = list(orb2.ephem(stop=timedelta(days=days), step=timedelta(days=2)))
            t.trans(len(pts))
            oms = [float(p_.copy(form="keplerian")[3]) for p_ in pts]
            tks = [(p_.date - d0).total_seconds() for p_ in pts]
        except Exception as ex:
            t.fail("sso/j2-raises", "J2 propagation of a sun-synchronous orbit", case, "states", repr(ex), how)
            return
        if len(pts) != 6:
            t.fail("sso/node-drift/iter-count", "iter yields start..stop inclusive", case, 6, len(pts))
            continue
        worst = 0.0
        for k in range(1, len(pts)):
            rk = ((oms[k] - 1.0 + math.pi) % (2 * math.pi) - math.pi) / tks[k]
            worst = max(worst, abs(rk / want - 1))
        if not t.margin("sso: J2 node drift along iter()/ephem() points [rel] / 1e-4", worst, 1e-4, case):
            t.fail("sso/node-drift/iter", "sun-synchronous inclination makes the J2 node drift equal the mean solar rate at every point of an ephemeris",
                   case, want, [((oms[k] - 1.0 + math.pi) % (2 * math.pi) - math.pi) / tks[k] for k in range(1, len(pts))], how)
            break
    t.outcome(("sso", round(i, 2)))



def check_frozen(case, t):
    """sso_frozen(a) is a fixpoint of the two definitions it iterates, frozen() is its closed form, the real J2 propagator
    drifts the node at the mean solar rate for the result, and the absence of a solution is reported by ValueError."""
    from beyond.utils.leo import sso, frozen, sso_frozen
    from beyond.constants import Earth
    from beyond.dates import Date, timedelta
    from beyond.orbits import Orbit

    a = case["a"]
    eps = 2.2e-16
    has_solution = math.isfinite(float(sso(a=a, e=0.0)))
    t.trans()
    try:
        e, i, w = (float(x) for x in sso_frozen(a))
        t.trans()
    except ValueError:
        if has_solution:
            t.fail("sso_frozen/raises", "sso_frozen finds the sun-synchronous frozen orbit where one exists", case, "(e, i, w)", "ValueError")
        else:
            t.exclude("no sun-synchronous inclination for this a (ValueError raised, as required)")
            t.outcome(("frozen", "valueerror"))
        return
    if not has_solution or not all(math.isfinite(x) for x in (e, i, w)):
        t.fail("sso_frozen/no-solution-not-reported", "where no sun-synchronous frozen orbit exists a ValueError is raised, not a value",
               case, "ValueError", [e, i, w])
        return
    # fixpoint: the loop stops when |de| < 1e-12, and di/de = 4 e / tan(i) for the sun-synchronous condition
    i2 = float(sso(a=a, e=e))
    e2, w2 = (float(x) for x in frozen(a, i))
    t.trans(2)
    tol_i = 4 * e * 1e-12 / abs(math.tan(i)) + 8 * eps * (1 + 1 / abs(math.tan(i)))
    if not t.margin("sso_frozen: i vs sso(a, e) [rad over tol]", abs(i2 - i), tol_i, case):
        t.fail("sso_frozen/fixpoint-i", "the result satisfies i = sso(a=a, e=e)", case, i2, i)
    if not t.margin("sso_frozen: e vs frozen(a, i) [abs over 4 ulp]", abs(e2 - e), 4 * eps * abs(e), case) or w2 != w:
        t.fail("sso_frozen/fixpoint-e", "the result satisfies (e, w) = frozen(a, i)", case, [e2, w2], [e, w])
    # closed form of the frozen eccentricity from the constants, and w = pi/2
    e_ref = -float(Earth.r) * math.sin(i) * float(Earth.J3) / (2 * float(Earth.J2) * a)
    if not t.margin("frozen(a, i) vs -R sin(i) J3 / (2 J2 a) [rel over 8 ulp]", abs(e2 / e_ref - 1), 8 * eps, case):
        t.fail("frozen/closed-form", "frozen eccentricity is -R sin(i) J3 / (2 J2 a)", case, e_ref, e2)
    if w != math.pi / 2:
        t.fail("frozen/argument-of-perigee", "frozen argument of perigee is pi/2", case, math.pi / 2, w)
    if not (0 < e < 0.01 and math.pi / 2 < i <= math.pi):
        t.fail("sso_frozen/range", "small positive eccentricity, retrograde inclination", case, "0<e<0.01, i>pi/2", [e, i])
    # node drift of the real J2 propagator for (a, e, i, w)
    d0 = Date(2015, 6, 1)
    days = 10
    try:
        r = Orbit([a, e, i, 1.0, w, 0.2], d0, "keplerian_mean", "EME2000", "J2").propagate(d0 + timedelta(days=days))
        t.trans()
        Om = float(r.copy(form="keplerian")[3])
    except Exception as ex:
        t.fail("sso/j2-raises", "J2 propagation of a sun-synchronous orbit", case, "a state", repr(ex))
        return
    rate = ((Om - 1.0 + math.pi) % (2 * math.pi) - math.pi) / (days * 86400.0)
    want = 2 * math.pi / TROPICAL_YEAR
    if not t.margin("sso_frozen: J2 node drift vs mean solar rate [rel] / 1e-4", abs(rate / want - 1), 1e-4, case):
        t.fail("sso_frozen/node-drift", "the sun-synchronous frozen orbit drifts its node at the mean solar rate under J2", case, want, rate)
    t.outcome(("frozen", round(i, 2)))


def check_sso_hist(case, t):
    """The node-drift clause with RE-USED objects: one J2() instance shared by successive orbits at a common epoch
    ('shared'), or one Orbit object whose elements are rewritten in place after a first propagation ('inplace').
    The first orbit is deliberately not sun-synchronous.  Every answer must equal a fresh object's answer and give
    the mean solar node rate."""
    from beyond.utils.leo import sso
    from beyond.dates import Date, timedelta
    from beyond.orbits import Orbit
    from beyond.propagators.j2 import J2

    d0 = Date(2015, 6, 1)
    days = 10
    d1 = d0 + timedelta(days=days)
    want = 2 * math.pi / TROPICAL_YEAR
    mode = case["mode"]
    clause = "the sun-synchronous inclination makes the J2 node drift equal the mean solar rate (whatever the propagator computed before)"
    sig = "sso/node-drift/" + ("shared-propagator" if mode == "shared" else "in-place-update")
    a0, e0 = case["grid"][0]
    try:
        if mode == "shared":
            pr = J2()
            first = Orbit([a0, e0, 0.9, 1.0, 0.5, 0.2], d0, "keplerian_mean", "EME2000", pr)
            first.propagate(d1)
        else:
            orb = Orbit([a0, e0, 0.9, 1.0, 0.5, 0.2], d0, "keplerian_mean", "EME2000", "J2")
            orb.propagate(d1)
        t.trans()
        for a, e in case["grid"]:
            i = float(sso(a=a, e=e))
            if not math.isfinite(i):
                t.exclude("no sun-synchronous inclination for this (a, e)")
                continue
            if mode == "shared":
                o = Orbit([a, e, i, 1.0, 0.5, 0.2], d0, "keplerian_mean", "EME2000", pr)
            else:
                orb[0] = a
                orb[1] = e
                orb[2] = i
                o = orb
            r = o.propagate(d1)
            fresh = Orbit([a, e, i, 1.0, 0.5, 0.2], d0, "keplerian_mean", "EME2000", "J2").propagate(d1)
            t.trans(2)
            Om = float(r.copy(form="keplerian")[3])
            rate = ((Om - 1.0 + math.pi) % (2 * math.pi) - math.pi) / (days * 86400.0)
            ok = t.margin("sso: J2 node drift with re-used objects [rel] / 1e-4", abs(rate / want - 1), 1e-4, case)
            same = np.array_equal(np.array(r, dtype=float), np.array(fresh, dtype=float))
            if not ok or not same:
                t.fail(sig, clause, case, [want, np.array(fresh, dtype=float)], [rate, np.array(r, dtype=float)],
                       f"a={a} e={e}: node rate {rate:.6e} rad/s (solar {want:.6e}); equal to a fresh propagator: {same}")
                return
    except Exception as ex:
        import traceback

        if "/beyond/" not in traceback.extract_tb(ex.__traceback__)[-1].filename:
            raise
        t.fail(sig + "/raises", clause, case, "a state", repr(ex))
        return
    t.outcome(("sso_hist", mode))


# ---------------------------------------------------------------------------
# B-plane

BODIES = {"Earth": ("EME2000", 7.0e6), "Sun": ("Sun", 2.0e10), "Moon": ("Moon", 2.5e6)}
ORIENTATIONS = [(0.4, 1.0, 2.0), (1.8, 4.0, 0.5), (2.9, 0.2, 5.0), (1.2, 2.5, 3.3), (0.05, 5.5, 1.0)]


def _frame(body):
    from beyond.env import solarsystem
    from beyond.frames.frames import get_frame

    name, _ = BODIES[body]
    if name == "EME2000":
        return get_frame("EME2000")
    key = "frame_" + name
    if key not in _G:
        _G[key] = solarsystem.get_frame(name)
    return _G[key]


def check_bplane(case, t):
    from mc.ref import twobody
    from beyond.dates import Date
    from beyond.orbits import Orbit
    from beyond.utils.interplanetary import bplane

    _ensure()
    body, e, fa, oi = case["body"], case["e"], case["fa"], case["orient"]
    frame = _frame(body)
    mu = float(frame.center.body.mu)
    rp = BODIES[body][1]
    a = -rp / (e - 1)
    nu_inf = math.acos(-1 / e)
    nu = fa * nu_inf
    inc, Om, w = ORIENTATIONS[oi]
    rv = twobody.kep_to_cart(a, e, inc, Om, w, nu, mu)
    orb = Orbit(rv, Date(2020, 1, 1), "cartesian", frame, None)
    sig = "bplane"
    try:
        bp = bplane(orb)
        t.trans()
    except Exception as ex:
        t.fail(sig + "/raises", "B-plane of a hyperbolic state", case, "BPlane", repr(ex))
        return
    B, S, T, R, hv = (np.array(x, dtype=float) for x in (bp.B, bp.S, bp.T, bp.R, bp.h))
    if not all(np.all(np.isfinite(x)) for x in (B, S, T, R)):
        t.fail(sig + "/non-finite", "B-plane vectors are finite", case, "finite", [B, S, T, R])
        return
    # incoming asymptote from the reference propagation: velocity direction far before periapsis, Richardson-extrapolated
    k = twobody.cart_to_kep(rv, mu)
    vinf = math.sqrt(mu / abs(k["a"]))
    T0 = 1e8 * abs(k["a"]) / vinf
    x1 = twobody.propagate_uv(rv, -T0, mu)
    x2 = twobody.propagate_uv(rv, -2 * T0, mu)
    t.trace(2)
    v1 = x1[3:] / np.linalg.norm(x1[3:])
    v2 = x2[3:] / np.linalg.norm(x2[3:])
    Sref = 2 * v2 - v1  # deviation from the asymptote is ~ b/r ~ 1/T
    Sref /= np.linalg.norm(Sref)
    b_len = abs(k["a"]) * math.sqrt(k["e"] ** 2 - 1)
    ang = math.atan2(np.linalg.norm(np.cross(S, Sref)), S @ Sref)
    cond = k["e"] ** 2 / (k["e"] ** 2 - 1)
    if not t.margin("bplane: angle(S, incoming asymptote) [rad]", ang, 2e-13 * cond + 2e-13, case):
        t.fail(sig + "/S", "S is along the incoming asymptote", case, Sref, S, f"angle {ang:.3e} rad (raw, unextrapolated: {math.acos(min(1, S @ v1)):.3e})")
    # orthonormal right-handed triad
    G = np.array([S, T, R])
    orth = np.max(np.abs(G @ G.T - np.eye(3)))
    hand = np.linalg.norm(np.cross(S, T) - R)
    if not t.margin("bplane: (S,T,R) orthonormality", max(orth, hand), 4e-15, case):
        t.fail(sig + "/triad", "(S, T, R) is orthonormal", case, np.eye(3), G @ G.T)
    # B perpendicular to S and h, with the length of the impact parameter
    Bn = np.linalg.norm(B)
    hh = k["h"] / np.linalg.norm(k["h"])
    perp = max(abs(B @ S), abs(B @ hh)) / Bn
    if not t.margin("bplane: B.S, B.h (normalised)", perp, 1e-14 * cond, case):
        t.fail(sig + "/B-perp", "B is perpendicular to S and to the angular momentum", case, 0.0, [B @ S / Bn, B @ hh / Bn])
    if not t.margin("bplane: |B| vs |a| sqrt(e^2-1) [rel]", abs(Bn / b_len - 1), 2e-14 * cond + 2e-14, case):
        t.fail(sig + "/B-length", "|B| is the impact parameter", case, b_len, Bn)
    # geometric construction: the asymptote goes through the centre of the hyperbola C = |a| e ê
    C = abs(k["a"]) * k["e"] * (k["evec"] / k["e"])
    Bref = C - (C @ Sref) * Sref
    if not t.margin("bplane: B vs foot of the incoming asymptote [rel]", np.linalg.norm(B - Bref) / b_len, 1e-12 * cond * k["e"], case):
        t.fail(sig + "/B-vector", "B points from the focus to the incoming asymptote in the plane of motion", case, Bref, B)
    if np.linalg.norm(hv / np.linalg.norm(hv) - hh) > 1e-12:
        t.fail(sig + "/h", "h is the angular momentum", case, hh, hv)
    t.outcome(("bplane", body, e))



BPLANE_FORMS = ["keplerian", "spherical", "keplerian_mean", "keplerian_eccentric"]


def check_bplane_form(case, t):
    """The same hyperbolic state handed to bplane() in a non-cartesian form (and, for the Earth, in another frame of the
    same centre): the result is the one obtained for the cartesian form of that very orbit."""
    from mc.ref import twobody
    from beyond.dates import Date
    from beyond.orbits import Orbit
    from beyond.utils.interplanetary import bplane

    _ensure()
    body, e, fa, oi = case["body"], case["e"], case["fa"], case["orient"]
    frame = _frame(body)
    mu = float(frame.center.body.mu)
    a = -BODIES[body][1] / (e - 1)
    inc, Om, w = ORIENTATIONS[oi]
    rv = twobody.kep_to_cart(a, e, inc, Om, w, fa * math.acos(-1 / e), mu)
    clause = "the B-plane of a hyperbolic state does not depend on the form (or frame label) the state is handed over in"
    sig = "bplane/input-form"
    try:
        orb = Orbit(rv, Date(2020, 1, 1), "cartesian", frame, None)
        if case.get("frame"):
            orb = orb.copy(frame=case["frame"])
        of = orb.copy(form=case["form"])
        oc = of.copy(form="cartesian")
        t.trans(3)
    except Exception as ex:
        t.exclude("form not defined for this hyperbolic state (" + type(ex).__name__ + ")")
        return
    if not (np.all(np.isfinite(np.array(of, dtype=float))) and np.all(np.isfinite(np.array(oc, dtype=float)))):
        t.exclude("form conversion of the hyperbolic state is not finite (subject of C01)")
        return
    try:
        bf = bplane(of)
        bc = bplane(oc)
        t.trans(2)
    except Exception as ex:
        t.fail(sig + "/raises", clause, case, "BPlane", repr(ex))
        return
    worst = 0.0
    for name in ("B", "S", "T", "R", "e", "h"):
        x = np.array(getattr(bf, name), dtype=float)
        y = np.array(getattr(bc, name), dtype=float)
        if not np.all(np.isfinite(x)):
            worst = float("inf")
            break
        worst = max(worst, np.linalg.norm(x - y) / max(np.linalg.norm(y), 1e-300))
    th = abs(float(bf.theta) - float(bc.theta))
    worst = max(worst, th if math.isfinite(th) else float("inf"))
    if not t.margin("bplane: non-cartesian input vs cartesian input [rel]", worst, 1e-13, case):
        t.fail(sig, clause, case, [np.array(bc.B, dtype=float), np.array(bc.S, dtype=float)], [np.array(bf.B, dtype=float), np.array(bf.S, dtype=float)],
               f"form {case['form']} frame {case.get('frame') or frame.name}: relative difference {worst:.3e}")
    t.outcome(("bplane-form", case["form"], case.get("frame")))


# ---------------------------------------------------------------------------
# LTAN


def ltan_dates(n):
    out = []
    for k in range(n):
        out.append((51544 + (k * 7670) // n + 3 * k, us((k * 86400.0 / n + 1234.5 * k) % 86400)))
    return out


def check_ltan(case, t):
    from beyond.dates import Date
    from beyond.utils.ltan import raan2ltan, ltan2raan

    d = Date(case["mjd"], case["sec"])
    ty = case["type"]
    two_pi = 2 * math.pi
    if "raan" in case:
        raan = case["raan"]
        try:
            lt = float(raan2ltan(d, raan, ty))
            back = float(ltan2raan(d, lt, ty))
            t.trans(2)
        except Exception as ex:
            t.fail("ltan/raises", "LTAN and RAAN conversions", case, "a value", repr(ex))
            return
        if not (0 <= lt < 86400):
            t.fail("ltan/range" + ("/extra-turns" if case.get("turns") else ""), "LTAN is a time of day", case, "[0, 86400)", lt)
        err = abs((back - raan + math.pi) % two_pi - math.pi)
        if not t.margin(f"raan -> ltan -> raan ({ty}) [rad]", err, 2e-15 * two_pi * 8 * (1 + abs(case.get("turns", 0))), case):
            t.fail("ltan/raan-roundtrip" + ("/extra-turns" if case.get("turns") else ""), "ltan2raan inverts raan2ltan (mod 2 pi)", case, raan, back)
        t.outcome(("ltan", int(lt // 3600)))
    else:
        lt = case["ltan"]
        try:
            ra = float(ltan2raan(d, lt, ty))
            back = float(raan2ltan(d, ra, ty))
            t.trans(2)
        except Exception as ex:
            t.fail("ltan/raises", "LTAN and RAAN conversions", case, "a value", repr(ex))
            return
        if not (0 <= ra < two_pi):
            t.fail("ltan/raan-range", "RAAN in [0, 2 pi)", case, "[0, 2pi)", ra)
        err = abs((back - lt + 43200) % 86400 - 43200)
        if not t.margin(f"ltan -> raan -> ltan ({ty}) [s]", err, 2e-15 * 86400 * 8 * (1 + abs(case.get("turns", 0))), case):
            t.fail("ltan/ltan-roundtrip", "raan2ltan inverts ltan2raan (mod 86400 s)", case, lt, back)
        t.outcome(("raan", int(ra * 4)))


# ---------------------------------------------------------------------------
# Walker


WALKER_RAAN0 = (0, 0.7, math.radians(130), 4.0, 6.0, math.radians(300), -1.0)


def check_walker(case, t):
    from beyond.utils.constellation import WalkerStar, WalkerDelta

    tt, p, f, kind, raan0 = case["t"], case["p"], case["f"], case["cls"], case["raan0"]
    cls = WalkerStar if kind == "Star" else WalkerDelta
    span = math.pi if kind == "Star" else 2 * math.pi
    two_pi = 2 * math.pi
    sig = "walker/" + kind
    try:
        w = cls(tt, p, f, raan0) if raan0 else cls(tt, p, f)
        fleet = [(float(a), float(b)) for a, b in w.iter_fleet()]
        t.trans()
    except Exception as ex:
        t.fail(sig + "/raises", "Walker constellation t/p/f with p | t", case, "fleet", repr(ex))
        return
    s = tt // p
    if len(fleet) != tt:
        t.fail(sig + "/count", "contains the stated number of satellites", case, tt, len(fleet))
        return

    def cd(x, y):  # circular difference
        return abs((x - y + math.pi) % two_pi - math.pi)

    worst = 0.0
    ulp = 2.2e-16

    def rel(diff, *mags):
        # round-off of the library's expressions grows with the size of the angles it forms (nu reaches hundreds of rad)
        # ... and nu contains spacing * (raan(i) - raan0) / per_plane: the cancellation error of (raan - raan0), one ulp of
        # |raan0| + span, is amplified by 2 f / s
        amp = (2.0 * f / s + 1.0) * (abs(raan0) + two_pi)
        return diff / (8 * ulp * (sum(abs(m) for m in mags) + two_pi + amp))

    planes = [fleet[j * s : (j + 1) * s] for j in range(p)]
    for j, pl in enumerate(planes):
        # one RAAN per plane, evenly spaced over pi (Star) / 2 pi (Delta)
        for ra, _ in pl:
            worst = max(worst, rel(cd(ra, raan0 + j * span / p), ra))
        for kk, (_, nu) in enumerate(pl):
            # evenly spaced in the plane; phasing f * 2pi / t between adjacent planes
            worst = max(worst, rel(cd(nu, pl[0][1] + kk * two_pi / s), nu, pl[0][1]))
            if j + 1 < p:
                worst = max(worst, rel(cd(planes[j + 1][kk][1] - nu, f * two_pi / tt), nu, planes[j + 1][kk][1]))
    if not t.margin("walker: plane spacing / in-plane spacing / phasing [over 8 ulp of the angles formed]", worst, 1.0, case):
        t.fail(sig + "/spacing", "evenly spaced planes, evenly spaced satellites, inter-plane phasing f*2pi/t", case, 0.0, worst)
    # the satellites are distinct
    keys = set((round((ra % two_pi) / 1e-9), round((nu % two_pi) / 1e-9) % round(two_pi / 1e-9)) for ra, nu in fleet)
    if len(keys) != tt:
        t.fail(sig + "/distinct", "contains the stated number of (distinct) satellites", case, tt, len(keys))
    if w.per_plane != s:
        t.fail(sig + "/per-plane", "t/p satellites per plane", case, s, w.per_plane)
    t.outcome(("walker", kind, p, s > 1))


# ---------------------------------------------------------------------------
# beta

BETA_FRAMES = ["EME2000", "GCRF", "MOD", "TOD", "TEME", "PEF", "TIRF", "ITRF"]
ROTATING = ("PEF", "TIRF", "ITRF")
BETA_ORBITS = [
    (7000e3, 0.001, 1.7, 0.3, 0.2, 0.1),
    (6800e3, 0.0005, 0.9, 2.0, 1.0, 3.0),
    (7200e3, 0.01, 1.72, 4.5, 0.0, 1.0),
    (26560e3, 0.7, 1.1, 5.0, 4.7, 0.5),
    (42164e3, 0.0002, 0.001, 1.0, 1.0, 2.0),
    (7100e3, 0.002, 3.0, 0.7, 2.0, 5.0),
    (8000e3, 0.1, 0.41, 3.3, 5.5, 4.0),
    (6900e3, 0.001, math.pi / 2, 6.0, 0.3, 2.2),
    (6700e3, 0.0, 1.6, 0.0, 0.0, 0.0),
    (12000e3, 0.3, 2.2, 1.5, 3.0, 0.0),
    (7500e3, 0.05, 0.0, 0.0, 1.0, 1.0),
    (7500e3, 0.05, math.pi, 0.0, 1.0, 1.0),
    (30000e3, 0.2, 0.2, 2.2, 2.2, 2.2),
    (6600e3, 0.0001, 1.45, 3.9, 1.1, 0.4),
    (9000e3, 0.15, 1.9, 5.8, 4.4, 3.1),
    (20000e3, 0.5, 2.6, 0.9, 0.1, 6.0),
]


def beta_dates(n):
    return [(51550 + (k * 7600) // n, us((k * 7777.7) % 86400)) for k in range(n)]


def check_beta(case, t):
    from mc.ref import twobody
    from beyond.dates import Date
    from beyond.orbits import Orbit
    from beyond.utils.beta import beta
    from beyond.env.solarsystem import get_body

    _ensure()
    mu = _G["mu"]
    d = Date(case["mjd"], case["sec"])
    body = case["body"]
    frame = case["frame"]
    sun = np.array(get_body(body).propagate(d).copy(frame="EME2000", form="cartesian"), dtype=float)[:3]
    t.trans()
    shat = sun / np.linalg.norm(sun)
    if case.get("pole"):
        # orbit whose normal points at (sign=+1) / away from (-1) the body: beta = +-90 deg
        sgn = case["pole"]
        tmp = np.cross(shat, [0.0, 0.0, 1.0])
        qv = tmp / np.linalg.norm(tmp)
        sv = np.cross(sgn * shat, qv)
        R = 7000e3
        rv = np.concatenate([R * qv, math.sqrt(mu / R) * sv])
    else:
        rv = twobody.kep_to_cart(*BETA_ORBITS[case["orbit"]], mu)
    r, v = rv[:3], rv[3:]
    Q = r / np.linalg.norm(r)
    W = np.cross(r, v)
    W /= np.linalg.norm(W)
    S = np.cross(W, Q)
    ref = math.atan2(shat @ W, math.hypot(shat @ Q, shat @ S))
    orb = Orbit(rv, d, "cartesian", "EME2000", None)
    cls = "rotating-frame" if frame in ROTATING else "inertial-frame"
    if case.get("pole"):
        cls = "normal-along-body"
    sig = "beta/" + cls
    clause = "beta lies in [-90 deg, 90 deg] and equals the elevation of the body above the orbit plane"
    try:
        if frame != "EME2000":
            orb = orb.copy(frame=frame)
        got = float(beta(orb, body))
        t.trans()
    except Exception as ex:
        t.fail(sig + "/raises", clause, case, ref, repr(ex))
        return
    if not math.isfinite(got) or not (-math.pi / 2 <= got <= math.pi / 2):
        t.fail(sig + "/range", clause, case, ref, got, "arcsin argument outside [-1, 1]" if not math.isfinite(got) else "")
        t.outcome(("beta", cls, "nan"))
        return
    # arcsin is ill-conditioned at +-90 deg: error ~ sqrt(2 eps); frame changes add ~1e-12
    tol = (1e-11 if frame in ROTATING else 1e-13) + (3e-8 if abs(ref) > 1.5 else 0.0)
    if not t.margin(f"beta vs elevation over the QSW plane, {cls} [rad]", abs(got - ref), tol, case):
        t.fail(sig, clause, case, ref, got, f"difference {math.degrees(got-ref):.4f} deg, frame {frame}")
    t.outcome(("beta", cls, int(math.degrees(ref) // 30)))



LTAN_FRAMES = ["EME2000", "GCRF", "MOD", "TOD", "TEME", "ITRF", "PEF"]
LTAN_FORMS = ["cartesian", "keplerian", "spherical", "keplerian_mean"]


def check_orb2ltan(case, t):
    """orb2ltan of the same physical orbit handed over in several frames / forms = raan2ltan of its EME2000 node."""
    from mc.ref import twobody
    from beyond.dates import Date
    from beyond.orbits import Orbit
    from beyond.utils.ltan import orb2ltan, raan2ltan, ltan2raan

    _ensure()
    d = Date(case["mjd"], case["sec"])
    el = BETA_ORBITS[case["orbit"]]
    rv = twobody.kep_to_cart(*el, _G["mu"])
    Om = el[3]
    ty = case["type"]
    clause = "local time of ascending node of an orbit is that of its node's right ascension in EME2000, whatever frame/form the orbit is given in"
    try:
        orb = Orbit(rv, d, "cartesian", "EME2000", None)
        if case["frame"] != "EME2000":
            orb = orb.copy(frame=case["frame"])
        if case["form"] != "cartesian":
            orb = orb.copy(form=case["form"])
        lt = float(orb2ltan(orb, ty))
        want = float(raan2ltan(d, Om, ty))
        back = float(ltan2raan(d, lt, ty))
        t.trans(4)
    except Exception as ex:
        t.fail("ltan/orb2ltan/raises", clause, case, "a value", repr(ex))
        return
    err = abs((lt - want + 43200) % 86400 - 43200)
    errb = abs((back - Om + math.pi) % (2 * math.pi) - math.pi)
    # frame change and back + element extraction: a few 1e-14 rad on the node (divided by sin i)
    tol = 1e-13 / max(math.sin(el[2]), 0.05) * 43200 / math.pi + 1e-10
    cls = "eme2000" if case["frame"] == "EME2000" else "other-frame"
    if not t.margin("orb2ltan vs raan2ltan(EME2000 node) [s]", err, tol, case):
        t.fail("ltan/orb2ltan/" + cls, clause, case, want, lt, f"{err:.6f} s off; ltan2raan gives {back:.9f} instead of {Om}; frame {case['frame']} form {case['form']}")
    elif errb > tol * math.pi / 43200 + 1e-12:
        t.fail("ltan/orb2ltan/" + cls, clause, case, Om, back, "ltan2raan(orb2ltan(orb)) is not the EME2000 node")
    t.outcome(("orb2ltan", case["frame"], case["form"]))


LUNAR = [(1.9e6, 0.01, 1.5, 0.4, 0.3, 0.2), (2.5e6, 0.1, 0.5, 3.0, 1.0, 4.0), (6.0e6, 0.3, 2.4, 5.0, 2.0, 1.0), (1.8e6, 0.001, 1.2, 2.0, 0.0, 0.0)]
HELIO = [(1.5e11, 0.02, 0.3, 1.0, 2.0, 3.0), (1.0e11, 0.2, 1.2, 4.0, 1.0, 0.5), (2.3e11, 0.09, 2.8, 0.3, 5.0, 2.0), (5.8e10, 0.2, 0.12, 0.8, 0.5, 1.0)]


def check_beta_body(case, t):
    """Orbits expressed in a frame centred on another obscuring body (Moon, Sun), as the docstring of beta() allows:
    beta = elevation of the secondary body above the orbit plane, everything evaluated in that body's own frame."""
    from mc.ref import twobody
    from beyond.dates import Date
    from beyond.orbits import Orbit
    from beyond.utils.beta import beta
    from beyond.env.solarsystem import get_body

    _ensure()
    centre, body = case["centre"], case["body"]
    frame = _frame(centre)
    mu = float(frame.center.body.mu)
    d = Date(case["mjd"], case["sec"])
    el = (LUNAR if centre == "Moon" else HELIO)[case["orbit"]]
    rv = twobody.kep_to_cart(*el, mu)
    # direction of the secondary seen from the centre, in the axes of the centre's frame (EME2000 for the Moon, MOD for the Sun)
    axes = "EME2000" if centre == "Moon" else "MOD"

    def geo(name):
        return np.array(get_body(name).propagate(d).copy(frame=axes, form="cartesian"), dtype=float)[:3]

    sec = geo(body) - geo(centre)
    t.trans(2)
    shat = sec / np.linalg.norm(sec)
    r, v = rv[:3], rv[3:]
    Q = r / np.linalg.norm(r)
    W = np.cross(r, v)
    W /= np.linalg.norm(W)
    S = np.cross(W, Q)
    ref = math.atan2(shat @ W, math.hypot(shat @ Q, shat @ S))
    sig = f"beta/{centre.lower()}-centred-frame"
    clause = "beta equals the elevation of the body above the orbit plane (orbit expressed in a frame centred on the obscuring body)"
    try:
        got = float(beta(Orbit(rv, d, "cartesian", frame, None), body))
        t.trans()
    except Exception as ex:
        t.fail(sig + "/raises", clause, case, ref, repr(ex))
        return
    if not math.isfinite(got) or not (-math.pi / 2 <= got <= math.pi / 2):
        t.fail(sig + "/range", clause, case, ref, got)
        return
    # direction of the secondary: difference of two ~1.5e11 m vectors -> 1e-16 * 1.5e11 / distance
    tol = 1e-14 + 4e-16 * 1.5e11 / np.linalg.norm(sec) * 8 + (3e-8 if abs(ref) > 1.5 else 0.0)
    if not t.margin(f"beta vs elevation over the QSW plane, {centre}-centred [rad]", abs(got - ref), tol, case):
        t.fail(sig, clause, case, ref, got, f"difference {math.degrees(got-ref):.4f} deg; {body} seen from a {centre}-centred orbit")
    t.outcome(("beta-body", centre, body, int(math.degrees(ref) // 30)))


# ---------------------------------------------------------------------------

CHECKS = dict(lambert=check_lambert, sso=check_sso, sso_hist=check_sso_hist, frozen=check_frozen, bplane=check_bplane, bplane_form=check_bplane_form, ltan=check_ltan, walker=check_walker, beta=check_beta,
              orb2ltan=check_orb2ltan, beta_body=check_beta_body)


def check_case(case, t):
    CHECKS[case["kind"]](case, t)
    key = tuple(sorted((k, repr(v)) for k, v in case.items()))
    t.state(key)
    t.ev(key)


def replay(case, t):
    check_case(case, t)


def cases(tier):
    q = tier == "quick"
    out = {}
    # Lambert
    R0s = [7000e3, 42164e3] if q else [6700e3, 7000e3, 42164e3]
    deltas = [30, 90, 150, 210, 300] if q else [d for d in range(15, 360, 15) if d != 180]
    ratios = [1.0, 1.5, 4.0] if q else [1.0, 1.5, 4.0, 0.4]
    incs = [0, 20] if q else [0, 20, 70, 110, 160]
    tofs = ["1.05tp", "0.8tme", "1.0tme", "1.5tme"] if q else ["1.05tp", "1.3tp", "0.8tme", "1.0tme", "1.5tme", "2.5tme"]
    out["lambert"] = [
        dict(kind="lambert", R0=R0, delta=dl, ratio=ra, inc=inc, tof=tf, prograde=pro)
        for R0 in R0s for dl in deltas for ra in ratios for inc in incs for tf in tofs for pro in (True, False)
    ]
    pairs = [("EME2000", "TEME"), ("TEME", "EME2000"), ("EME2000", "MOD"), ("MOD", "EME2000"), ("GCRF", "EME2000"), ("EME2000", "GCRF"),
             ("EME2000", "EME2000")]
    out["lambert"] += [
        dict(kind="lambert", R0=R0, delta=dl, ratio=1.5, inc=inc, tof="1.0tme", prograde=pro, f0=f0, f1=f1, form1=fm)
        for R0 in R0s for dl in deltas for inc in incs[:2] for pro in (True, False) for (f0, f1) in pairs for fm in ("cartesian", "spherical")
        if (f0, f1, fm) != ("EME2000", "EME2000", "cartesian")
    ]
    # SSO
    a_s = [6578e3 + k * (50e3 if q else 12.5e3) for k in range(120 if q else 480)]
    e_s = [0.0, 1e-4, 0.001, 0.01, 0.05, 0.2] if q else [0.0, 1e-6, 1e-4, 0.001, 0.01, 0.05, 0.1, 0.2, 0.4]
    out["sso"] = [dict(kind="sso", a=a, e=e) for a in a_s for e in e_s]
    out["sso"] += [dict(kind="frozen", a=a) for a in a_s]
    grid = [(a, e) for a in a_s for e in e_s]
    for k in range(0, len(grid), 8):
        for mode in ("shared", "inplace"):
            out["sso"].append(dict(kind="sso_hist", mode=mode, grid=[list(x) for x in grid[k : k + 8]]))
    # B-plane
    es = [1.05, 1.5, 3.0, 10.0] if q else [1.05, 1.2, 1.5, 2.0, 3.0, 6.0, 10.0]
    fas = [-0.9, -0.5, -0.1, 0.1, 0.5, 0.9] if q else [-0.97, -0.9, -0.7, -0.5, -0.1, 0.0, 0.1, 0.5, 0.9, 0.97]
    ors = [0, 1, 2] if q else [0, 1, 2, 3, 4]
    bodies = ["Earth", "Sun"] if q else ["Earth", "Sun", "Moon"]
    out["bplane"] = [dict(kind="bplane", body=b, e=e, fa=fa, orient=o) for b in bodies for e in es for fa in fas for o in ors]
    out["bplane"] += [dict(kind="bplane_form", body=b, e=e, fa=fa, orient=o, form=fm, frame=fr)
                      for b in bodies for e in es for fa in fas[::2] for o in ors[:2] for fm in BPLANE_FORMS
                      for fr in ((None, "TEME", "MOD") if b == "Earth" else (None,))]
    # LTAN
    n = 24 if q else 96
    lt = []
    for mjd, sec in ltan_dates(n):
        for k in range(n):
            for ty in ("mean", "true"):
                raan = 0.0 if k == 0 else (2 * math.pi * (1 - 1e-12) if k == n - 1 else k * 2 * math.pi / n + 0.01)
                ltan = 0.0 if k == 0 else (86399.999999 if k == n - 1 else k * 86400.0 / n + 0.5)
                lt.append(dict(kind="ltan", mjd=mjd, sec=sec, type=ty, raan=raan))
                lt.append(dict(kind="ltan", mjd=mjd, sec=sec, type=ty, ltan=ltan))
                if k % 4 == 1:
                    # the same node / local time written with whole extra turns / days (a negative node angle, an angle
                    # accumulated over several revolutions): still one node, one time of day
                    for m in (-3, -2, -1, 1, 2):
                        lt.append(dict(kind="ltan", mjd=mjd, sec=sec, type=ty, raan=raan + 2 * math.pi * m, turns=m))
                        lt.append(dict(kind="ltan", mjd=mjd, sec=sec, type=ty, ltan=ltan + 86400.0 * m, turns=m))
    no = 6 if q else 12
    for mjd, sec in ltan_dates(n)[:: (4 if q else 8)]:
        for oi in [k for k in range(len(BETA_ORBITS)) if 0.3 < BETA_ORBITS[k][2] < math.pi - 0.1][:no]:
            for fr in LTAN_FRAMES:
                for fm in LTAN_FORMS if fr in ("EME2000", "TEME", "ITRF") else LTAN_FORMS[:2]:
                    if fm != "cartesian" and BETA_ORBITS[oi][1] < 1e-4:
                        continue  # element sets of a (near-)circular orbit are singular (C01's subject): cartesian only
                    for ty in ("mean", "true"):
                        lt.append(dict(kind="orb2ltan", mjd=mjd, sec=sec, orbit=oi, frame=fr, form=fm, type=ty))
    out["ltan"] = lt
    # Walker
    tmax = 24 if q else 72
    wk = []
    for tt in range(1, tmax + 1):
        for p in range(1, tt + 1):
            if tt % p:
                continue
            for f in range(p):
                for cls in ("Star", "Delta"):
                    for raan0 in WALKER_RAAN0:
                        wk.append(dict(kind="walker", t=tt, p=p, f=f, cls=cls, raan0=raan0))
    out["walker"] = wk
    # beta
    norb = 8 if q else 16
    nd = 12 if q else 48
    bt = []
    for mjd, sec in beta_dates(nd):
        for oi in range(norb):
            for fr in BETA_FRAMES:
                for body in ("Sun", "Moon"):
                    bt.append(dict(kind="beta", mjd=mjd, sec=sec, orbit=oi, frame=fr, body=body))
        for sgn in (1, -1):
            bt.append(dict(kind="beta", mjd=mjd, sec=sec, frame="EME2000", body="Sun", pole=sgn))
    for mjd, sec in beta_dates(nd):
        for oi in range(4):
            for centre, bodies_ in (("Moon", ("Sun", "Earth")), ("Sun", ("Moon", "Earth"))):
                for body in bodies_:
                    bt.append(dict(kind="beta_body", mjd=mjd, sec=sec, orbit=oi, centre=centre, body=body))
    out["beta"] = bt
    return out


def units(tier, seed):
    cfg = {"eop": "pass"}
    cs = cases(tier)
    nchunks = dict(lambert=5, sso=3, bplane=2, ltan=4, walker=2, beta=5) if tier == "quick" else dict(
        lambert=24, sso=4, bplane=6, ltan=16, walker=8, beta=16)
    u = []
    for part, lst in cs.items():
        k = nchunks[part]
        for c in range(k):
            u.append((cfg, dict(part=part, tier=tier, chunk=c, of=k)))
    return u


def run_unit(p, t):
    lst = cases(p["tier"])[p["part"]]
    mine = lst[p["chunk"] :: p["of"]]
    for c in mine:
        check_case(c, t)
    for c in mine[:: max(1, len(mine) // 3)][:3]:
        t.sample(c)
